/-
  Layout independence of the wrapper stage with the search inside (`wrapStageFull`), for C06.

  Two token states are `RelW W`-related when they have the same kinds, texts, ignored flags and spaces, the same
  blank-line class of the line-break counter (`nlc`: what `reconstruct_solution` keeps of it at the first token
  of a line), identical ignored tokens, and identical counters at the positions in `W` ("already written").  The
  search reads a token only through its view (type, text; spaces at set-up), so related states get the same
  solutions; applying a solution overwrites the counters of its tokens, so they join `W`.  Once every token is
  written, the rest of the stage and the reconstructor are functions of what the relation keeps.
-/
import PasfmtModel.Model.LayoutCheck
import PasfmtModel.Proofs.WrapStageProps
import PasfmtModel.Proofs.PipelineFullProps

namespace Pasfmt

theorem nlc_idem (n : Nat) : nlc (nlc n) = nlc n := by unfold nlc; omega

/-- same token up to what the layout of the input decides: leading whitespace, indentation counters, and the
    line-break counter within its class -/
structure LR (t t' : FTok) : Prop where
  kind : t.tok.kind = t'.tok.kind
  content : t.tok.content = t'.tok.content
  ign : t.fmt.ignored = t'.fmt.ignored
  sp : t.fmt.sp = t'.fmt.sp
  nl : nlc t.fmt.nl = nlc t'.fmt.nl
  ignEq : t.fmt.ignored = true → t = t'

theorem All2.length_eq {α β : Type} {R : α → β → Prop} {as : List α} {bs : List β} (h : All2 R as bs) :
    as.length = bs.length := by
  induction h with
  | nil => rfl
  | cons _ _ ih => simp [ih]

theorem LR.refl (t : FTok) : LR t t := ⟨rfl, rfl, rfl, rfl, rfl, fun _ => rfl⟩

/-- related states: `LR` everywhere, equal counters on `W` -/
def RelW (W : Nat → Prop) (ft ft' : FT) : Prop :=
  ft.length = ft'.length ∧
  ∀ j t t', ft[j]? = some t → ft'[j]? = some t' → LR t t' ∧ (W j → t.fmt = t'.fmt)

theorem RelW.mono {W W' : Nat → Prop} {ft ft' : FT} (h : RelW W ft ft') (hw : ∀ j, W' j → W j) : RelW W' ft ft' :=
  ⟨h.1, fun j t t' a b => ⟨(h.2 j t t' a b).1, fun w => (h.2 j t t' a b).2 (hw j w)⟩⟩

theorem RelW.get {W : Nat → Prop} {ft ft' : FT} (h : RelW W ft ft') {j : Nat} {t : FTok} (ht : ft[j]? = some t) :
    ∃ t', ft'[j]? = some t' ∧ LR t t' ∧ (W j → t.fmt = t'.fmt) := by
  have hj : j < ft.length := by
    rcases Nat.lt_or_ge j ft.length with h1 | h1
    · exact h1
    · rw [List.getElem?_eq_none h1] at ht; cases ht
  have hj' : j < ft'.length := h.1 ▸ hj
  refine ⟨ft'[j], List.getElem?_eq_getElem hj', h.2 j t _ ht (List.getElem?_eq_getElem hj')⟩

theorem RelW.get_none {W : Nat → Prop} {ft ft' : FT} (h : RelW W ft ft') {j : Nat} (ht : ft[j]? = none) :
    ft'[j]? = none := by
  rw [List.getElem?_eq_none_iff] at ht ⊢
  rw [← h.1]; exact ht

/-! ### the search reads the view only -/

theorem RelW.sview {W : Nat → Prop} {ft ft' : FT} (h : RelW W ft ft') : ft.map FTok.sview = ft'.map FTok.sview := by
  apply List.ext_getElem?
  intro j
  simp only [List.getElem?_map]
  cases hj : ft[j]? with
  | none => rw [h.get_none hj]
  | some t =>
    obtain ⟨t', ht', lr, _⟩ := h.get hj
    rw [ht']
    simp only [Option.map_some, FTok.sview, lr.kind, lr.content]

theorem searchSolve_congr {W : Nat → Prop} {ft ft' : FT} (h : RelW W ft ft') (st : SearchState) (i : Nat) :
    searchSolve st ft i = searchSolve st ft' i := by
  unfold searchSolve; rw [h.sview]

theorem RelW.map_eq {W : Nat → Prop} {ft ft' : FT} (h : RelW W ft ft') {β : Type} (f : FTok → β)
    (hf : ∀ t t', LR t t' → f t = f t') : ft.map f = ft'.map f := by
  apply List.ext_getElem?
  intro j
  simp only [List.getElem?_map]
  cases hj : ft[j]? with
  | none => rw [h.get_none hj]
  | some t =>
    obtain ⟨t', ht', lr, _⟩ := h.get hj
    rw [ht']
    simp only [Option.map_some, hf t t' lr]

theorem searchInit_congr {W : Nat → Prop} {ft ft' : FT} (h : RelW W ft ft') (cfg : Config) (lines : List Line) :
    searchInit cfg lines ft = searchInit cfg lines ft' := by
  unfold searchInit
  rw [h.map_eq (fun t => t.tok.kind) (fun _ _ lr => lr.kind),
    h.map_eq (fun t => ({ spacesBefore := t.fmt.sp, content := t.tok.content.length } : TokenLength))
      (fun _ _ lr => by rw [lr.sp, lr.content])]

/-! ### applying a solution -/

theorem applyDec_LR {t t' : FTok} (lr : LR t t') (first : Bool) (ind cont : Nat) (d : Dec) :
    LR { t with fmt := applyDec t.fmt first ind cont d } { t' with fmt := applyDec t'.fmt first ind cont d } ∧
    applyDec t.fmt first ind cont d = applyDec t'.fmt first ind cont d := by
  have hn := lr.nl
  have hfmt : applyDec t.fmt first ind cont d = applyDec t'.fmt first ind cont d := by
    cases d with
    | brk c =>
      unfold applyDec
      have e1 : (if first = true then min (max t.fmt.nl 1) 2 else 1) = (if first = true then min (max t'.fmt.nl 1) 2 else 1) := by
        split
        · exact hn
        · rfl
      cases hf : t.fmt; cases hf' : t'.fmt
      have := lr.ign; have := lr.sp
      simp_all
    | cont =>
      unfold applyDec
      cases hf : t.fmt; cases hf' : t'.fmt
      have := lr.ign; have := lr.sp
      simp_all
  refine ⟨⟨lr.kind, lr.content, congrArg FmtData.ignored hfmt, congrArg FmtData.sp hfmt,
    congrArg (fun f => nlc f.nl) hfmt, ?_⟩, hfmt⟩
  · intro hi
    have hi0 : t.fmt.ignored = true := by rw [applyDec_ignored] at hi; exact hi
    have := lr.ignEq hi0
    subst this
    rfl

theorem setFmt_relW {W : Nat → Prop} {ft ft' ft1 : FT} {i : Nat} {first : Bool} {ind cont : Nat} {d : Dec}
    (h : RelW W ft ft') (h1 : setFmt ft i (fun f => applyDec f first ind cont d) = some ft1) :
    ∃ ft1', setFmt ft' i (fun f => applyDec f first ind cont d) = some ft1' ∧ RelW (fun j => W j ∨ j = i) ft1 ft1' := by
  unfold setFmt at h1
  split at h1
  · rename_i t ht
    simp at h1; subst h1
    obtain ⟨t', ht', lr, _⟩ := h.get ht
    refine ⟨_, by unfold setFmt; rw [ht'], ?_⟩
    refine ⟨by simp [h.1], ?_⟩
    intro j u u' hu hu'
    rw [List.getElem?_set] at hu hu'
    by_cases hij : i = j
    · subst hij
      have hl : i < ft.length := by
        rcases Nat.lt_or_ge i ft.length with h1 | h1
        · exact h1
        · rw [List.getElem?_eq_none h1] at ht; cases ht
      have hl' : i < ft'.length := h.1 ▸ hl
      simp [hl] at hu; simp [hl'] at hu'
      subst hu; subst hu'
      obtain ⟨a, b⟩ := applyDec_LR lr first ind cont d
      exact ⟨a, fun _ => b⟩
    · simp [hij] at hu hu'
      obtain ⟨a, b⟩ := h.2 j u u' hu hu'
      refine ⟨a, fun w => ?_⟩
      rcases w with w | w
      · exact b w
      · exact absurd w.symm hij
  · simp at h1

mutual
theorem applySol_relW (lines : List Line) (W : Nat → Prop) (ft ft' ft1 : FT) (s : Sol) (li : Nat)
    (h : RelW W ft ft') (h1 : applySol lines ft s li = some ft1) :
    ∃ ft1', applySol lines ft' s li = some ft1' ∧ RelW (fun j => W j ∨ j ∈ solTokens lines s li) ft1 ft1' := by
  cases s with
  | mk ind cont decs =>
    unfold applySol at h1 ⊢
    unfold solTokens
    split at h1
    · simp at h1
    · rename_i l hl
      simp only [hl]
      exact applyDecs_relW lines ind cont l.tokens 0 W ft ft' ft1 decs h h1

theorem applyDecs_relW (lines : List Line) (ind cont : Nat) (toks : List Nat) (i : Nat) (W : Nat → Prop)
    (ft ft' ft1 : FT) (decs : List (Dec × List (Nat × Sol)))
    (h : RelW W ft ft') (h1 : applyDecs lines ind cont toks i ft decs = some ft1) :
    ∃ ft1', applyDecs lines ind cont toks i ft' decs = some ft1' ∧
      RelW (fun j => W j ∨ j ∈ decsTokens lines toks i decs) ft1 ft1' := by
  cases decs with
  | nil =>
    unfold applyDecs at h1 ⊢
    simp at h1; subst h1
    exact ⟨ft', rfl, h.mono (fun j w => by
      rcases w with w | w
      · exact w
      · unfold decsTokens at w; simp at w)⟩
  | cons dk rest =>
    obtain ⟨d, children⟩ := dk
    unfold applyDecs at h1 ⊢
    unfold decsTokens
    split at h1
    · simp at h1
    · rename_i tok htok
      simp only [htok]
      split at h1
      · simp at h1
      · rename_i fta ha
        obtain ⟨fta', ha', ra⟩ := setFmt_relW h ha
        simp only [ha']
        split at h1
        · simp at h1
        · rename_i ftb hb
          obtain ⟨ftb', hb', rb⟩ := applyChildren_relW lines _ fta fta' ftb children ra hb
          simp only [hb']
          obtain ⟨ftc', hc', rc⟩ := applyDecs_relW lines ind cont toks (i + 1) _ ftb ftb' ft1 rest rb h1
          refine ⟨ftc', hc', rc.mono ?_⟩
          intro j w
          rcases w with w | w
          · exact Or.inl (Or.inl (Or.inl w))
          · simp only [List.mem_append, List.mem_singleton] at w
            rcases w with (w | w) | w
            · exact Or.inl (Or.inl (Or.inr w))
            · exact Or.inl (Or.inr w)
            · exact Or.inr w

theorem applyChildren_relW (lines : List Line) (W : Nat → Prop) (ft ft' ft1 : FT) (ks : List (Nat × Sol))
    (h : RelW W ft ft') (h1 : applyChildren lines ft ks = some ft1) :
    ∃ ft1', applyChildren lines ft' ks = some ft1' ∧ RelW (fun j => W j ∨ j ∈ childrenTokens lines ks) ft1 ft1' := by
  cases ks with
  | nil =>
    unfold applyChildren at h1 ⊢
    simp at h1; subst h1
    exact ⟨ft', rfl, h.mono (fun j w => by
      rcases w with w | w
      · exact w
      · unfold childrenTokens at w; simp at w)⟩
  | cons k rest =>
    obtain ⟨li, s⟩ := k
    unfold applyChildren at h1 ⊢
    unfold childrenTokens
    split at h1
    · simp at h1
    · rename_i fta ha
      obtain ⟨fta', ha', ra⟩ := applySol_relW lines W ft ft' fta s li h ha
      simp only [ha']
      obtain ⟨ftb', hb', rb⟩ := applyChildren_relW lines _ fta fta' ft1 rest ra h1
      refine ⟨ftb', hb', rb.mono ?_⟩
      intro j w
      rcases w with w | w
      · exact Or.inl (Or.inl w)
      · simp only [List.mem_append] at w
        rcases w with w | w
        · exact Or.inl (Or.inr w)
        · exact Or.inr w
end

/-- applying the solutions the search finds for a list of lines: related states get the same solutions, stay
    related, and the tokens of the applied solutions become written -/
theorem applyLinesS_relW (phase : Nat) (lines : List Line) (is : List Nat) (st st1 : SearchState) (W : Nat → Prop)
    (ft ft' ft1 : FT) (acc sols : List (Nat × Nat × Sol))
    (h : RelW W ft ft') (h1 : applyLinesS phase lines is st ft acc = some (ft1, st1, sols)) :
    ∃ ft1' news, applyLinesS phase lines is st ft' acc = some (ft1', st1, sols) ∧ sols = acc ++ news ∧
      (∀ x ∈ news, x.1 = phase) ∧
      RelW (fun j => W j ∨ ∃ x ∈ news, j ∈ solTokens lines x.2.2 x.2.1) ft1 ft1' := by
  induction is generalizing st W ft ft' acc with
  | nil =>
    unfold applyLinesS at h1 ⊢
    simp at h1
    obtain ⟨rfl, rfl, rfl⟩ := h1
    exact ⟨ft', [], rfl, by simp, by simp, h.mono (fun j w => by
      rcases w with w | w
      · exact w
      · simp at w)⟩
  | cons i rest ih =>
    unfold applyLinesS at h1 ⊢
    rw [← searchSolve_congr h]
    split at h1
    · rename_i st' hs
      exact ih st' W ft ft' acc h h1
    · rename_i s st' hs
      split at h1
      · simp at h1
      · rename_i fta ha
        obtain ⟨fta', ha', ra⟩ := applySol_relW lines W ft ft' fta s i h ha
        simp only [ha']
        obtain ⟨ftb', news, hb', hsols, hph, rb⟩ := ih st' _ fta fta' (acc ++ [(phase, i, s)]) ra h1
        refine ⟨ftb', (phase, i, s) :: news, hb', by rw [hsols]; simp, ?_, rb.mono ?_⟩
        · intro x hx
          rcases List.mem_cons.1 hx with rfl | hx
          · rfl
          · exact hph x hx
        · intro j w
          rcases w with w | ⟨x, hx, w⟩
          · exact Or.inl (Or.inl w)
          · rcases List.mem_cons.1 hx with rfl | hx
            · exact Or.inl (Or.inr w)
            · exact Or.inr ⟨x, hx, w⟩

/-! ### once everything is written: the rest of the stage -/

/-- everything written -/
abbrev RelT (ft ft' : FT) : Prop := RelW (fun _ => True) ft ft'

theorem setContent_LR {t t' : FTok} (lr : LR t t') (hf : t.fmt = t'.fmt) (c : Bytes) :
    LR (t.setContent c) (t'.setContent c) ∧ (t.setContent c).fmt = (t'.setContent c).fmt := by
  unfold FTok.setContent
  by_cases hi : t.fmt.ignored = true
  · have := lr.ignEq hi; subst this
    rw [if_pos hi]
    exact ⟨LR.refl _, rfl⟩
  · have hi' : ¬ t'.fmt.ignored = true := by rw [← lr.ign]; exact hi
    rw [if_neg hi, if_neg hi']
    refine ⟨⟨lr.kind, rfl, lr.ign, lr.sp, lr.nl, fun h => absurd h hi⟩, hf⟩

theorem mlsLine_relT (S : Settings) (toks : List Nat) (ft ft' ft1 : FT) (ch : Bool)
    (h : RelT ft ft') (h1 : mlsLine S toks ft = some (ft1, ch)) :
    ∃ ft1', mlsLine S toks ft' = some (ft1', ch) ∧ RelT ft1 ft1' := by
  induction toks generalizing ft ft' ft1 ch with
  | nil =>
    unfold mlsLine at h1 ⊢
    simp at h1; obtain ⟨rfl, rfl⟩ := h1
    exact ⟨ft', rfl, h⟩
  | cons idx rest ih =>
    unfold mlsLine at h1 ⊢
    split at h1
    · simp at h1
    · rename_i t ht
      obtain ⟨t', ht', lr, hf⟩ := h.get ht
      have hf := hf trivial
      simp only [ht']
      simp only at h1
      have hr : (if (!t.fmt.ignored && isMlsKind t.tok.kind) = true then mlsRewrite S t.tok.content t.fmt.ind t.fmt.cont else none) =
          (if (!t'.fmt.ignored && isMlsKind t'.tok.kind) = true then mlsRewrite S t'.tok.content t'.fmt.ind t'.fmt.cont else none) := by
        rw [lr.kind, lr.content, hf]
      rw [← hr]
      have key : ∀ r : Option Bytes, RelT (match r with | some c => ft.set idx (t.setContent c) | none => ft)
          (match r with | some c => ft'.set idx (t'.setContent c) | none => ft') := by
        intro r
        cases r with
        | none => exact h
        | some c =>
          simp only
          refine ⟨by simp [h.1], ?_⟩
          intro j u u' hu hu'
          rw [List.getElem?_set] at hu hu'
          by_cases hij : idx = j
          · subst hij
            have hl : idx < ft.length := by
              rcases Nat.lt_or_ge idx ft.length with h1 | h1
              · exact h1
              · rw [List.getElem?_eq_none h1] at ht; cases ht
            have hl' : idx < ft'.length := h.1 ▸ hl
            simp [hl] at hu; simp [hl'] at hu'
            subst hu; subst hu'
            obtain ⟨a, b⟩ := setContent_LR lr hf c
            exact ⟨a, fun _ => b⟩
          · simp [hij] at hu hu'
            exact h.2 j u u' hu hu'
      split at h1
      · simp at h1
      · rename_i ft2 ch2 h2
        simp at h1
        obtain ⟨rfl, rfl⟩ := h1
        obtain ⟨ft2', h2', r2⟩ := ih _ _ ft2 ch2 (key _) h2
        refine ⟨ft2', ?_, r2⟩
        erw [h2']
        simp

theorem mlsPass1_relT (S : Settings) (lines : List Line) (ls : List (Line × Nat)) (ft ft' ft1 : FT) (acc out : List Nat)
    (h : RelT ft ft') (h1 : mlsPass1 S lines ls ft acc = some (ft1, out)) :
    ∃ ft1', mlsPass1 S lines ls ft' acc = some (ft1', out) ∧ RelT ft1 ft1' := by
  induction ls generalizing ft ft' acc with
  | nil =>
    unfold mlsPass1 at h1 ⊢
    simp at h1; obtain ⟨rfl, rfl⟩ := h1
    exact ⟨ft', rfl, h⟩
  | cons li rest ih =>
    obtain ⟨l, i⟩ := li
    unfold mlsPass1 at h1 ⊢
    split at h1
    · simp at h1
    · rename_i fta changed ha
      obtain ⟨fta', ha', ra⟩ := mlsLine_relT S l.tokens ft ft' fta changed h ha
      simp only [ha']
      split at h1
      · split at h1
        · simp at h1
        · rename_i p hp
          have hc : changed = true := by assumption
          rw [if_pos hc]
          exact ih fta fta' _ ra h1
      · have hc : ¬ changed = true := by assumption
        rw [if_neg hc]
        exact ih fta fta' _ ra h1

theorem mlsPass2_relT (S : Settings) (ls : List Line) (ft ft' ft1 : FT)
    (h : RelT ft ft') (h1 : mlsPass2 S ls ft = some ft1) :
    ∃ ft1', mlsPass2 S ls ft' = some ft1' ∧ RelT ft1 ft1' := by
  induction ls generalizing ft ft' with
  | nil =>
    unfold mlsPass2 at h1 ⊢
    simp at h1; subst h1
    exact ⟨ft', rfl, h⟩
  | cons l rest ih =>
    unfold mlsPass2 at h1 ⊢
    split at h1
    · simp at h1
    · rename_i fta ch ha
      obtain ⟨fta', ha', ra⟩ := mlsLine_relT S l.tokens ft ft' fta ch h ha
      simp only [ha']
      exact ih fta fta' ra h1

theorem zero_relT (ft ft' : FT) (h : RelT ft ft') : RelT (zeroLineStartSpaces ft) (zeroLineStartSpaces ft') := by
  unfold zeroLineStartSpaces
  refine ⟨by simp [h.1], ?_⟩
  intro j u u' hu hu'
  simp only [List.getElem?_map] at hu hu'
  cases hj : ft[j]? with
  | none => rw [hj] at hu; simp at hu
  | some t =>
    obtain ⟨t', ht', lr, hf⟩ := h.get hj
    have hf := hf trivial
    rw [hj] at hu; rw [ht'] at hu'
    simp at hu hu'
    subst hu; subst hu'
    have hn' : t'.fmt.nl = t.fmt.nl := by rw [hf]
    by_cases hn : t.fmt.nl > 0
    · have hn2 : t'.fmt.nl > 0 := by omega
      simp only [hn, hn2, if_true]
      refine ⟨⟨lr.kind, lr.content, lr.ign, rfl, lr.nl, ?_⟩, fun _ => ?_⟩
      · intro hi
        have := lr.ignEq hi; subst this; rfl
      · show ({ t.fmt with sp := 0 } : FmtData) = { t'.fmt with sp := 0 }
        rw [hf]
    · have hn2 : ¬ t'.fmt.nl > 0 := by omega
      simp only [hn, hn2, if_false]
      exact ⟨lr, fun _ => hf⟩

theorem gapOf_rel (S : Settings) (t t' : FTok) (mb : Bool) (lr : LR t t') (hf : t.fmt = t'.fmt) :
    gapOf S t mb = gapOf S t' mb := by
  by_cases hi : t.fmt.ignored = true
  · have := lr.ignEq hi; subst this; rfl
  · have hi' : ¬ t'.fmt.ignored = true := by rw [← lr.ign]; exact hi
    have e1 : t.fmt.ignored = false := by simpa using hi
    have e2 : t'.fmt.ignored = false := by simpa using hi'
    simp [gapOf, e1, e2, lr.kind, hf]

theorem reconGo_relT (S : Settings) (mb : Bool) (ft ft' : FT) (h : RelT ft ft') : reconGo S mb ft = reconGo S mb ft' := by
  induction ft generalizing ft' mb with
  | nil =>
    cases ft' with
    | nil => rfl
    | cons _ _ => have := h.1; simp at this
  | cons t r ih =>
    cases ft' with
    | nil => have := h.1; simp at this
    | cons t' r' =>
      obtain ⟨lr, hf⟩ := h.2 0 t t' rfl rfl
      have hf := hf trivial
      have hr : RelT r r' := ⟨by have := h.1; simpa using this, fun j u u' hu hu' => h.2 (j + 1) u u' (by simpa using hu) (by simpa using hu')⟩
      unfold reconGo
      rw [gapOf_rel S t t' mb lr hf, lr.content, lr.kind, ih _ r' hr]

/-! ### the whole stage -/

theorem wrapStageFull_layout (cfg : Config) (lines : List Line) (W0 : Nat → Bool) (ft ft' ftz : FT)
    (sols : List (Nat × Nat × Sol))
    (h : RelW (fun j => W0 j = true) ft ft')
    (h1 : wrapStageFull cfg lines ft = some (ftz, sols))
    (hall : allWritten lines W0 ft.length sols = true) :
    ∃ ftz', wrapStageFull cfg lines ft' = some (ftz', sols) ∧ RelT ftz ftz' := by
  unfold wrapStageFull at h1 ⊢
  simp only at h1 ⊢
  rw [← searchInit_congr h]
  split at h1
  · simp at h1
  · rename_i fta sta solsa ha
    obtain ⟨fta', news, ha', hsols, hph, ra⟩ := applyLinesS_relW 0 lines _ _ sta _ ft ft' fta [] solsa h ha
    simp only [ha']
    simp only [List.nil_append] at hsols
    subst hsols
    -- the first-phase solutions of the whole stage are exactly `solsa`
    have hfirst : ∀ x ∈ sols, x.1 = 0 → x ∈ solsa := by
      intro x hx h0
      split at h1
      · simp at h1; obtain ⟨_, rfl⟩ := h1; exact hx
      · split at h1
        · simp at h1
        · rename_i ftb toReflow hb
          split at h1
          · simp at h1
          · rename_i ftc stc solsc hc
            split at h1
            · simp at h1
            · simp at h1
              obtain ⟨_, rfl⟩ := h1
              -- solsc = solsa ++ news2 with phase 1
              have := applyLinesS_relW 1 lines _ _ stc _ ftb ftb ftc solsa solsc
                (⟨rfl, fun j t t' a b => by rw [a] at b; cases b; exact ⟨LR.refl _, fun _ => rfl⟩⟩ : RelW (fun _ => True) ftb ftb) hc
              obtain ⟨_, news2, _, hs2, hp2, _⟩ := this
              rw [hs2] at hx
              rcases List.mem_append.1 hx with hx | hx
              · exact hx
              · have := hp2 x hx; omega
    have len1 : fta.length = ft.length := (All2.length_eq (applyLinesS_rel cfg.settings _ _ _ _ _ _ _ _ _ ha)).symm
    have rT : RelT fta fta' := by
      refine ⟨ra.1, fun j t t' a b => ⟨(ra.2 j t t' a b).1, fun _ => (ra.2 j t t' a b).2 ?_⟩⟩
      have hj : j < ft.length := by
        rw [← len1]
        rcases Nat.lt_or_ge j fta.length with h1 | h1
        · exact h1
        · rw [List.getElem?_eq_none h1] at a; cases a
      unfold allWritten at hall
      rw [List.all_eq_true] at hall
      have := hall j (List.mem_range.2 hj)
      simp only [Bool.or_eq_true, List.any_eq_true, Bool.and_eq_true, beq_iff_eq, List.contains_iff_mem] at this
      rcases this with w | ⟨x, hx, h0, hm⟩
      · exact Or.inl w
      · exact Or.inr ⟨x, hfirst x hx h0, hm⟩
    split at h1
    · rename_i hmls
      simp at h1; obtain ⟨rfl, rfl⟩ := h1
      rw [if_pos hmls]
      exact ⟨_, rfl, zero_relT _ _ rT⟩
    · rename_i hmls
      rw [if_neg hmls]
      split at h1
      · simp at h1
      · rename_i ftb toReflow hb
        obtain ⟨ftb', hb', rb⟩ := mlsPass1_relT cfg.settings lines _ fta fta' ftb [] toReflow rT hb
        simp only [hb']
        split at h1
        · simp at h1
        · rename_i ftc stc solsc hc
          obtain ⟨ftc', news2, hc', _, _, rc⟩ := applyLinesS_relW 1 lines _ _ stc _ ftb ftb' ftc solsa solsc rb hc
          simp only [hc']
          split at h1
          · simp at h1
          · rename_i ftd hd
            obtain ⟨ftd', hd', rd⟩ := mlsPass2_relT cfg.settings lines ftc ftc' ftd (rc.mono (fun _ _ => Or.inl trivial)) hd
            simp only [hd']
            simp at h1; obtain ⟨rfl, rfl⟩ := h1
            exact ⟨_, rfl, zero_relT _ _ rd⟩

end Pasfmt
