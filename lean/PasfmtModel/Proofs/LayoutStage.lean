/-
  Layout independence of the wrapper stage with the search inside (`wrapStageFull`), for C06.

  Two token states are `RelW W`-related when they have the same kinds, texts, ignored flags and spaces, the same
  blank-line class of the line-break counter (`nlc`: what `reconstruct_solution` keeps of it at the first token
  of a line), identical ignored tokens, and identical counters at the positions in `W` ("already written").  The
  search reads a token only through its view (type, text; spaces at set-up), so related states get the same
  solutions; applying a solution overwrites the counters of its tokens, so they join `W`.  Once every token is
  written, the rest of the stage and the reconstructor are functions of what the relation keeps.
-/
import PasfmtModel.Model.LayoutCheck
import PasfmtModel.Proofs.WrapStageProps
import PasfmtModel.Proofs.PipelineFullProps

namespace Pasfmt

theorem nlc_idem (n : Nat) : nlc (nlc n) = nlc n := by unfold nlc; omega

/-- equal counters, up to the spaces of a free token -/
structure FmtEq (fr : Prop) (f f' : FmtData) : Prop where
  ign : f.ignored = f'.ignored
  nl : f.nl = f'.nl
  ind : f.ind = f'.ind
  cont : f.cont = f'.cont
  sp : fr ∨ f.sp = f'.sp

/-- same token up to what the layout of the input decides: leading whitespace, indentation counters, and the
    line-break counter within its class -/
structure LR (fr : Prop) (t t' : FTok) : Prop where
  kind : t.tok.kind = t'.tok.kind
  content : t.tok.content = t'.tok.content
  ign : t.fmt.ignored = t'.fmt.ignored
  /-- `fr` ("free"): the token follows a line comment that shares its line with code and can keep its spacing -
      `TokenSpacing` leaves it the input's value, which the wrapper never reads and zeroes in the end -/
  sp : fr ∨ t.fmt.sp = t'.fmt.sp
  nl : nlc t.fmt.nl = nlc t'.fmt.nl
  ignEq : t.fmt.ignored = true → t.tok = t'.tok ∧ FmtEq fr t.fmt t'.fmt

theorem FmtEq.refl (fr : Prop) (f : FmtData) : FmtEq fr f f := ⟨rfl, rfl, rfl, rfl, Or.inr rfl⟩

theorem FmtEq.eq {f f' : FmtData} (h : FmtEq False f f') : f = f' := by
  cases f; cases f'
  obtain ⟨a, b, c, d, e⟩ := h
  rcases e with e | e
  · exact absurd e id
  · simp_all

theorem All2.length_eq {α β : Type} {R : α → β → Prop} {as : List α} {bs : List β} (h : All2 R as bs) :
    as.length = bs.length := by
  induction h with
  | nil => rfl
  | cons _ _ ih => simp [ih]

theorem LR.refl (fr : Prop) (t : FTok) : LR fr t t := ⟨rfl, rfl, rfl, Or.inr rfl, rfl, fun _ => ⟨rfl, FmtEq.refl _ _⟩⟩

/-- related states: `LR` everywhere, equal counters on `W` -/
def RelW (F W : Nat → Prop) (ft ft' : FT) : Prop :=
  ft.length = ft'.length ∧
  ∀ j t t', ft[j]? = some t → ft'[j]? = some t' → LR (F j) t t' ∧ (W j → FmtEq (F j) t.fmt t'.fmt)

theorem RelW.mono {F W W' : Nat → Prop} {ft ft' : FT} (h : RelW F W ft ft') (hw : ∀ j, W' j → W j) : RelW F W' ft ft' :=
  ⟨h.1, fun j t t' a b => ⟨(h.2 j t t' a b).1, fun w => (h.2 j t t' a b).2 (hw j w)⟩⟩

theorem RelW.get {F W : Nat → Prop} {ft ft' : FT} (h : RelW F W ft ft') {j : Nat} {t : FTok} (ht : ft[j]? = some t) :
    ∃ t', ft'[j]? = some t' ∧ LR (F j) t t' ∧ (W j → FmtEq (F j) t.fmt t'.fmt) := by
  have hj : j < ft.length := by
    rcases Nat.lt_or_ge j ft.length with h1 | h1
    · exact h1
    · rw [List.getElem?_eq_none h1] at ht; cases ht
  have hj' : j < ft'.length := h.1 ▸ hj
  refine ⟨ft'[j], List.getElem?_eq_getElem hj', h.2 j t _ ht (List.getElem?_eq_getElem hj')⟩

theorem RelW.get_none {F W : Nat → Prop} {ft ft' : FT} (h : RelW F W ft ft') {j : Nat} (ht : ft[j]? = none) :
    ft'[j]? = none := by
  rw [List.getElem?_eq_none_iff] at ht ⊢
  rw [← h.1]; exact ht

/-! ### the search reads the view only -/

theorem RelW.sview {F W : Nat → Prop} {ft ft' : FT} (h : RelW F W ft ft') : ft.map FTok.sview = ft'.map FTok.sview := by
  apply List.ext_getElem?
  intro j
  simp only [List.getElem?_map]
  cases hj : ft[j]? with
  | none => rw [h.get_none hj]
  | some t =>
    obtain ⟨t', ht', lr, _⟩ := h.get hj
    rw [ht']
    simp only [Option.map_some, FTok.sview, lr.kind, lr.content]

theorem searchSolve_congr {F W : Nat → Prop} {ft ft' : FT} (h : RelW F W ft ft') (st : SearchState) (i : Nat) :
    searchSolve st ft i = searchSolve st ft' i := by
  unfold searchSolve; rw [h.sview]

theorem RelW.map_eq {F W : Nat → Prop} {ft ft' : FT} (h : RelW F W ft ft') {β : Type} (f : FTok → β)
    (hf : ∀ fr t t', LR fr t t' → f t = f t') : ft.map f = ft'.map f := by
  apply List.ext_getElem?
  intro j
  simp only [List.getElem?_map]
  cases hj : ft[j]? with
  | none => rw [h.get_none hj]
  | some t =>
    obtain ⟨t', ht', lr, _⟩ := h.get hj
    rw [ht']
    simp only [Option.map_some, hf _ t t' lr]

/-- `F` marks exactly the positions the masked `token_lengths` do not read -/
def FreeOk (F : Nat → Prop) (ft : FT) : Prop :=
  ∀ j t, ft[j]? = some t → F j →
    j ≥ 1 ∧ (ft[j - 1]?).map (·.tok.kind) = some (.tComment .cInlineLine) ∧ keepsCur t.tok.kind = true

theorem tokenLengthsGo_congr : ∀ (prev : Option Kind) (k : Nat) (F : Nat → Prop) (ft ft' : FT), ft.length = ft'.length →
    (∀ (j : Nat) (t t' : FTok), ft[j]? = some t → ft'[j]? = some t' → LR (F (k + j)) t t') →
    (∀ (t : FTok), ft[0]? = some t → F k → prev = some (.tComment .cInlineLine) ∧ keepsCur t.tok.kind = true) →
    (∀ (j : Nat) (t : FTok), ft[j + 1]? = some t → F (k + j + 1) →
      (ft[j]?).map (·.tok.kind) = some (.tComment .cInlineLine) ∧ keepsCur t.tok.kind = true) →
    tokenLengthsGo prev ft = tokenLengthsGo prev ft'
  | _, _, _, [], [], _, _, _, _ => rfl
  | _, _, _, [], _ :: _, h, _, _, _ => by simp at h
  | _, _, _, _ :: _, [], h, _, _, _ => by simp at h
  | prev, k, F, t :: r, t' :: r', hl, h, h0, hs => by
    have lr := h 0 t t' rfl rfl
    unfold tokenLengthsGo
    rw [← lr.kind, ← lr.content]
    have hsp : (if (prev == some (.tComment .cInlineLine) && keepsCur t.tok.kind) = true then 0 else t.fmt.sp) =
        (if (prev == some (.tComment .cInlineLine) && keepsCur t.tok.kind) = true then 0 else t'.fmt.sp) := by
      rcases lr.sp with hf | he
      · obtain ⟨hp, hk⟩ := h0 t rfl hf
        simp [hp, hk]
      · rw [he]
    simp only [hsp]
    congr 1
    apply tokenLengthsGo_congr (some t.tok.kind) (k + 1) F r r' (by simpa using hl)
    · intro j a b ha hb
      have := h (j + 1) a b (by simpa using ha) (by simpa using hb)
      have e : k + (j + 1) = k + 1 + j := by omega
      rw [e] at this; exact this
    · intro a ha hF
      have := hs 0 a (by simpa using ha) (by simpa using hF)
      simpa using this
    · intro j a ha hF
      have e : k + 1 + j + 1 = k + (j + 1) + 1 := by omega
      have := hs (j + 1) a (by simpa using ha) (by rw [← e]; exact hF)
      simpa using this

theorem searchInit_congr {F W : Nat → Prop} {ft ft' : FT} (h : RelW F W ft ft') (hF : FreeOk F ft) (cfg : Config)
    (lines : List Line) : searchInit cfg lines ft = searchInit cfg lines ft' := by
  unfold searchInit
  rw [h.map_eq (fun t => t.tok.kind) (fun _ _ _ lr => lr.kind),
    tokenLengthsGo_congr none 0 F ft ft' h.1 (fun j t t' a b => by simpa using (h.2 j t t' a b).1)
      (fun t ht hf => by
        have := hF 0 t ht hf
        omega)
      (fun j t ht hf => by
        have := hF (j + 1) t ht (by simpa using hf)
        simpa using this.2)]

/-! ### applying a solution -/

theorem applyDec_LR {fr : Prop} {t t' : FTok} (lr : LR fr t t') (first : Bool) (ind cont : Nat) (d : Dec) :
    LR fr { t with fmt := applyDec t.fmt first ind cont d } { t' with fmt := applyDec t'.fmt first ind cont d } ∧
    FmtEq fr (applyDec t.fmt first ind cont d) (applyDec t'.fmt first ind cont d) := by
  have hn := lr.nl
  have hfmt : FmtEq fr (applyDec t.fmt first ind cont d) (applyDec t'.fmt first ind cont d) := by
    cases d with
    | brk c =>
      unfold applyDec
      refine ⟨lr.ign, ?_, rfl, rfl, lr.sp⟩
      show (if first = true then min (max t.fmt.nl 1) 2 else 1) = (if first = true then min (max t'.fmt.nl 1) 2 else 1)
      split
      · exact hn
      · rfl
    | cont =>
      unfold applyDec
      exact ⟨lr.ign, rfl, rfl, rfl, lr.sp⟩
  refine ⟨⟨lr.kind, lr.content, hfmt.ign, hfmt.sp, congrArg nlc hfmt.nl, ?_⟩, hfmt⟩
  intro hi
  have hi0 : t.fmt.ignored = true := by rw [applyDec_ignored] at hi; exact hi
  exact ⟨(lr.ignEq hi0).1, hfmt⟩

theorem setFmt_relW {F W : Nat → Prop} {ft ft' ft1 : FT} {i : Nat} {first : Bool} {ind cont : Nat} {d : Dec}
    (h : RelW F W ft ft') (h1 : setFmt ft i (fun f => applyDec f first ind cont d) = some ft1) :
    ∃ ft1', setFmt ft' i (fun f => applyDec f first ind cont d) = some ft1' ∧ RelW F (fun j => W j ∨ j = i) ft1 ft1' := by
  unfold setFmt at h1
  split at h1
  · rename_i t ht
    simp at h1; subst h1
    obtain ⟨t', ht', lr, _⟩ := h.get ht
    refine ⟨_, by unfold setFmt; rw [ht'], ?_⟩
    refine ⟨by simp [h.1], ?_⟩
    intro j u u' hu hu'
    rw [List.getElem?_set] at hu hu'
    by_cases hij : i = j
    · subst hij
      have hl : i < ft.length := by
        rcases Nat.lt_or_ge i ft.length with h1 | h1
        · exact h1
        · rw [List.getElem?_eq_none h1] at ht; cases ht
      have hl' : i < ft'.length := h.1 ▸ hl
      simp [hl] at hu; simp [hl'] at hu'
      subst hu; subst hu'
      obtain ⟨a, b⟩ := applyDec_LR lr first ind cont d
      exact ⟨a, fun _ => b⟩
    · simp [hij] at hu hu'
      obtain ⟨a, b⟩ := h.2 j u u' hu hu'
      refine ⟨a, fun w => ?_⟩
      rcases w with w | w
      · exact b w
      · exact absurd w.symm hij
  · simp at h1

mutual
theorem applySol_relW (lines : List Line) (F W : Nat → Prop) (ft ft' ft1 : FT) (s : Sol) (li : Nat)
    (h : RelW F W ft ft') (h1 : applySol lines ft s li = some ft1) :
    ∃ ft1', applySol lines ft' s li = some ft1' ∧ RelW F (fun j => W j ∨ j ∈ solTokens lines s li) ft1 ft1' := by
  cases s with
  | mk ind cont decs =>
    unfold applySol at h1 ⊢
    unfold solTokens
    split at h1
    · simp at h1
    · rename_i l hl
      simp only [hl]
      exact applyDecs_relW lines ind cont l.tokens 0 F W ft ft' ft1 decs h h1

theorem applyDecs_relW (lines : List Line) (ind cont : Nat) (toks : List Nat) (i : Nat) (F W : Nat → Prop)
    (ft ft' ft1 : FT) (decs : List (Dec × List (Nat × Sol)))
    (h : RelW F W ft ft') (h1 : applyDecs lines ind cont toks i ft decs = some ft1) :
    ∃ ft1', applyDecs lines ind cont toks i ft' decs = some ft1' ∧
      RelW F (fun j => W j ∨ j ∈ decsTokens lines toks i decs) ft1 ft1' := by
  cases decs with
  | nil =>
    unfold applyDecs at h1 ⊢
    simp at h1; subst h1
    exact ⟨ft', rfl, h.mono (fun j w => by
      rcases w with w | w
      · exact w
      · unfold decsTokens at w; simp at w)⟩
  | cons dk rest =>
    obtain ⟨d, children⟩ := dk
    unfold applyDecs at h1 ⊢
    unfold decsTokens
    split at h1
    · simp at h1
    · rename_i tok htok
      simp only [htok]
      split at h1
      · simp at h1
      · rename_i fta ha
        obtain ⟨fta', ha', ra⟩ := setFmt_relW h ha
        simp only [ha']
        split at h1
        · simp at h1
        · rename_i ftb hb
          obtain ⟨ftb', hb', rb⟩ := applyChildren_relW lines F _ fta fta' ftb children ra hb
          simp only [hb']
          obtain ⟨ftc', hc', rc⟩ := applyDecs_relW lines ind cont toks (i + 1) F _ ftb ftb' ft1 rest rb h1
          refine ⟨ftc', hc', rc.mono ?_⟩
          intro j w
          rcases w with w | w
          · exact Or.inl (Or.inl (Or.inl w))
          · simp only [List.mem_append, List.mem_singleton] at w
            rcases w with (w | w) | w
            · exact Or.inl (Or.inl (Or.inr w))
            · exact Or.inl (Or.inr w)
            · exact Or.inr w

theorem applyChildren_relW (lines : List Line) (F W : Nat → Prop) (ft ft' ft1 : FT) (ks : List (Nat × Sol))
    (h : RelW F W ft ft') (h1 : applyChildren lines ft ks = some ft1) :
    ∃ ft1', applyChildren lines ft' ks = some ft1' ∧ RelW F (fun j => W j ∨ j ∈ childrenTokens lines ks) ft1 ft1' := by
  cases ks with
  | nil =>
    unfold applyChildren at h1 ⊢
    simp at h1; subst h1
    exact ⟨ft', rfl, h.mono (fun j w => by
      rcases w with w | w
      · exact w
      · unfold childrenTokens at w; simp at w)⟩
  | cons k rest =>
    obtain ⟨li, s⟩ := k
    unfold applyChildren at h1 ⊢
    unfold childrenTokens
    split at h1
    · simp at h1
    · rename_i fta ha
      obtain ⟨fta', ha', ra⟩ := applySol_relW lines F W ft ft' fta s li h ha
      simp only [ha']
      obtain ⟨ftb', hb', rb⟩ := applyChildren_relW lines F _ fta fta' ft1 rest ra h1
      refine ⟨ftb', hb', rb.mono ?_⟩
      intro j w
      rcases w with w | w
      · exact Or.inl (Or.inl w)
      · simp only [List.mem_append] at w
        rcases w with w | w
        · exact Or.inl (Or.inr w)
        · exact Or.inr w
end

/-- applying the solutions the search finds for a list of lines: related states get the same solutions, stay
    related, and the tokens of the applied solutions become written -/
theorem applyLinesS_relW (phase : Nat) (lines : List Line) (is : List Nat) (st st1 : SearchState) (F W : Nat → Prop)
    (ft ft' ft1 : FT) (acc sols : List (Nat × Nat × Sol))
    (h : RelW F W ft ft') (h1 : applyLinesS phase lines is st ft acc = some (ft1, st1, sols)) :
    ∃ ft1' news, applyLinesS phase lines is st ft' acc = some (ft1', st1, sols) ∧ sols = acc ++ news ∧
      (∀ x ∈ news, x.1 = phase) ∧
      RelW F (fun j => W j ∨ ∃ x ∈ news, j ∈ solTokens lines x.2.2 x.2.1) ft1 ft1' := by
  induction is generalizing st W ft ft' acc with
  | nil =>
    unfold applyLinesS at h1 ⊢
    simp at h1
    obtain ⟨rfl, rfl, rfl⟩ := h1
    exact ⟨ft', [], rfl, by simp, by simp, h.mono (fun j w => by
      rcases w with w | w
      · exact w
      · simp at w)⟩
  | cons i rest ih =>
    unfold applyLinesS at h1 ⊢
    rw [← searchSolve_congr h]
    split at h1
    · rename_i st' hs
      exact ih st' W ft ft' acc h h1
    · rename_i s st' hs
      split at h1
      · simp at h1
      · rename_i fta ha
        obtain ⟨fta', ha', ra⟩ := applySol_relW lines F W ft ft' fta s i h ha
        simp only [ha']
        obtain ⟨ftb', news, hb', hsols, hph, rb⟩ := ih st' _ fta fta' (acc ++ [(phase, i, s)]) ra h1
        refine ⟨ftb', (phase, i, s) :: news, hb', by rw [hsols]; simp, ?_, rb.mono ?_⟩
        · intro x hx
          rcases List.mem_cons.1 hx with rfl | hx
          · rfl
          · exact hph x hx
        · intro j w
          rcases w with w | ⟨x, hx, w⟩
          · exact Or.inl (Or.inl w)
          · rcases List.mem_cons.1 hx with rfl | hx
            · exact Or.inl (Or.inr w)
            · exact Or.inr ⟨x, hx, w⟩

/-! ### once everything is written: the rest of the stage -/

/-- everything written -/
abbrev RelT (F : Nat → Prop) (ft ft' : FT) : Prop := RelW F (fun _ => True) ft ft'

theorem setContent_LR {fr : Prop} {t t' : FTok} (lr : LR fr t t') (hf : FmtEq fr t.fmt t'.fmt) (c : Bytes) :
    LR fr (t.setContent c) (t'.setContent c) ∧ FmtEq fr (t.setContent c).fmt (t'.setContent c).fmt := by
  unfold FTok.setContent
  by_cases hi : t.fmt.ignored = true
  · have hi' : t'.fmt.ignored = true := by rw [← lr.ign]; exact hi
    rw [if_pos hi, if_pos hi']
    exact ⟨lr, hf⟩
  · have hi' : ¬ t'.fmt.ignored = true := by rw [← lr.ign]; exact hi
    rw [if_neg hi, if_neg hi']
    refine ⟨⟨lr.kind, rfl, lr.ign, lr.sp, lr.nl, fun h => absurd h hi⟩, hf⟩

theorem mlsLine_relT (S : Settings) (F : Nat → Prop) (toks : List Nat) (ft ft' ft1 : FT) (ch : Bool)
    (h : RelT F ft ft') (h1 : mlsLine S toks ft = some (ft1, ch)) :
    ∃ ft1', mlsLine S toks ft' = some (ft1', ch) ∧ RelT F ft1 ft1' := by
  induction toks generalizing ft ft' ft1 ch with
  | nil =>
    unfold mlsLine at h1 ⊢
    simp at h1; obtain ⟨rfl, rfl⟩ := h1
    exact ⟨ft', rfl, h⟩
  | cons idx rest ih =>
    unfold mlsLine at h1 ⊢
    split at h1
    · simp at h1
    · rename_i t ht
      obtain ⟨t', ht', lr, hf⟩ := h.get ht
      have hf := hf trivial
      simp only [ht']
      simp only at h1
      have hr : (if (!t.fmt.ignored && isMlsKind t.tok.kind) = true then mlsRewrite S t.tok.content t.fmt.ind t.fmt.cont else none) =
          (if (!t'.fmt.ignored && isMlsKind t'.tok.kind) = true then mlsRewrite S t'.tok.content t'.fmt.ind t'.fmt.cont else none) := by
        rw [lr.kind, lr.content, hf.ign, hf.ind, hf.cont]
      rw [← hr]
      have key : ∀ r : Option Bytes, RelT F (match r with | some c => ft.set idx (t.setContent c) | none => ft)
          (match r with | some c => ft'.set idx (t'.setContent c) | none => ft') := by
        intro r
        cases r with
        | none => exact h
        | some c =>
          simp only
          refine ⟨by simp [h.1], ?_⟩
          intro j u u' hu hu'
          rw [List.getElem?_set] at hu hu'
          by_cases hij : idx = j
          · subst hij
            have hl : idx < ft.length := by
              rcases Nat.lt_or_ge idx ft.length with h1 | h1
              · exact h1
              · rw [List.getElem?_eq_none h1] at ht; cases ht
            have hl' : idx < ft'.length := h.1 ▸ hl
            simp [hl] at hu; simp [hl'] at hu'
            subst hu; subst hu'
            obtain ⟨a, b⟩ := setContent_LR lr hf c
            exact ⟨a, fun _ => b⟩
          · simp [hij] at hu hu'
            exact h.2 j u u' hu hu'
      split at h1
      · simp at h1
      · rename_i ft2 ch2 h2
        simp at h1
        obtain ⟨rfl, rfl⟩ := h1
        obtain ⟨ft2', h2', r2⟩ := ih _ _ ft2 ch2 (key _) h2
        refine ⟨ft2', ?_, r2⟩
        erw [h2']
        simp

theorem mlsPass1_relT (S : Settings) (F : Nat → Prop) (lines : List Line) (ls : List (Line × Nat)) (ft ft' ft1 : FT)
    (acc out : List Nat) (h : RelT F ft ft') (h1 : mlsPass1 S lines ls ft acc = some (ft1, out)) :
    ∃ ft1', mlsPass1 S lines ls ft' acc = some (ft1', out) ∧ RelT F ft1 ft1' := by
  induction ls generalizing ft ft' acc with
  | nil =>
    unfold mlsPass1 at h1 ⊢
    simp at h1; obtain ⟨rfl, rfl⟩ := h1
    exact ⟨ft', rfl, h⟩
  | cons li rest ih =>
    obtain ⟨l, i⟩ := li
    unfold mlsPass1 at h1 ⊢
    split at h1
    · simp at h1
    · rename_i fta changed ha
      obtain ⟨fta', ha', ra⟩ := mlsLine_relT S F l.tokens ft ft' fta changed h ha
      simp only [ha']
      split at h1
      · split at h1
        · simp at h1
        · rename_i p hp
          have hc : changed = true := by assumption
          rw [if_pos hc]
          exact ih fta fta' _ ra h1
      · have hc : ¬ changed = true := by assumption
        rw [if_neg hc]
        exact ih fta fta' _ ra h1

theorem mlsPass2_relT (S : Settings) (F : Nat → Prop) (ls : List Line) (ft ft' ft1 : FT)
    (h : RelT F ft ft') (h1 : mlsPass2 S ls ft = some ft1) :
    ∃ ft1', mlsPass2 S ls ft' = some ft1' ∧ RelT F ft1 ft1' := by
  induction ls generalizing ft ft' with
  | nil =>
    unfold mlsPass2 at h1 ⊢
    simp at h1; subst h1
    exact ⟨ft', rfl, h⟩
  | cons l rest ih =>
    unfold mlsPass2 at h1 ⊢
    split at h1
    · simp at h1
    · rename_i fta ch ha
      obtain ⟨fta', ha', ra⟩ := mlsLine_relT S F l.tokens ft ft' fta ch h ha
      simp only [ha']
      exact ih fta fta' ra h1

/-- the removal of the spaces at line starts: a free token that starts a line loses its spaces in both states, so
    when every free token starts a line the two results agree in every counter -/
theorem zero_relT (F : Nat → Prop) (ft ft' : FT) (h : RelT F ft ft')
    (hfree : ∀ j t, ft[j]? = some t → F j → t.fmt.nl > 0) :
    RelT (fun _ => False) (zeroLineStartSpaces ft) (zeroLineStartSpaces ft') := by
  unfold zeroLineStartSpaces
  refine ⟨by simp [h.1], ?_⟩
  intro j u u' hu hu'
  simp only [List.getElem?_map] at hu hu'
  cases hj : ft[j]? with
  | none => rw [hj] at hu; simp at hu
  | some t =>
    obtain ⟨t', ht', lr, hf⟩ := h.get hj
    have hf := hf trivial
    rw [hj] at hu; rw [ht'] at hu'
    simp at hu hu'
    subst hu; subst hu'
    have hn' : t'.fmt.nl = t.fmt.nl := hf.nl.symm
    by_cases hn : t.fmt.nl > 0
    · have hn2 : t'.fmt.nl > 0 := by omega
      simp only [hn, hn2, if_true]
      refine ⟨⟨lr.kind, lr.content, lr.ign, Or.inr rfl, lr.nl, ?_⟩, fun _ => ⟨hf.ign, hf.nl, hf.ind, hf.cont, Or.inr rfl⟩⟩
      intro hi
      exact ⟨(lr.ignEq hi).1, ⟨hf.ign, hf.nl, hf.ind, hf.cont, Or.inr rfl⟩⟩
    · have hn2 : ¬ t'.fmt.nl > 0 := by omega
      simp only [hn, hn2, if_false]
      have hsp : t.fmt.sp = t'.fmt.sp := by
        rcases hf.sp with hfr | he
        · exact absurd (hfree j t hj hfr) hn
        · exact he
      exact ⟨⟨lr.kind, lr.content, lr.ign, Or.inr hsp, lr.nl, fun hi => ⟨(lr.ignEq hi).1, ⟨hf.ign, hf.nl, hf.ind, hf.cont, Or.inr hsp⟩⟩⟩,
        fun _ => ⟨hf.ign, hf.nl, hf.ind, hf.cont, Or.inr hsp⟩⟩

theorem gapOf_rel (S : Settings) (t t' : FTok) (mb : Bool) (lr : LR False t t') (hf : t.fmt = t'.fmt) :
    gapOf S t mb = gapOf S t' mb := by
  by_cases hi : t.fmt.ignored = true
  · have h1 := (lr.ignEq hi).1
    cases t; cases t'
    simp only at h1 hf
    subst h1; subst hf; rfl
  · have hi' : ¬ t'.fmt.ignored = true := by rw [← lr.ign]; exact hi
    have e1 : t.fmt.ignored = false := by simpa using hi
    have e2 : t'.fmt.ignored = false := by simpa using hi'
    simp [gapOf, e2, lr.kind, hf]

theorem reconGo_relT (S : Settings) (mb : Bool) (ft ft' : FT) (h : RelT (fun _ => False) ft ft') :
    reconGo S mb ft = reconGo S mb ft' := by
  induction ft generalizing ft' mb with
  | nil =>
    cases ft' with
    | nil => rfl
    | cons _ _ => have := h.1; simp at this
  | cons t r ih =>
    cases ft' with
    | nil => have := h.1; simp at this
    | cons t' r' =>
      obtain ⟨lr, hf⟩ := h.2 0 t t' rfl rfl
      have hf := (hf trivial).eq
      have hr : RelT (fun _ => False) r r' := ⟨by have := h.1; simpa using this, fun j u u' hu hu' => h.2 (j + 1) u u' (by simpa using hu) (by simpa using hu')⟩
      unfold reconGo
      rw [gapOf_rel S t t' mb lr hf, lr.content, lr.kind, ih _ r' hr]

/-! ### the whole stage -/

theorem wrapStageFull_layout (cfg : Config) (lines : List Line) (F : Nat → Prop) (W0 : Nat → Bool) (ft ft' ftz : FT)
    (sols : List (Nat × Nat × Sol))
    (h : RelW F (fun j => W0 j = true) ft ft') (hF : FreeOk F ft)
    (h1 : wrapStageFull cfg lines ft = some (ftz, sols))
    (hall : allWritten lines W0 ft.length sols = true)
    (hfree : ∀ j t, ftz[j]? = some t → F j → t.fmt.nl > 0) :
    ∃ ftz', wrapStageFull cfg lines ft' = some (ftz', sols) ∧ RelT (fun _ => False) ftz ftz' := by
  -- the removal of spaces keeps the line-break counters, so `hfree` speaks about the state before it too
  have hz : ∀ (x : FT) (j : Nat) (t : FTok), x[j]? = some t →
      ∃ u, (zeroLineStartSpaces x)[j]? = some u ∧ u.fmt.nl = t.fmt.nl := by
    intro x j t hx
    unfold zeroLineStartSpaces
    simp only [List.getElem?_map, hx, Option.map_some]
    refine ⟨_, rfl, ?_⟩
    split <;> rfl
  unfold wrapStageFull at h1 ⊢
  simp only at h1 ⊢
  rw [← searchInit_congr h hF]
  split at h1
  · simp at h1
  · rename_i fta sta solsa ha
    obtain ⟨fta', news, ha', hsols, hph, ra⟩ := applyLinesS_relW 0 lines _ _ sta F _ ft ft' fta [] solsa h ha
    simp only [ha']
    simp only [List.nil_append] at hsols
    subst hsols
    -- the first-phase solutions of the whole stage are exactly `solsa`
    have hfirst : ∀ x ∈ sols, x.1 = 0 → x ∈ solsa := by
      intro x hx h0
      split at h1
      · simp at h1; obtain ⟨_, rfl⟩ := h1; exact hx
      · split at h1
        · simp at h1
        · rename_i ftb toReflow hb
          split at h1
          · simp at h1
          · rename_i ftc stc solsc hc
            split at h1
            · simp at h1
            · simp at h1
              obtain ⟨_, rfl⟩ := h1
              have := applyLinesS_relW 1 lines _ _ stc (fun _ => False) _ ftb ftb ftc solsa solsc
                (⟨rfl, fun j t t' a b => by rw [a] at b; cases b; exact ⟨LR.refl _ _, fun _ => FmtEq.refl _ _⟩⟩ : RelW (fun _ => False) (fun _ => True) ftb ftb) hc
              obtain ⟨_, news2, _, hs2, hp2, _⟩ := this
              rw [hs2] at hx
              rcases List.mem_append.1 hx with hx | hx
              · exact hx
              · have := hp2 x hx; omega
    have len1 : fta.length = ft.length := (All2.length_eq (applyLinesS_rel cfg.settings _ _ _ _ _ _ _ _ _ ha)).symm
    have rT : RelT F fta fta' := by
      refine ⟨ra.1, fun j t t' a b => ⟨(ra.2 j t t' a b).1, fun _ => (ra.2 j t t' a b).2 ?_⟩⟩
      have hj : j < ft.length := by
        rw [← len1]
        rcases Nat.lt_or_ge j fta.length with h1 | h1
        · exact h1
        · rw [List.getElem?_eq_none h1] at a; cases a
      unfold allWritten at hall
      rw [List.all_eq_true] at hall
      have := hall j (List.mem_range.2 hj)
      simp only [Bool.or_eq_true, List.any_eq_true, Bool.and_eq_true, beq_iff_eq, List.contains_iff_mem] at this
      rcases this with w | ⟨x, hx, h0, hm⟩
      · exact Or.inl w
      · exact Or.inr ⟨x, hfirst x hx h0, hm⟩
    split at h1
    · rename_i hmls
      simp at h1; obtain ⟨rfl, rfl⟩ := h1
      rw [if_pos hmls]
      refine ⟨_, rfl, zero_relT F _ _ rT ?_⟩
      intro j t ht hf
      obtain ⟨u, hu, hn⟩ := hz fta j t ht
      rw [← hn]; exact hfree j u hu hf
    · rename_i hmls
      rw [if_neg hmls]
      split at h1
      · simp at h1
      · rename_i ftb toReflow hb
        obtain ⟨ftb', hb', rb⟩ := mlsPass1_relT cfg.settings F lines _ fta fta' ftb [] toReflow rT hb
        simp only [hb']
        split at h1
        · simp at h1
        · rename_i ftc stc solsc hc
          obtain ⟨ftc', news2, hc', _, _, rc⟩ := applyLinesS_relW 1 lines _ _ stc F _ ftb ftb' ftc solsa solsc rb hc
          simp only [hc']
          split at h1
          · simp at h1
          · rename_i ftd hd
            obtain ⟨ftd', hd', rd⟩ := mlsPass2_relT cfg.settings F lines ftc ftc' ftd (rc.mono (fun _ _ => Or.inl trivial)) hd
            simp only [hd']
            simp at h1; obtain ⟨rfl, rfl⟩ := h1
            refine ⟨_, rfl, zero_relT F _ _ rd ?_⟩
            intro j t ht hf
            obtain ⟨u, hu, hn⟩ := hz ftd j t ht
            rw [← hn]; exact hfree j u hu hf

end Pasfmt
