/-
  The first side condition of the crlf/lf theorem (`CrlfFull.crlfStageOk`, conjunct (1): every non-ignored multi-line
  literal of the wrapper stage's input ends in a quote) is a theorem at the state the stage starts from:

  * a token typed `TextLiteral(MultiLine)` there was typed so by the scanner (`ParserLitConv`: parser and consolidators
    make no text literal; the token rules keep every kind);
  * it has its scanned text (`MlsPipe.preWrap_keeps`: no text rule handles text literals);
  * the scanner's multi-line literals end in a quote (`MlsPipe.lex_multi_ends_quote`).

  Result: `crlfOk_of_23` and `formatFull_crlf_config23` (C09 with conjuncts (2) and (3) only).
-/
import PasfmtModel.Proofs.CrlfFull
import PasfmtModel.Proofs.MlsPipeline
import PasfmtModel.Proofs.ParserLiteralsConv

namespace Pasfmt.CrlfFull

open MlsPipe (all2_getElem? all2_length all2_refl PreRel preWrap_keeps ruleKind lowercaseTok_kind_fmt
  commentFormatTok_kind_fmt)

/-- position by position: a retyped token has the scanned text, and the kind the parser answered for it, or (if the
    answer is too short) the scanned kind -/
theorem retype_at (raw : List RawTok) (kinds : List Kind) (j : Nat) (a : Tok) (h : (retype raw kinds)[j]? = some a) :
    ∃ r, raw[j]? = some r ∧ (kinds[j]? = some a.kind ∨ a.kind = r.kind.toTokenType) := by
  induction raw generalizing kinds j with
  | nil => simp [retype] at h
  | cons x rs ih =>
    cases kinds with
    | nil =>
      rw [retype] at h
      cases j with
      | zero =>
        simp only [List.getElem?_cons_zero, Option.some.injEq] at h
        subst h
        exact ⟨x, by simp, Or.inr rfl⟩
      | succ n =>
        simp only [List.getElem?_cons_succ] at h
        obtain ⟨r, hr, hk⟩ := ih [] n h
        refine ⟨r, by simpa using hr, Or.inr ?_⟩
        rcases hk with hk | hk
        · simp at hk
        · exact hk
    | cons k0 ks =>
      rw [retype] at h
      cases j with
      | zero =>
        simp only [List.getElem?_cons_zero, Option.some.injEq] at h
        subst h
        exact ⟨x, by simp, Or.inl (by simp)⟩
      | succ n =>
        simp only [List.getElem?_cons_succ] at h
        obtain ⟨r, hr, hk⟩ := ih ks n h
        exact ⟨r, by simpa using hr, by simpa using hk⟩

/-- the token rules keep every kind: the state the wrapper stage starts from has the kinds of the retyped tokens -/
theorem preWrap_kinds (O : Oracles) (raw : List RawTok) :
    All2 (fun (a : Tok) (t : FTok) => t.tok.kind = a.kind) (retype raw (O.parser raw).kinds) (preWrap O raw).2.2 := by
  unfold preWrap
  simp only
  have h0 : All2 (fun (a : Tok) (t : FTok) => t.tok.kind = a.kind) (retype raw (O.parser raw).kinds)
      (FT.new (retype raw (O.parser raw).kinds)
        (fun i => (ignoredMarks (retype raw (O.parser raw).kinds) (O.parser raw).lines).getD i false)) := by
    unfold FT.new
    exact All2.zipIdx_map_right _ 0 (all2_refl (R := fun (a b : Tok) => b = a) (fun _ => rfl) _)
      (fun a b i h => by simp only; rw [h])
  have h1 : All2 (fun (a : Tok) (t : FTok) => t.tok.kind = a.kind) (retype raw (O.parser raw).kinds)
      (tokenSpacing (FT.new (retype raw (O.parser raw).kinds)
        (fun i => (ignoredMarks (retype raw (O.parser raw).kinds) (O.parser raw).lines).getD i false))) := by
    unfold tokenSpacing
    exact All2.zipIdx_map_right _ 0 h0 (fun r t i h => h)
  have h2 := All2.map_right (S := fun (a : Tok) (t : FTok) => t.tok.kind = a.kind) lowercaseTok h1
    (fun a t h => by rw [(lowercaseTok_kind_fmt t).1]; exact h)
  have h3 := All2.map_right (S := fun (a : Tok) (t : FTok) => t.tok.kind = a.kind) (commentFormatTok O.alnum) h2
    (fun a t h => by rw [(commentFormatTok_kind_fmt O.alnum t).1]; exact h)
  unfold eofNewline
  split
  · refine All2.zipIdx_map_right _ 0 h3 ?_
    intro r t i h
    simp only
    split
    · exact h
    · exact h
  · exact h3

theorem all2_getElem?_right {α β : Type} {R : α → β → Prop} {as : List α} {bs : List β} (h : All2 R as bs) {j : Nat}
    {b : β} (hb : bs[j]? = some b) : ∃ a, as[j]? = some a ∧ R a b := by
  have hlt : j < as.length := by
    rw [all2_length h]
    rcases Nat.lt_or_ge j bs.length with h' | h'
    · exact h'
    · rw [List.getElem?_eq_none h'] at hb; cases hb
  obtain ⟨b', hb', hr⟩ := all2_getElem? h (List.getElem?_eq_getElem hlt)
  rw [hb] at hb'
  cases hb'
  exact ⟨_, List.getElem?_eq_getElem hlt, hr⟩

/-- **every multi-line literal of the state the wrapper stage starts from ends in a quote**: it was scanned as a
    multi-line literal and has its scanned text -/
theorem preWrap_mls_ends_quote (alnum : Bytes → Bool) (s : Bytes) (raw : List RawTok) (po : ParserOut)
    (hraw : lex s = some raw) (hpo : parseAndConsolidate raw = some po) (t : FTok)
    (ht : t ∈ (preWrap { parser := fun _ => po, wrap := fun _ _ ft => ft, alnum := alnum } raw).2.2)
    (hk : t.tok.kind = .tTextLiteral .tMultiLine) : t.tok.content.getLast? = some 0x27 := by
  obtain ⟨j, hj⟩ := List.getElem?_of_mem ht
  -- the retyped token and the scanned token at `j`
  obtain ⟨a, ha, hka⟩ := all2_getElem?_right (preWrap_kinds _ raw) hj
  obtain ⟨r, hr, hkind⟩ := retype_at raw _ j a ha
  -- the scanned kind
  have hrk : r.kind = .rTextLiteral .tMultiLine := by
    rcases hkind with h1 | h1
    · have h1' : po.kinds[j]? = some (.tTextLiteral .tMultiLine) := by
        rw [← hk, hka]; exact h1
      obtain ⟨r', hr', hk'⟩ := ParserLitConv.parseAndConsolidate_literals_scanned raw po hpo j .tMultiLine h1'
      rw [hr] at hr'
      cases hr'
      exact hk'
    · exact ParserLitConv.toTokenType_textLiteral _ _ (by rw [← h1, ← hka, hk])
  -- the scanned text
  obtain ⟨t', ht', hpre⟩ := all2_getElem? (preWrap_keeps _ raw) hr
  rw [hj] at ht'
  cases ht'
  have hc : t.tok.content = r.content := hpre (Or.inl (by rw [hk]; rfl))
  rw [hc]
  exact MlsPipe.lex_multi_ends_quote s raw hraw r (List.mem_of_getElem? hr) hrk

/-- conjunct (1) of `crlfOk` is a theorem: the side conditions of the crlf/lf theorem follow from conjuncts (2) and (3) -/
theorem crlfOk_of_23 (cfg : Config) (alnum : Bytes → Bool) (s : Bytes) (h : crlfOk23 cfg alnum s = true) :
    crlfOk cfg alnum s = true := by
  unfold crlfOk23 at h
  unfold crlfOk
  split
  · rfl
  · rename_i raw hraw
    rw [hraw] at h
    simp only at h ⊢
    split
    · rfl
    · rename_i po hpo
      rw [hpo] at h
      simp only at h ⊢
      unfold crlfStageOk23 at h
      unfold crlfStageOk
      rw [Bool.and_assoc, h, Bool.and_true, List.all_eq_true]
      intro t ht
      cases hl : mlsLive t with
      | false => rfl
      | true =>
        have hk : t.tok.kind = .tTextLiteral .tMultiLine := by
          unfold mlsLive at hl
          simp only [Bool.and_eq_true] at hl
          have h2 := hl.2
          unfold isMlsKind at h2
          split at h2
          · assumption
          · cases h2
        rw [preWrap_mls_ends_quote alnum s raw po hraw hpo t ht hk]
        rfl

/-- **the crlf/lf theorem for the whole formatter with side conditions (2) and (3) only** -/
theorem formatFull_crlf_config23 (cfg : Config) (alnum : Bytes → Bool) (s outL : Bytes)
    (hok : crlfOk23 cfg alnum s = true) (h : formatFull { cfg with crlf := false } alnum s = some outL) :
    formatFull { cfg with crlf := true } alnum s = some (crlfOf outL) :=
  formatFull_crlf_config cfg alnum s outL (crlfOk_of_23 cfg alnum s hok) h

end Pasfmt.CrlfFull
