/-
  C08 at the byte level: the clauses of the property as theorems about the bytes of
  `reconstruct S ft`, for every token list `ft` that satisfies the decidable predicate `CanonState S ft`.

  "The lines of the output" are defined declaratively: `IsLines nl out Ls` says that `out` is
  `L₀ ++ nl ++ L₁ ++ nl ++ … ++ Lₙ` for the non-empty list `Ls = [L₀, …, Lₙ]` of byte strings none of which contains
  the byte LF.  When `nl` is LF or CR LF such a list exists for at most one `Ls` (`isLines_unique`), so the clauses
  stated for "every `Ls` with `IsLines …`" speak about *the* lines of the output.
-/
import PasfmtModel.Proofs.ReconProps
import PasfmtModel.Proofs.CursorProps
import PasfmtModel.Props.C10
import PasfmtModel.Model.BytesCheck

namespace Pasfmt

/-! ### 1. bytes: blanks, first and last byte -/

theorem endsBlank_nil : endsBlank [] = false := rfl

theorem endsBlank_append_of_ne (a b : Bytes) (hb : b ≠ []) : endsBlank (a ++ b) = endsBlank b := by
  unfold endsBlank
  rw [List.getLast?_append]
  cases h : b.getLast? with
  | none => rw [List.getLast?_eq_none_iff] at h; exact absurd h hb
  | some x => rfl

theorem endsBlank_append_nil (a : Bytes) : endsBlank (a ++ []) = endsBlank a := by rw [List.append_nil]

theorem containsByte_nil (x : UInt8) : containsByte x [] = false := rfl

theorem containsByte_cons (x b : UInt8) (r : Bytes) : containsByte x (b :: r) = (b == x || containsByte x r) := by
  unfold containsByte; simp

theorem containsByte_of_allBlank (x : UInt8) (hx : isBlank x = false) (s : Bytes) (h : s.all isBlank = true) :
    containsByte x s = false := by
  induction s with
  | nil => rfl
  | cons b r ih =>
    simp only [List.all_cons, Bool.and_eq_true] at h
    rw [containsByte_cons, ih h.2, Bool.or_false]
    cases hb : (b == x)
    · rfl
    · rw [beq_iff_eq] at hb; subst hb; rw [h.1] at hx; cases hx

/-! ### 2. lines -/

/-- `nl ++ L₁ ++ nl ++ L₂ ++ …` -/
def joinTail (nl : Bytes) (Ls : List Bytes) : Bytes := Ls.flatMap (fun L => nl ++ L)

/-- `L₀ ++ nl ++ L₁ ++ … ++ nl ++ Lₙ` -/
def joinLines (nl : Bytes) : List Bytes → Bytes
  | [] => []
  | L :: Ls => L ++ joinTail nl Ls

/-- `Ls` is the list of lines of `out` for the line terminator `nl`: `out` is the members of `Ls` joined by `nl`,
    and no member contains the byte LF (so every LF of `out` is the end of a terminator) -/
def IsLines (nl out : Bytes) (Ls : List Bytes) : Prop :=
  Ls ≠ [] ∧ out = joinLines nl Ls ∧ ∀ L ∈ Ls, containsByte 0x0A L = false

/-- the terminator is `p ++ [LF]` with `p` free of LF (LF itself, or CR LF) -/
def NlOk (nl : Bytes) : Prop := ∃ p, nl = p ++ [0x0A] ∧ containsByte 0x0A p = false

theorem joinTail_nil (nl : Bytes) : joinTail nl [] = [] := rfl

theorem joinTail_cons (nl L : Bytes) (Ls : List Bytes) : joinTail nl (L :: Ls) = nl ++ L ++ joinTail nl Ls := by
  unfold joinTail; simp

theorem joinTail_append (nl : Bytes) (A B : List Bytes) : joinTail nl (A ++ B) = joinTail nl A ++ joinTail nl B := by
  unfold joinTail; simp

theorem joinTail_replicate_nil (nl : Bytes) (k : Nat) : joinTail nl (List.replicate k []) = replicateBytes k nl := by
  induction k with
  | zero => rfl
  | succ k ih =>
    rw [List.replicate_succ, joinTail_cons, ih]
    unfold replicateBytes
    rw [List.replicate_succ, List.flatten_cons, List.append_nil]

/-- two LF-free prefixes in front of an LF are equal -/
theorem first_lf_unique (a a' b b' : Bytes) (ha : containsByte 0x0A a = false) (ha' : containsByte 0x0A a' = false)
    (h : a ++ 0x0A :: b = a' ++ 0x0A :: b') : a = a' ∧ b = b' := by
  induction a generalizing a' with
  | nil =>
    cases a' with
    | nil => simp at h; exact ⟨rfl, h⟩
    | cons y r' =>
      simp only [List.nil_append, List.cons_append, List.cons.injEq] at h
      rw [containsByte_cons, ← h.1] at ha'; simp at ha'
  | cons x r ih =>
    cases a' with
    | nil =>
      simp only [List.nil_append, List.cons_append, List.cons.injEq] at h
      rw [containsByte_cons, h.1] at ha; simp at ha
    | cons y r' =>
      simp only [List.cons_append, List.cons.injEq] at h
      rw [containsByte_cons, Bool.or_eq_false_iff] at ha ha'
      obtain ⟨h1, h2⟩ := ih r' ha.2 ha'.2 h.2
      exact ⟨by rw [h.1, h1], h2⟩

/-- a string containing LF splits at its first LF -/
theorem split_first_lf (s : Bytes) (h : containsByte 0x0A s = true) :
    ∃ a b, s = a ++ 0x0A :: b ∧ containsByte 0x0A a = false := by
  induction s with
  | nil => cases h
  | cons x r ih =>
    by_cases hx : x = 0x0A
    · exact ⟨[], r, by simp [hx], rfl⟩
    · rw [containsByte_cons] at h
      have hxb : (x == 0x0A) = false := by simpa using hx
      rw [hxb, Bool.false_or] at h
      obtain ⟨a, b, hab, ha⟩ := ih h
      exact ⟨x :: a, b, by rw [hab]; rfl, by rw [containsByte_cons, hxb, ha]; rfl⟩

/-- the first terminator of joined lines: what stands before the first LF is the first line (and the LF-free part
    of the terminator), what follows are the remaining lines -/
theorem joined_first_lf (nl p : Bytes) (hnl : nl = p ++ [0x0A]) (a b L0 : Bytes) (Ls : List Bytes)
    (ha : containsByte 0x0A a = false) (hp : containsByte 0x0A p = false)
    (hL : ∀ L ∈ L0 :: Ls, containsByte 0x0A L = false)
    (h : a ++ 0x0A :: b = L0 ++ joinTail nl Ls) :
    ∃ L1 Ls', Ls = L1 :: Ls' ∧ a = L0 ++ p ∧ b = L1 ++ joinTail nl Ls' := by
  cases Ls with
  | nil =>
    rw [joinTail_nil, List.append_nil] at h
    have := hL L0 (by simp)
    rw [← h, containsByte_append, containsByte_cons] at this
    simp at this
  | cons L1 Ls' =>
    refine ⟨L1, Ls', rfl, ?_⟩
    rw [joinTail_cons, hnl] at h
    have h' : a ++ 0x0A :: b = (L0 ++ p) ++ 0x0A :: (L1 ++ joinTail (p ++ [0x0A]) Ls') := by
      rw [h]; simp [List.append_assoc]
    have hL0p : containsByte 0x0A (L0 ++ p) = false := by
      rw [containsByte_append, hL L0 (by simp), hp]; rfl
    obtain ⟨h1, h2⟩ := first_lf_unique _ _ _ _ ha hL0p h'
    exact ⟨h1, by rw [h2, hnl]⟩

/-- **the lines of a byte string are unique** (terminator LF or CR LF) -/
theorem isLines_unique (nl out : Bytes) (hnl : NlOk nl) (Ls Ls' : List Bytes)
    (h : IsLines nl out Ls) (h' : IsLines nl out Ls') : Ls = Ls' := by
  obtain ⟨p, hp, hpf⟩ := hnl
  obtain ⟨hne, hout, hfree⟩ := h
  obtain ⟨hne', hout', hfree'⟩ := h'
  rw [hout] at hout'
  clear hout
  induction Ls generalizing Ls' with
  | nil => exact absurd rfl hne
  | cons L0 R ih =>
    cases Ls' with
    | nil => exact absurd rfl hne'
    | cons L0' R' =>
      simp only [joinLines] at hout'
      cases R with
      | nil =>
        cases R' with
        | nil => simp [joinTail_nil] at hout'; rw [hout']
        | cons L1' R1' =>
          exfalso
          rw [joinTail_nil, List.append_nil, joinTail_cons, hp] at hout'
          have := hfree L0 (by simp)
          rw [hout'] at this
          simp [containsByte_append, containsByte_cons] at this
      | cons L1 R1 =>
        have hsplit : (L0 ++ p) ++ 0x0A :: (L1 ++ joinTail nl R1) = L0' ++ joinTail nl R' := by
          rw [← hout', joinTail_cons, hp]; simp [List.append_assoc]
        have hL0p : containsByte 0x0A (L0 ++ p) = false := by
          rw [containsByte_append, hfree L0 (by simp), hpf]; rfl
        obtain ⟨L1', R1', hR', h1, h2⟩ := joined_first_lf nl p hp _ _ L0' R' hL0p hpf hfree' hsplit
        subst hR'
        have hL0 : L0 = L0' := List.append_cancel_right h1
        have := ih (L1' :: R1') (by simp) (fun L hL => hfree L (by simp [hL])) (by simp)
          (by simpa [joinLines] using h2) (fun L hL => hfree' L (List.mem_cons_of_mem _ hL))
        rw [hL0, this]

/-! ### 3. the hypotheses: `CanonState` -/

/-- **The hypotheses of the byte-level clauses, one decidable predicate.**  It excludes: token lists with a token
    kept verbatim (`ignored`); non-canonical counters; a line break or a space before the first token; multi-line
    tokens (a text containing LF); a text that starts or ends with a space or a tab (finding F5: a comment ending in
    an exotic blank is not excluded - only 0x20 and 0x09 are blanks here); an empty text anywhere but in the last
    token, or an empty last text with spaces or indentation before it; settings whose terminator is not LF / CR LF
    or whose indentation strings contain anything but spaces and tabs. -/
def CanonState (S : Settings) (ft : FT) : Prop := canonStateB S ft = true

instance (S : Settings) (ft : FT) : Decidable (CanonState S ft) := inferInstanceAs (Decidable (_ = true))

structure TokCanon (t : FTok) : Prop where
  notIgnored : t.fmt.ignored = false
  canon : canonFmtB t.fmt = true
  noLf : containsByte 0x0A t.tok.content = false
  noStartBlank : startsBlank t.tok.content = false
  noEndBlank : endsBlank t.tok.content = false
  emptyBare : t.tok.content = [] → t.fmt.sp = 0 ∧ t.fmt.ind = 0 ∧ t.fmt.cont = 0

theorem tokOk_of_b (t : FTok) (h : tokOkB t = true) : TokCanon t := by
  unfold tokOkB at h
  simp only [Bool.and_eq_true, Bool.not_eq_true', Bool.or_eq_true, beq_iff_eq, List.isEmpty_eq_false_iff] at h
  obtain ⟨⟨⟨⟨⟨h1, h2⟩, h3⟩, h4⟩, h5⟩, h6⟩ := h
  refine ⟨h1, h2, h3, h4, h5, fun he => ?_⟩
  rcases h6 with h6 | h6
  · exact absurd he h6
  · exact ⟨h6.1.1, h6.1.2, h6.2⟩

theorem settingsOk_nl (S : Settings) (h : settingsOkB S = true) : NlOk S.nlStr := by
  unfold settingsOkB at h
  simp only [Bool.and_eq_true, Bool.or_eq_true, beq_iff_eq] at h
  rcases h.1.1 with h1 | h1
  · exact ⟨[], by rw [h1]; rfl, rfl⟩
  · exact ⟨[0x0D], by rw [h1]; rfl, by decide⟩

theorem settingsOk_config (c : Config) : settingsOkB c.settings = true := by
  unfold settingsOkB Config.settings
  cases c.crlf <;> cases c.useTabs <;> simp [isBlank]

structure CanonParts (S : Settings) (ft : FT) : Prop where
  settings : settingsOkB S = true
  toks : ∀ t ∈ ft, TokCanon t
  nonEmpty : nonEmptyButLast ft = true
  first : firstOkB ft = true

theorem canonState_parts (S : Settings) (ft : FT) (h : CanonState S ft) : CanonParts S ft := by
  unfold CanonState canonStateB at h
  simp only [Bool.and_eq_true, List.all_eq_true] at h
  exact ⟨h.1.1.1, fun t ht => tokOk_of_b t (h.1.1.2 t ht), h.1.2, h.2⟩

/-! ### 4. the lines of the reconstruction, computed from the tokens -/

/-- the indentation and spaces emitted in front of a token that is not kept verbatim -/
def blanksOf (S : Settings) (t : FTok) : Bytes :=
  replicateBytes t.fmt.ind S.indStr ++ replicateBytes t.fmt.cont S.contStr ++ List.replicate t.fmt.sp 0x20

/-- the number of line terminators emitted in front of such a token (the safety net after a line comment included) -/
def effNl (mb : Bool) (t : FTok) : Nat :=
  if mb && t.fmt.nl == 0 && !(t.tok.kind == .tEof) then 1 else t.fmt.nl

theorem gapOf_notIgnored (S : Settings) (t : FTok) (mb : Bool) (hi : t.fmt.ignored = false) :
    gapOf S t mb = replicateBytes (effNl mb t) S.nlStr ++ blanksOf S t := by
  unfold gapOf effNl blanksOf
  simp [hi, List.append_assoc]

/-- (what the tokens add to the line that is open when they start, the lines after it) -/
def linesGo (S : Settings) : Bool → FT → Bytes × List Bytes
  | _, [] => ([], [])
  | mb, t :: r =>
    let p := linesGo S (isSingleLineComment t.tok.kind) r
    let cur := blanksOf S t ++ t.tok.content ++ p.1
    match effNl mb t with
    | 0 => (cur, p.2)
    | k + 1 => ([], List.replicate k [] ++ cur :: p.2)

/-- the lines of `reconstruct S ft` when no token is kept verbatim (`reconstruct_lines`) -/
def outLines (S : Settings) (ft : FT) : List Bytes := (linesGo S false ft).1 :: (linesGo S false ft).2

theorem linesGo_zero (S : Settings) (mb : Bool) (t : FTok) (r : FT) (h : effNl mb t = 0) :
    linesGo S mb (t :: r) =
      (blanksOf S t ++ t.tok.content ++ (linesGo S (isSingleLineComment t.tok.kind) r).1,
       (linesGo S (isSingleLineComment t.tok.kind) r).2) := by
  rw [linesGo]; simp only [h]

theorem linesGo_succ (S : Settings) (mb : Bool) (t : FTok) (r : FT) (k : Nat) (h : effNl mb t = k + 1) :
    linesGo S mb (t :: r) =
      ([], List.replicate k [] ++
        (blanksOf S t ++ t.tok.content ++ (linesGo S (isSingleLineComment t.tok.kind) r).1) ::
          (linesGo S (isSingleLineComment t.tok.kind) r).2) := by
  rw [linesGo]; simp only [h]

theorem reconGo_lines (S : Settings) (mb : Bool) (ft : FT) (hi : ∀ t ∈ ft, t.fmt.ignored = false) :
    reconGo S mb ft = (linesGo S mb ft).1 ++ joinTail S.nlStr (linesGo S mb ft).2 := by
  induction ft generalizing mb with
  | nil => rfl
  | cons t r ih =>
    rw [reconGo, gapOf_notIgnored S t mb (hi t (by simp)), ih _ (fun x hx => hi x (by simp [hx]))]
    cases hk : effNl mb t with
    | zero =>
      rw [linesGo_zero S mb t r hk]
      simp [replicateBytes, List.append_assoc]
    | succ k =>
      rw [linesGo_succ S mb t r k hk, joinTail_append, joinTail_replicate_nil, joinTail_cons]
      have : replicateBytes (k + 1) S.nlStr = replicateBytes k S.nlStr ++ S.nlStr := by
        unfold replicateBytes
        rw [List.replicate_succ', List.flatten_append]; simp
      rw [this]
      simp [List.append_assoc]

theorem blanksOf_noLf (S : Settings) (hS : settingsOkB S = true) (t : FTok) :
    containsByte 0x0A (blanksOf S t) = false := by
  unfold settingsOkB at hS
  simp only [Bool.and_eq_true] at hS
  unfold blanksOf
  rw [containsByte_append, containsByte_append,
    replicateBytes_noByte _ _ _ (containsByte_of_allBlank 0x0A (by decide) _ hS.1.2),
    replicateBytes_noByte _ _ _ (containsByte_of_allBlank 0x0A (by decide) _ hS.2),
    replicate_noByte 0x0A _ 0x20 (by decide)]
  rfl

theorem mem_replicate_nil {L : Bytes} {k : Nat} (h : L ∈ List.replicate k ([] : Bytes)) : L = [] :=
  (List.mem_replicate.1 h).2

theorem linesGo_noLf (S : Settings) (hS : settingsOkB S = true) (mb : Bool) (ft : FT)
    (ht : ∀ t ∈ ft, containsByte 0x0A t.tok.content = false) :
    containsByte 0x0A (linesGo S mb ft).1 = false ∧ ∀ L ∈ (linesGo S mb ft).2, containsByte 0x0A L = false := by
  induction ft generalizing mb with
  | nil => exact ⟨rfl, fun L hL => by cases hL⟩
  | cons t r ih =>
    obtain ⟨ih1, ih2⟩ := ih (isSingleLineComment t.tok.kind) (fun x hx => ht x (by simp [hx]))
    have hcur : containsByte 0x0A (blanksOf S t ++ t.tok.content ++ (linesGo S (isSingleLineComment t.tok.kind) r).1)
        = false := by
      rw [containsByte_append, containsByte_append, blanksOf_noLf S hS, ht t (by simp), ih1]; rfl
    cases hk : effNl mb t with
    | zero =>
      rw [linesGo_zero S mb t r hk]
      exact ⟨hcur, ih2⟩
    | succ k =>
      rw [linesGo_succ S mb t r k hk]
      refine ⟨rfl, fun L hL => ?_⟩
      simp only [List.mem_append, List.mem_cons] at hL
      rcases hL with hL | hL | hL
      · rw [mem_replicate_nil hL]; rfl
      · rw [hL]; exact hcur
      · exact ih2 L hL

/-- **the output is made of the lines `outLines S ft`** -/
theorem reconstruct_lines (S : Settings) (ft : FT) (h : CanonState S ft) :
    IsLines S.nlStr (reconstruct S ft) (outLines S ft) := by
  have hp := canonState_parts S ft h
  refine ⟨by simp [outLines], ?_, ?_⟩
  · unfold reconstruct outLines
    rw [reconGo_lines S false ft (fun t ht => (hp.toks t ht).notIgnored)]; rfl
  · have := linesGo_noLf S hp.settings false ft (fun t ht => (hp.toks t ht).noLf)
    intro L hL
    simp only [outLines, List.mem_cons] at hL
    rcases hL with hL | hL
    · rw [hL]; exact this.1
    · exact this.2 L hL

/-- every list of lines of the output is `outLines S ft` -/
theorem lines_eq_outLines (S : Settings) (ft : FT) (h : CanonState S ft) (Ls : List Bytes)
    (hL : IsLines S.nlStr (reconstruct S ft) Ls) : Ls = outLines S ft :=
  isLines_unique _ _ (settingsOk_nl S (canonState_parts S ft h).settings) _ _ hL (reconstruct_lines S ft h)

/-! ### 5. clause 1: no line ends in a blank -/

theorem blanksOf_bare (S : Settings) (t : FTok) (h : t.fmt.sp = 0 ∧ t.fmt.ind = 0 ∧ t.fmt.cont = 0) :
    blanksOf S t = [] := by
  unfold blanksOf; rw [h.1, h.2.1, h.2.2]; rfl

theorem cur_endsBlank (S : Settings) (t : FTok) (ht : TokCanon t) (L : Bytes) (hL : endsBlank L = false) :
    endsBlank (blanksOf S t ++ t.tok.content ++ L) = false := by
  by_cases hL0 : L = []
  · subst hL0
    rw [List.append_nil]
    by_cases hc : t.tok.content = []
    · rw [hc, List.append_nil, blanksOf_bare S t (ht.emptyBare hc)]; rfl
    · rw [endsBlank_append_of_ne _ _ hc]; exact ht.noEndBlank
  · rw [endsBlank_append_of_ne _ _ hL0]; exact hL

theorem linesGo_endsBlank (S : Settings) (mb : Bool) (ft : FT) (ht : ∀ t ∈ ft, TokCanon t) :
    endsBlank (linesGo S mb ft).1 = false ∧ ∀ L ∈ (linesGo S mb ft).2, endsBlank L = false := by
  induction ft generalizing mb with
  | nil => exact ⟨rfl, fun L hL => by cases hL⟩
  | cons t r ih =>
    obtain ⟨ih1, ih2⟩ := ih (isSingleLineComment t.tok.kind) (fun x hx => ht x (by simp [hx]))
    have hcur := cur_endsBlank S t (ht t (by simp)) _ ih1
    cases hk : effNl mb t with
    | zero =>
      rw [linesGo_zero S mb t r hk]
      exact ⟨hcur, ih2⟩
    | succ k =>
      rw [linesGo_succ S mb t r k hk]
      refine ⟨rfl, fun L hL => ?_⟩
      simp only [List.mem_append, List.mem_cons] at hL
      rcases hL with hL | hL | hL
      · rw [mem_replicate_nil hL]; rfl
      · rw [hL]; exact hcur
      · exact ih2 L hL

/-- clause 1 -/
theorem recon_no_trailing_blank (S : Settings) (ft : FT) (h : CanonState S ft) (Ls : List Bytes)
    (hL : IsLines S.nlStr (reconstruct S ft) Ls) : ∀ L ∈ Ls, endsBlank L = false := by
  rw [lines_eq_outLines S ft h Ls hL]
  have := linesGo_endsBlank S false ft (canonState_parts S ft h).toks
  intro L hL
  simp only [outLines, List.mem_cons] at hL
  rcases hL with hL | hL
  · rw [hL]; exact this.1
  · exact this.2 L hL

/-! ### 6. clause 3: no two consecutive blank lines, no blank line at the start -/

/-- among the lines after the first there are two consecutive empty ones that are followed by a further line
    (= three consecutive terminators) -/
def dblBlank : List Bytes → Bool
  | a :: b :: c :: r => (a.isEmpty && b.isEmpty) || dblBlank (b :: c :: r)
  | _ => false

theorem dblBlank_cons_of (a : Bytes) (r : List Bytes) (h : dblBlank r = true) : dblBlank (a :: r) = true := by
  match r, h with
  | b :: c :: r', h => rw [dblBlank, h, Bool.or_true]

theorem dblBlank_cons_ne (a : Bytes) (r : List Bytes) (ha : a ≠ []) (h : dblBlank r = false) :
    dblBlank (a :: r) = false := by
  match r, h with
  | [], _ => rfl
  | [_], _ => rfl
  | b :: c :: r', h =>
    rw [dblBlank, h, Bool.or_false]
    have : a.isEmpty = false := by simpa using ha
    rw [this]; rfl

theorem dblBlank_nil_cons_ne (a : Bytes) (r : List Bytes) (ha : a ≠ []) (h : dblBlank r = false) :
    dblBlank ([] :: a :: r) = false := by
  match r, h with
  | [], _ => rfl
  | c :: r', h =>
    have h2 := dblBlank_cons_ne a (c :: r') ha h
    rw [dblBlank, h2, Bool.or_false]
    have : a.isEmpty = false := by simpa using ha
    rw [this]; rfl

theorem effNl_le_two (mb : Bool) (t : FTok) (hc : canonFmtB t.fmt = true) : effNl mb t ≤ 2 := by
  unfold canonFmtB at hc
  simp only [Bool.and_eq_true, decide_eq_true_eq] at hc
  unfold effNl
  split <;> omega

theorem linesGo_nil (S : Settings) (mb : Bool) : linesGo S mb [] = ([], []) := by rw [linesGo]

theorem linesGo_dblBlank (S : Settings) (mb : Bool) (ft : FT) (ht : ∀ t ∈ ft, TokCanon t)
    (hne : nonEmptyButLast ft = true) : dblBlank (linesGo S mb ft).2 = false := by
  induction ft generalizing mb with
  | nil => rfl
  | cons t r ih =>
    rw [nonEmptyButLast, Bool.and_eq_true] at hne
    have ihr := ih (isSingleLineComment t.tok.kind) (fun x hx => ht x (by simp [hx])) hne.2
    have h2 := effNl_le_two mb t (ht t (by simp)).canon
    cases hk : effNl mb t with
    | zero => rw [linesGo_zero S mb t r hk]; exact ihr
    | succ k =>
      rw [linesGo_succ S mb t r k hk]
      by_cases hc : t.tok.content = []
      · -- the last token
        have hr : r = [] := by
          have := hne.1
          simp only [Bool.or_eq_true, List.isEmpty_iff, Bool.not_eq_true', List.isEmpty_eq_false_iff] at this
          rcases this with h | h
          · exact h
          · exact absurd hc h
        subst hr
        rw [linesGo_nil]
        have : k = 0 ∨ k = 1 := by omega
        rcases this with rfl | rfl <;> rfl
      · have hcur : blanksOf S t ++ t.tok.content ++ (linesGo S (isSingleLineComment t.tok.kind) r).1 ≠ [] := by
          simp [hc]
        have : k = 0 ∨ k = 1 := by omega
        rcases this with rfl | rfl
        · exact dblBlank_cons_ne _ _ hcur ihr
        · exact dblBlank_nil_cons_ne _ _ hcur ihr

/-- the first line is not empty unless it is the only one -/
theorem linesGo_first (S : Settings) (ft : FT) (ht : ∀ t ∈ ft, TokCanon t)
    (hne : nonEmptyButLast ft = true) (hf : firstOkB ft = true) :
    (linesGo S false ft).1 ≠ [] ∨ (linesGo S false ft).2 = [] := by
  cases ft with
  | nil => right; rfl
  | cons t r =>
    rw [firstOkB, Bool.and_eq_true, beq_iff_eq, beq_iff_eq] at hf
    have hk : effNl false t = 0 := by unfold effNl; simp [hf.1]
    rw [linesGo_zero S false t r hk]
    by_cases hc : t.tok.content = []
    · right
      rw [nonEmptyButLast, Bool.and_eq_true] at hne
      have := hne.1
      simp only [Bool.or_eq_true, List.isEmpty_iff, Bool.not_eq_true', List.isEmpty_eq_false_iff] at this
      rcases this with h | h
      · subst h; rfl
      · exact absurd hc h
    · left; simp [hc]

/-- three consecutive terminators in joined lines mean two consecutive empty lines -/
theorem triple_infix_dblBlank (nl p : Bytes) (hnl : nl = p ++ [0x0A]) (hp : containsByte 0x0A p = false)
    (L0 : Bytes) (Ls : List Bytes) (hL : ∀ L ∈ L0 :: Ls, containsByte 0x0A L = false)
    (h : (nl ++ nl ++ nl) <:+: (L0 ++ joinTail nl Ls)) : dblBlank Ls = true := by
  induction Ls generalizing L0 with
  | nil =>
    exfalso
    obtain ⟨X, Y, hXY⟩ := h
    have := hL L0 (by simp)
    rw [joinTail_nil, List.append_nil] at hXY
    rw [← hXY, hnl] at this
    simp [containsByte_append, containsByte_cons] at this
  | cons L1 Ls' ih =>
    obtain ⟨X, Y, hXY⟩ := h
    have hLtail : ∀ L ∈ L1 :: Ls', containsByte 0x0A L = false := fun L hm => hL L (List.mem_cons_of_mem _ hm)
    cases hX : containsByte 0x0A X with
    | false =>
      have hXp : containsByte 0x0A (X ++ p) = false := by rw [containsByte_append, hX, hp]; rfl
      have e1 : (X ++ p) ++ 0x0A :: (nl ++ nl ++ Y) = L0 ++ joinTail nl (L1 :: Ls') := by
        rw [← hXY]; conv => rhs; rw [hnl]
        simp [List.append_assoc, hnl]
      obtain ⟨L1', Ls1, hLs, _, hb⟩ := joined_first_lf nl p hnl _ _ L0 _ hXp hp hL e1
      rw [List.cons.injEq] at hLs
      obtain ⟨rfl, rfl⟩ := hLs
      -- second terminator
      have e2 : p ++ 0x0A :: (nl ++ Y) = L1 ++ joinTail nl Ls' := by
        rw [← hb]; conv => lhs; rw [← List.singleton_append]
        simp [List.append_assoc, hnl]
      obtain ⟨L2, Ls2, hLs2, hp2, hb2⟩ := joined_first_lf nl p hnl _ _ L1 _ hp hp hLtail e2
      subst hLs2
      have hL1 : L1 = [] := by
        have := congrArg List.length hp2
        simp only [List.length_append] at this
        exact List.eq_nil_of_length_eq_zero (by omega)
      -- third terminator
      have hLtail2 : ∀ L ∈ L2 :: Ls2, containsByte 0x0A L = false :=
        fun L hm => hLtail L (List.mem_cons_of_mem _ hm)
      have e3 : p ++ 0x0A :: Y = L2 ++ joinTail nl Ls2 := by
        rw [← hb2]; simp [List.append_assoc, hnl]
      obtain ⟨L3, Ls3, hLs3, hp3, _⟩ := joined_first_lf nl p hnl _ _ L2 _ hp hp hLtail2 e3
      subst hLs3
      have hL2 : L2 = [] := by
        have := congrArg List.length hp3
        simp only [List.length_append] at this
        exact List.eq_nil_of_length_eq_zero (by omega)
      rw [hL1, hL2]; simp [dblBlank]
    | true =>
      obtain ⟨X1, X2, hXs, hX1⟩ := split_first_lf X hX
      have e1 : X1 ++ 0x0A :: (X2 ++ (nl ++ nl ++ nl) ++ Y) = L0 ++ joinTail nl (L1 :: Ls') := by
        rw [← hXY, hXs]; simp [List.append_assoc]
      obtain ⟨L1', Ls1, hLs, _, hb⟩ := joined_first_lf nl p hnl _ _ L0 _ hX1 hp hL e1
      rw [List.cons.injEq] at hLs
      obtain ⟨rfl, rfl⟩ := hLs
      exact dblBlank_cons_of _ _ (ih L1 hLtail ⟨X2, Y, hb⟩)

/-- a non-empty first line (or a single line) does not start with a terminator -/
theorem not_prefix_nl (nl p : Bytes) (hnl : nl = p ++ [0x0A]) (hp : containsByte 0x0A p = false)
    (L0 : Bytes) (Ls : List Bytes) (hL : ∀ L ∈ L0 :: Ls, containsByte 0x0A L = false)
    (h0 : L0 ≠ [] ∨ Ls = []) : ¬ nl <+: (L0 ++ joinTail nl Ls) := by
  intro ⟨Y, hY⟩
  have e : p ++ 0x0A :: Y = L0 ++ joinTail nl Ls := by rw [← hY, hnl]; simp
  obtain ⟨L1, Ls1, hLs, hp1, _⟩ := joined_first_lf nl p hnl _ _ L0 _ hp hp hL e
  rcases h0 with h0 | h0
  · apply h0
    have := congrArg List.length hp1
    simp only [List.length_append] at this
    exact List.eq_nil_of_length_eq_zero (by omega)
  · rw [h0] at hLs; cases hLs

/-- clause 3, on the lines -/
theorem recon_no_double_blank_lines (S : Settings) (ft : FT) (h : CanonState S ft) :
    dblBlank (outLines S ft).tail = false ∧ ((outLines S ft).head? ≠ some [] ∨ (outLines S ft).tail = []) := by
  have hp := canonState_parts S ft h
  refine ⟨linesGo_dblBlank S false ft hp.toks hp.nonEmpty, ?_⟩
  rcases linesGo_first S ft hp.toks hp.nonEmpty hp.first with h1 | h1
  · left; simpa [outLines] using h1
  · right; exact h1

/-- clause 3, on the bytes -/
theorem recon_no_double_blank_line (S : Settings) (ft : FT) (h : CanonState S ft) :
    ¬ (S.nlStr ++ S.nlStr ++ S.nlStr) <:+: reconstruct S ft ∧ ¬ S.nlStr <+: reconstruct S ft := by
  have hp := canonState_parts S ft h
  obtain ⟨p, hnl, hpf⟩ := settingsOk_nl S hp.settings
  obtain ⟨_, hout, hfree⟩ := reconstruct_lines S ft h
  rw [hout]
  constructor
  · intro hin
    have := triple_infix_dblBlank S.nlStr p hnl hpf _ _ hfree hin
    rw [linesGo_dblBlank S false ft hp.toks hp.nonEmpty] at this
    cases this
  · exact not_prefix_nl S.nlStr p hnl hpf _ _ hfree (linesGo_first S ft hp.toks hp.nonEmpty hp.first)

/-! ### 7. clause 4: the indentation of every line is a whole number of units -/

/-- `k` indentation units: `k` tabs under `use_tabs`, otherwise `k * tab_width` spaces -/
def indentUnits (c : Config) (k : Nat) : Bytes :=
  if c.useTabs then List.replicate k 0x09 else List.replicate (k * c.tabWidth) 0x20

/-- the line is empty, or it is `k` indentation units followed by a byte that is neither a space nor a tab -/
def LineIndentOk (c : Config) (L : Bytes) : Prop :=
  L = [] ∨ ∃ k b rest, L = indentUnits c k ++ b :: rest ∧ isBlank b = false

theorem indentUnits_zero (c : Config) : indentUnits c 0 = [] := by
  unfold indentUnits; split <;> simp

theorem canon_nl_zero (f : FmtData) (h : canonFmtB f = true) (h0 : f.nl = 0) : f.ind = 0 ∧ f.cont = 0 ∧ f.sp ≤ 1 := by
  unfold canonFmtB at h
  simp only [Bool.and_eq_true, Bool.or_eq_true, decide_eq_true_eq, beq_iff_eq, bne_iff_ne, ne_eq] at h
  rcases h.2 with h1 | h1
  · exact absurd h0 h1
  · exact ⟨h1.1.1, h1.1.2, h1.2⟩

theorem canon_nl_pos (f : FmtData) (h : canonFmtB f = true) (h0 : f.nl ≠ 0) : f.sp = 0 := by
  unfold canonFmtB at h
  simp only [Bool.and_eq_true, Bool.or_eq_true, decide_eq_true_eq, beq_iff_eq, bne_iff_ne, ne_eq] at h
  rcases h.1.2 with h1 | h1
  · exact absurd h1 h0
  · exact h1

theorem content_head_nonblank (t : FTok) (ht : TokCanon t) (b : UInt8) (c : Bytes) (h : t.tok.content = b :: c) :
    isBlank b = false := by
  have := ht.noStartBlank
  rw [h] at this
  simpa [startsBlank] using this

theorem last_of_empty (t : FTok) (r : FT) (hne : nonEmptyButLast (t :: r) = true) (hc : t.tok.content = []) :
    r = [] := by
  rw [nonEmptyButLast, Bool.and_eq_true] at hne
  have := hne.1
  simp only [Bool.or_eq_true, List.isEmpty_iff, Bool.not_eq_true', List.isEmpty_eq_false_iff] at this
  rcases this with h | h
  · exact h
  · exact absurd hc h

theorem effNl_noNet (mb : Bool) (t : FTok) (hi : t.fmt.ignored = false) (h : noNetHere mb t = true) :
    effNl mb t = t.fmt.nl := by
  unfold noNetHere at h
  unfold effNl
  rw [hi] at h
  cases mb <;> cases h1 : (t.fmt.nl == 0) <;> cases h2 : (t.tok.kind == TokenType.tEof) <;> simp_all

theorem linesGo_indent (c : Config) (hsat : c.contIndents * c.tabWidth ≤ 255) (mb : Bool) (ft : FT)
    (ht : ∀ t ∈ ft, TokCanon t) (hne : nonEmptyButLast ft = true) (hsn : noSafetyNetGo mb ft = true) :
    ∀ L ∈ (linesGo c.settings mb ft).2, LineIndentOk c L := by
  induction ft generalizing mb with
  | nil => intro L hL; cases hL
  | cons t r ih =>
    rw [noSafetyNetGo_cons, Bool.and_eq_true] at hsn
    have htt := ht t (by simp)
    have hne' : nonEmptyButLast r = true := by rw [nonEmptyButLast, Bool.and_eq_true] at hne; exact hne.2
    have ihr := ih (isSingleLineComment t.tok.kind) (fun x hx => ht x (by simp [hx])) hne' hsn.2
    have hnl := effNl_noNet mb t htt.notIgnored hsn.1
    cases hk : effNl mb t with
    | zero => rw [linesGo_zero _ mb t r hk]; exact ihr
    | succ k =>
      rw [linesGo_succ _ mb t r k hk]
      intro L hL
      simp only [List.mem_append, List.mem_cons] at hL
      rcases hL with hL | hL | hL
      · left; exact mem_replicate_nil hL
      · rw [hL]
        cases hc : t.tok.content with
        | nil =>
          left
          have hr := last_of_empty t r hne hc
          subst hr
          rw [linesGo_nil, blanksOf_bare _ t (htt.emptyBare hc)]; rfl
        | cons b cs =>
          right
          have hsp : t.fmt.sp = 0 := canon_nl_pos t.fmt htt.canon (by omega)
          refine ⟨t.fmt.ind + c.contIndents * t.fmt.cont, b, cs ++ (linesGo c.settings (isSingleLineComment t.tok.kind) r).1,
            ?_, content_head_nonblank t htt b cs hc⟩
          unfold blanksOf indentUnits
          rw [hsp, C10.indent_units c hsat]
          simp [List.append_assoc]
      · exact ihr L hL

theorem linesGo_first_indent (c : Config) (ft : FT)
    (ht : ∀ t ∈ ft, TokCanon t) (hne : nonEmptyButLast ft = true) (hf : firstOkB ft = true) :
    LineIndentOk c (linesGo c.settings false ft).1 := by
  cases ft with
  | nil => left; rfl
  | cons t r =>
    rw [firstOkB, Bool.and_eq_true, beq_iff_eq, beq_iff_eq] at hf
    have htt := ht t (by simp)
    have hk : effNl false t = 0 := by unfold effNl; simp [hf.1]
    rw [linesGo_zero _ false t r hk]
    obtain ⟨hind, hcont, _⟩ := canon_nl_zero t.fmt htt.canon hf.1
    rw [blanksOf_bare _ t ⟨hf.2, hind, hcont⟩]
    cases hc : t.tok.content with
    | nil =>
      left
      have hr := last_of_empty t r hne hc
      subst hr
      rw [linesGo_nil]; rfl
    | cons b cs =>
      right
      exact ⟨0, b, cs ++ (linesGo c.settings (isSingleLineComment t.tok.kind) r).1, by rw [indentUnits_zero]; rfl,
        content_head_nonblank t htt b cs hc⟩

/-- clause 4 -/
theorem recon_line_indentation (c : Config) (hsat : c.contIndents * c.tabWidth ≤ 255) (ft : FT)
    (h : CanonState c.settings ft) (hsn : noSafetyNetGo false ft = true) (Ls : List Bytes)
    (hL : IsLines c.settings.nlStr (reconstruct c.settings ft) Ls) : ∀ L ∈ Ls, LineIndentOk c L := by
  rw [lines_eq_outLines _ ft h Ls hL]
  have hp := canonState_parts _ ft h
  intro L hL
  simp only [outLines, List.mem_cons] at hL
  rcases hL with hL | hL
  · rw [hL]; exact linesGo_first_indent c ft hp.toks hp.nonEmpty hp.first
  · exact linesGo_indent c hsat false ft hp.toks hp.nonEmpty hsn L hL

/-! ### 8. clause 2: at most one space between two tokens of a line -/

theorem mbAfter_append_singleton (mb : Bool) (pre : FT) (t : FTok) :
    mbAfter mb (pre ++ [t]) = isSingleLineComment t.tok.kind := by
  induction pre generalizing mb with
  | nil => rfl
  | cons x r ih => rw [List.cons_append, mbAfter]; exact ih _

theorem reconGo_snoc (S : Settings) (mb : Bool) (pre : FT) (t : FTok) :
    reconGo S mb (pre ++ [t]) = (reconGo S mb pre ++ gapOf S t (mbAfter mb pre)) ++ t.tok.content := by
  rw [reconGo_append, reconGo, reconGo]; simp [List.append_assoc]

/-- the gap in front of a token with canonical counters: nothing, one space, or it starts with a terminator -/
theorem gap_trichotomy (S : Settings) (u : FTok) (mb : Bool) (hi : u.fmt.ignored = false)
    (hc : canonFmtB u.fmt = true) :
    gapOf S u mb = [] ∨ gapOf S u mb = [0x20] ∨ ∃ W, gapOf S u mb = S.nlStr ++ W := by
  rw [gapOf_notIgnored S u mb hi]
  cases hk : effNl mb u with
  | zero =>
    have hnl : u.fmt.nl = 0 := by
      unfold effNl at hk
      split at hk
      · cases hk
      · exact hk
    obtain ⟨hind, hcont, hsp⟩ := canon_nl_zero u.fmt hc hnl
    have : u.fmt.sp = 0 ∨ u.fmt.sp = 1 := by omega
    rcases this with h | h
    · left; rw [blanksOf_bare S u ⟨h, hind, hcont⟩]; rfl
    · right; left
      unfold blanksOf; rw [hind, hcont, h]; rfl
  | succ k =>
    right; right
    refine ⟨replicateBytes k S.nlStr ++ blanksOf S u, ?_⟩
    unfold replicateBytes
    rw [List.replicate_succ, List.flatten_cons, List.append_assoc]

/-- clause 2 -/
theorem recon_at_most_one_space (S : Settings) (ft : FT) (h : CanonState S ft) (pre post : FT) (t u : FTok)
    (hft : ft = pre ++ t :: u :: post) :
    ∃ A G, reconstruct S (pre ++ [t]) = A ++ t.tok.content ∧
      reconstruct S ft =
        A ++ t.tok.content ++ G ++ u.tok.content ++ reconGo S (isSingleLineComment u.tok.kind) post ∧
      (G = [] ∨ G = [0x20] ∨ ∃ W, G = S.nlStr ++ W) := by
  have hp := canonState_parts S ft h
  have hu : TokCanon u := hp.toks u (by rw [hft]; simp)
  refine ⟨reconGo S false pre ++ gapOf S t (mbAfter false pre), gapOf S u (isSingleLineComment t.tok.kind),
    ?_, ?_, gap_trichotomy S u _ hu.notIgnored hu.canon⟩
  · unfold reconstruct; exact reconGo_snoc S false pre t
  · unfold reconstruct
    have : pre ++ t :: u :: post = (pre ++ [t]) ++ u :: post := by simp
    rw [hft, this, reconGo_append, reconGo_snoc, mbAfter_append_singleton, reconGo]
    simp [List.append_assoc]

/-! ### 9. clause 5: the output ends with exactly one terminator -/

theorem nonEmptyButLast_append (a b : FT) (hb : b ≠ []) (h : nonEmptyButLast (a ++ b) = true) :
    ∀ t ∈ a, t.tok.content ≠ [] := by
  induction a with
  | nil => intro t ht; cases ht
  | cons x r ih =>
    rw [List.cons_append, nonEmptyButLast, Bool.and_eq_true] at h
    intro t ht
    rcases List.mem_cons.1 ht with rfl | ht
    · have := h.1
      simp only [Bool.or_eq_true, List.isEmpty_iff, Bool.not_eq_true', List.isEmpty_eq_false_iff] at this
      rcases this with h1 | h1
      · simp [hb] at h1
      · exact h1
    · exact ih h.2 t ht

/-- clause 5 -/
theorem recon_ends_with_one_terminator (S : Settings) (ft : FT) (h : CanonState S ft) (pre : FT) (e : FTok)
    (hft : ft = pre ++ [e]) (hc : e.tok.content = []) (hnl : e.fmt.nl = 1) :
    ∃ X, reconstruct S ft = X ++ S.nlStr ∧ ¬ S.nlStr <:+ X := by
  have hp := canonState_parts S ft h
  obtain ⟨p, hnlS, _⟩ := settingsOk_nl S hp.settings
  have he : TokCanon e := hp.toks e (by rw [hft]; simp)
  refine ⟨reconGo S false pre, ?_, ?_⟩
  · unfold reconstruct
    rw [hft, reconGo_snoc, hc, List.append_nil, gapOf_notIgnored S e _ he.notIgnored,
      blanksOf_bare S e (he.emptyBare hc), List.append_nil]
    have : effNl (mbAfter false pre) e = 1 := by unfold effNl; rw [hnl]; split <;> rfl
    rw [this]; simp [replicateBytes]
  · -- the token before the last one has a non-empty text without LF
    rcases List.eq_nil_or_concat pre with hpre | ⟨pre', q, hpre⟩
    · exfalso
      have hf := hp.first
      rw [hft, hpre] at hf
      simp only [List.nil_append, firstOkB, Bool.and_eq_true, beq_iff_eq] at hf
      omega
    · rw [List.concat_eq_append] at hpre
      have hq : TokCanon q := hp.toks q (by rw [hft, hpre]; simp)
      have hqne : q.tok.content ≠ [] :=
        nonEmptyButLast_append pre [e] (by simp) (by rw [← hft]; exact hp.nonEmpty) q (by rw [hpre]; simp)
      rw [hpre, reconGo_snoc]
      intro ⟨Y, hY⟩
      have hlast := congrArg List.getLast? hY
      cases hg : q.tok.content.getLast? with
      | none => rw [List.getLast?_eq_none_iff] at hg; exact hqne hg
      | some b =>
        have hR : (reconGo S false pre' ++ gapOf S q (mbAfter false pre') ++ q.tok.content).getLast? = some b := by
          rw [List.getLast?_append, hg]; rfl
        have hLft : (Y ++ S.nlStr).getLast? = some 0x0A := by rw [hnlS]; simp
        rw [hR, hLft] at hlast
        have hb : b = 0x0A := (Option.some.inj hlast).symm
        have hmem : b ∈ q.tok.content := List.mem_of_getLast? hg
        have := hq.noLf
        unfold containsByte at this
        rw [List.any_eq_false] at this
        exact this b hmem (by rw [hb]; rfl)

/-! ### 10. the same for a run of tokens inside a larger token list (the output outside verbatim regions) -/

def segStateB (S : Settings) (seg : FT) : Bool :=
  settingsOkB S && seg.all tokOkB && nonEmptyButLast seg

/-- `CanonState` without the condition on the first token: the hypotheses for a run of tokens that stands anywhere
    in a token list (for instance between two regions kept verbatim) -/
def SegState (S : Settings) (seg : FT) : Prop := segStateB S seg = true

instance (S : Settings) (seg : FT) : Decidable (SegState S seg) := inferInstanceAs (Decidable (_ = true))

structure SegParts (S : Settings) (seg : FT) : Prop where
  settings : settingsOkB S = true
  toks : ∀ t ∈ seg, TokCanon t
  nonEmpty : nonEmptyButLast seg = true

theorem segState_parts (S : Settings) (seg : FT) (h : SegState S seg) : SegParts S seg := by
  unfold SegState segStateB at h
  simp only [Bool.and_eq_true, List.all_eq_true] at h
  exact ⟨h.1.1, fun t ht => tokOk_of_b t (h.1.2 t ht), h.2⟩

theorem canonState_seg (S : Settings) (ft : FT) (h : CanonState S ft) : SegState S ft := by
  unfold CanonState canonStateB at h
  unfold SegState segStateB
  simp only [Bool.and_eq_true] at h ⊢
  exact h.1

/-- the lines of the bytes emitted for the run `seg` (started in state `mb`): the first member is what the run adds
    to the line that is open when it starts -/
def segLines (S : Settings) (mb : Bool) (seg : FT) : List Bytes := (linesGo S mb seg).1 :: (linesGo S mb seg).2

/-- the bytes emitted for a run of tokens are a contiguous piece of the output -/
theorem reconstruct_segment (S : Settings) (pre seg post : FT) :
    reconstruct S (pre ++ seg ++ post) =
      reconGo S false pre ++ reconGo S (mbAfter false pre) seg ++ reconGo S (mbAfter (mbAfter false pre) seg) post := by
  unfold reconstruct
  rw [List.append_assoc, reconGo_append, reconGo_append, List.append_assoc]

theorem seg_lines (S : Settings) (mb : Bool) (seg : FT) (h : SegState S seg) :
    IsLines S.nlStr (reconGo S mb seg) (segLines S mb seg) := by
  have hp := segState_parts S seg h
  refine ⟨by simp [segLines], ?_, ?_⟩
  · rw [reconGo_lines S mb seg (fun t ht => (hp.toks t ht).notIgnored)]; rfl
  · have := linesGo_noLf S hp.settings mb seg (fun t ht => (hp.toks t ht).noLf)
    intro L hL
    simp only [segLines, List.mem_cons] at hL
    rcases hL with hL | hL
    · rw [hL]; exact this.1
    · exact this.2 L hL

theorem lines_eq_segLines (S : Settings) (mb : Bool) (seg : FT) (h : SegState S seg) (Ls : List Bytes)
    (hL : IsLines S.nlStr (reconGo S mb seg) Ls) : Ls = segLines S mb seg :=
  isLines_unique _ _ (settingsOk_nl S (segState_parts S seg h).settings) _ _ hL (seg_lines S mb seg h)

theorem seg_no_trailing_blank (S : Settings) (mb : Bool) (seg : FT) (h : SegState S seg) (Ls : List Bytes)
    (hL : IsLines S.nlStr (reconGo S mb seg) Ls) : ∀ L ∈ Ls, endsBlank L = false := by
  rw [lines_eq_segLines S mb seg h Ls hL]
  have := linesGo_endsBlank S mb seg (segState_parts S seg h).toks
  intro L hL
  simp only [segLines, List.mem_cons] at hL
  rcases hL with hL | hL
  · rw [hL]; exact this.1
  · exact this.2 L hL

theorem seg_no_double_blank_line (S : Settings) (mb : Bool) (seg : FT) (h : SegState S seg) :
    ¬ (S.nlStr ++ S.nlStr ++ S.nlStr) <:+: reconGo S mb seg := by
  have hp := segState_parts S seg h
  obtain ⟨p, hnl, hpf⟩ := settingsOk_nl S hp.settings
  obtain ⟨_, hout, hfree⟩ := seg_lines S mb seg h
  rw [hout]
  intro hin
  have := triple_infix_dblBlank S.nlStr p hnl hpf _ _ hfree hin
  rw [linesGo_dblBlank S mb seg hp.toks hp.nonEmpty] at this
  cases this

theorem seg_line_indentation (c : Config) (hsat : c.contIndents * c.tabWidth ≤ 255) (mb : Bool) (seg : FT)
    (h : SegState c.settings seg) (hsn : noSafetyNetGo mb seg = true) (Ls : List Bytes)
    (hL : IsLines c.settings.nlStr (reconGo c.settings mb seg) Ls) : ∀ L ∈ Ls.tail, LineIndentOk c L := by
  rw [lines_eq_segLines _ mb seg h Ls hL]
  have hp := segState_parts _ seg h
  exact linesGo_indent c hsat mb seg hp.toks hp.nonEmpty hsn

/-- clause 2 for any two neighbouring tokens of any token list, the second of which is not kept verbatim and has
    canonical counters -/
theorem gap_between (S : Settings) (pre post : FT) (t u : FTok) (hi : u.fmt.ignored = false)
    (hc : canonFmtB u.fmt = true) :
    ∃ A G, reconstruct S (pre ++ [t]) = A ++ t.tok.content ∧
      reconstruct S (pre ++ t :: u :: post) =
        A ++ t.tok.content ++ G ++ u.tok.content ++ reconGo S (isSingleLineComment u.tok.kind) post ∧
      (G = [] ∨ G = [0x20] ∨ ∃ W, G = S.nlStr ++ W) := by
  refine ⟨reconGo S false pre ++ gapOf S t (mbAfter false pre), gapOf S u (isSingleLineComment t.tok.kind),
    ?_, ?_, gap_trichotomy S u _ hi hc⟩
  · unfold reconstruct; exact reconGo_snoc S false pre t
  · unfold reconstruct
    have : pre ++ t :: u :: post = (pre ++ [t]) ++ u :: post := by simp
    rw [this, reconGo_append, reconGo_snoc, mbAfter_append_singleton, reconGo]
    simp [List.append_assoc]

/-! ### 11. the hypotheses split into the counters (what the layout theorems give) and the rest -/

theorem canonState_of_content (c : Config) (ft : FT)
    (hc : ∀ t ∈ ft, t.fmt.ignored = false → canonFmtB t.fmt = true) (h : contentStateB ft = true) :
    CanonState c.settings ft := by
  unfold contentStateB at h
  simp only [Bool.and_eq_true, List.all_eq_true] at h
  unfold CanonState canonStateB
  simp only [Bool.and_eq_true, List.all_eq_true]
  refine ⟨⟨⟨settingsOk_config c, fun t ht => ?_⟩, h.1.2⟩, h.2⟩
  have h1 := h.1.1 t ht
  unfold tokContentOkB at h1
  simp only [Bool.and_eq_true] at h1
  have hi : t.fmt.ignored = false := by simpa using h1.1.1.1.1
  unfold tokOkB
  simp only [Bool.and_eq_true]
  exact ⟨⟨⟨⟨⟨h1.1.1.1.1, hc t ht hi⟩, h1.1.1.1.2⟩, h1.1.1.2⟩, h1.1.2⟩, h1.2⟩

end Pasfmt
