import PasfmtModel.Model.Rules

namespace Pasfmt

/-- two token lists with the same kinds whose original spacing agrees up to `min · 1` -/
inductive LayoutEq : List (Kind × Nat) → List (Kind × Nat) → Prop
  | nil : LayoutEq [] []
  | cons {k a b r1 r2} : min a 1 = min b 1 → LayoutEq r1 r2 → LayoutEq ((k, a) :: r1) ((k, b) :: r2)

def noInlineLine (items : List (Kind × Nat)) : Prop := ∀ p ∈ items, p.1 ≠ .tComment .cInlineLine

/-- current spacing values that the rule of a token of kind `k` cannot tell apart -/
def CurEq (k : Kind) (c1 c2 : Nat) : Prop := c1 = c2 ∨ (k = .tEof ∧ min c1 1 = min c2 1)

theorem spacingRule_eof (prev prevReal next : Option Kind) (c : Nat) (n : Option Nat) :
    spacingRule .tEof prev prevReal next c n = (some (min c 1), n.map (min · 1)) := rfl

/-- the rule's results depend on the current/next spacing only through `min · 1` -/
theorem spacingRule_layout (k : Kind) (prev prevReal next : Option Kind) (c1 c2 : Nat) (n1 n2 : Option Nat)
    (hc : min c1 1 = min c2 1) (hn : n1.map (min · 1) = n2.map (min · 1)) :
    spacingRule k prev prevReal next c1 n1 = spacingRule k prev prevReal next c2 n2 := by
  unfold spacingRule
  split <;> try rfl
  simp only [hc, hn]

theorem spacesAfterFn_some (next : Option Kind) : ∃ a, spacesAfterFn next 1 = some a := by
  unfold spacesAfterFn; split <;> exact ⟨_, rfl⟩

/-- `after` is `some` for every kind but the inline line comment, as long as there is a next token -/
theorem spacingRule_after_some (k : Kind) (prev prevReal next : Option Kind) (c : Nat) (n : Nat)
    (hk : k ≠ .tComment .cInlineLine) :
    ∃ a, (spacingRule k prev prevReal next c (some n)).2 = some a := by
  unfold spacingRule
  split
  · rename_i op
    unfold spaceOperator
    split <;> (try exact ⟨_, rfl⟩)
    · unfold plusMinusSpacing; split <;> exact ⟨_, rfl⟩
    · unfold plusMinusSpacing; split <;> exact ⟨_, rfl⟩
    · split <;> exact ⟨_, rfl⟩
    · split <;> exact ⟨_, rfl⟩
    · unfold openBracketSpacing; split <;> (try split) <;> exact ⟨_, rfl⟩
    · unfold openBracketSpacing; split <;> (try split) <;> exact ⟨_, rfl⟩
    · split <;> exact ⟨_, rfl⟩
  · exact absurd rfl hk
  · exact spacesAfterFn_some _
  · exact spacesAfterFn_some _
  · exact spacesAfterFn_some _
  · exact spacesAfterFn_some _
  · exact ⟨_, rfl⟩
  · exact ⟨_, rfl⟩

/-- Spacing after `TokenSpacing` does not depend on the amount of original horizontal whitespace
    (only on whether it is empty), given no inline line comment (after which the next token
    necessarily starts a new line and has its spacing zeroed by the wrapper). -/
theorem spacingGo_layout (prev prevReal : Option Kind) (l1 l2 : List (Kind × Nat)) (h : LayoutEq l1 l2)
    (hni : noInlineLine l1) (c1 c2 : Nat) (hc : ∀ k a r, l1 = (k, a) :: r → CurEq k c1 c2) :
    spacingGo prev prevReal c1 l1 = spacingGo prev prevReal c2 l2 := by
  induction h generalizing prev prevReal c1 c2 with
  | nil => rfl
  | @cons k a b r1 r2 hab hr ih =>
    have hce : CurEq k c1 c2 := hc k a r1 rfl
    have hmin : min c1 1 = min c2 1 := by
      rcases hce with h | h
      · rw [h]
      · exact h.2
    cases hr with
    | nil =>
      unfold spacingGo
      simp only [List.head?_nil, Option.map_none]
      have hrule := spacingRule_layout k prev prevReal none c1 c2 none none hmin rfl
      rw [hrule]
      rcases hce with h | h
      · rw [h]
      · obtain ⟨hk, hm⟩ := h
        subst hk
        simp [spacingRule_eof]
    | @cons k' a' b' r1' r2' hab' hr' =>
      have hk : k ≠ .tComment .cInlineLine := hni (k, a) (by simp)
      unfold spacingGo
      simp only [List.head?_cons, Option.map_some]
      have hrule := spacingRule_layout k prev prevReal (some k') c1 c2 (some a') (some b') hmin (by simp [hab'])
      rw [hrule]
      obtain ⟨av, hav⟩ := spacingRule_after_some k prev prevReal (some k') c2 b' hk
      have hfinal : (spacingRule k prev prevReal (some k') c2 (some b')).1.getD c1 =
          (spacingRule k prev prevReal (some k') c2 (some b')).1.getD c2 := by
        rcases hce with h | h
        · rw [h]
        · obtain ⟨hk', _⟩ := h
          subst hk'
          simp [spacingRule_eof]
      rw [hfinal]
      congr 1
      apply ih (some k) _ (fun p hp => hni p (by simp [hp]))
      intro k2 a2 r2' heq
      simp only [List.cons.injEq, Prod.mk.injEq] at heq
      obtain ⟨⟨hk2, ha2⟩, _⟩ := heq
      subst hk2
      rw [hav]
      unfold nextCur CurEq
      by_cases he : (k' == .tEof) = true
      · right
        simp only [he, if_true]
        exact ⟨by simpa using he, hab'⟩
      · left; simp [he]

/-- final spacing after `TokenSpacing::format`: independent of the amount of original whitespace -/
theorem spacingResult_layout (l1 l2 : List (Kind × Nat)) (h : LayoutEq l1 l2) (hni : noInlineLine l1) :
    spacingResult l1 = spacingResult l2 := by
  cases h with
  | nil => rfl
  | @cons k a b r1 r2 hab hr =>
    unfold spacingResult
    simp only
    -- the head's own final value is overwritten by 0; the tails agree
    have key : (spacingGo none none a ((k, a) :: r1)).tail = (spacingGo none none b ((k, b) :: r2)).tail := by
      cases hr with
      | nil => unfold spacingGo; rfl
      | @cons k' a' b' r1' r2' hab' hr' =>
        have hk : k ≠ .tComment .cInlineLine := hni (k, a) (by simp)
        unfold spacingGo
        simp only [List.head?_cons, Option.map_some, List.tail_cons]
        have hrule := spacingRule_layout k none none (some k') a b (some a') (some b') hab (by simp [hab'])
        rw [hrule]
        obtain ⟨av, hav⟩ := spacingRule_after_some k none none (some k') b b' hk
        apply spacingGo_layout (some k) _ _ _ (LayoutEq.cons hab' hr') (fun p hp => hni p (by simp [hp]))
        intro k2 a2 r2' heq
        simp only [List.cons.injEq, Prod.mk.injEq] at heq
        obtain ⟨⟨hk2, ha2⟩, _⟩ := heq
        subst hk2
        rw [hav]
        unfold nextCur CurEq
        by_cases he : (k' == .tEof) = true
        · right
          simp only [he, if_true]
          exact ⟨by simpa using he, hab'⟩
        · left; simp [he]
    have hlen1 : ∃ x t, spacingGo none none a ((k, a) :: r1) = x :: t := by
      unfold spacingGo; cases r1 <;> exact ⟨_, _, rfl⟩
    have hlen2 : ∃ x t, spacingGo none none b ((k, b) :: r2) = x :: t := by
      unfold spacingGo; cases r2 <;> exact ⟨_, _, rfl⟩
    obtain ⟨x1, t1, e1⟩ := hlen1
    obtain ⟨x2, t2, e2⟩ := hlen2
    rw [e1, e2] at key
    rw [e1, e2]
    simp only [List.tail_cons] at key
    simp [key]

end Pasfmt
