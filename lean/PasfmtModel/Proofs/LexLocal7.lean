/-
  A successful windowed re-scan (`relexFT`) is the scan of the whole reconstructed text.
-/
import PasfmtModel.Proofs.LexLocal6
import PasfmtModel.Model.Relex

namespace Pasfmt

theorem reconTake_eq (S : Settings) (ft : FT) (n : Nat) (mb : Bool) :
    reconTake S ft n mb = (reconGo S mb ft).take n := by
  induction ft generalizing n mb with
  | nil => simp [reconTake, reconGo]
  | cons t r ih =>
    unfold reconTake reconGo
    simp only
    by_cases h : n ≤ (gapOf S t mb ++ t.tok.content).length
    · simp only [h, if_true]
      rw [List.take_append_of_le_length h]
    · simp only [h, if_false]
      rw [ih]
      rw [List.take_append]
      have : (gapOf S t mb ++ t.tok.content).take n = gapOf S t mb ++ t.tok.content :=
        List.take_of_length_le (by omega)
      rw [this]

theorem countTrailingWs_sentinel (x : Bytes) : countTrailingWs (x ++ [0x41]) = 0 := by
  unfold countTrailingWs
  simp only [List.reverse_append, List.reverse_cons, List.reverse_nil, List.nil_append, List.cons_append]
  rw [clwr_cons]
  · simp
  · intro t h; simp at h

/-- one step: the window result transfers to the real rest of the text -/
theorem lexOne_window (st : LexState) (g c rest : Bytes) (ws e : Nat) (k : RawKind) (st' : LexState)
    (h : lexOne false st (g ++ c ++ windowOf (rest.take 3)) = some (some (ws, e, k, st')))
    (hws : ws = g.length) (he : e = g.length + c.length) :
    lexOne false st (g ++ c ++ rest) = some (some (ws, e, k, st')) := by
  unfold windowOf at h
  by_cases hl : ((rest.take 3).length == 3) = true
  · simp only [hl, if_true] at h
    have hl' : (rest.take 3).length = 3 := by simpa using hl
    have := lexOne_local st (g ++ c ++ rest.take 3) [0x41] (rest.drop 3) ws e k st'
      (by rw [countTrailingWs_sentinel]; simp)
      (by simpa [List.append_assoc] using h)
      (by simp only [List.length_append, hl']; omega)
    simpa [List.append_assoc, List.take_append_drop] using this
  · simp only [hl, Bool.false_eq_true, if_false] at h
    have hlt : rest.length < 3 := by
      have : (rest.take 3).length = min 3 rest.length := List.length_take
      simp at hl
      omega
    rw [List.take_of_length_le (by omega)] at h
    exact h

theorem relexFT_sound (S : Settings) : ∀ (ft : FT) (st : LexState) (mb : Bool) (ks : List RawKind) (fuel : Nat),
    relexFT S st mb ft = some ks → (reconGo S mb ft).length < fuel →
    lexFuel false fuel st (reconGo S mb ft) = some (relexToks S mb ft ks)
  | [], _, _, _, _, h, _ => by simp [relexFT] at h
  | [t], st, mb, ks, fuel, h, hf => by
    unfold relexFT at h
    by_cases hc : t.tok.content.isEmpty = true
    · simp only [hc, if_true] at h
      have hce : t.tok.content = [] := by simpa using hc
      have hrec : reconGo S mb [t] = gapOf S t mb := by simp [reconGo, hce]
      rw [hrec] at hf ⊢
      cases fuel with
      | zero => simp at hf
      | succ f =>
        unfold lexFuel
        split at h
        · rename_i heq
          rw [heq]
          simp [relexToks]
        · simp at h
    · simp [hc] at h
  | t :: t2 :: r, st, mb, ks, fuel, h, hf => by
    unfold relexFT at h
    have hrec : reconGo S mb (t :: t2 :: r) =
        gapOf S t mb ++ t.tok.content ++ reconGo S (isSingleLineComment t.tok.kind) (t2 :: r) := by
      rw [reconGo]
    rw [reconTake_eq] at h
    split at h
    · rename_i ws e k st' hone
      by_cases hc : (ws == (gapOf S t mb).length && e == (gapOf S t mb).length + t.tok.content.length) = true
      · simp only [hc, if_true, Option.map_eq_some_iff] at h
        obtain ⟨ks', hks, rfl⟩ := h
        simp only [Bool.and_eq_true, beq_iff_eq] at hc
        obtain ⟨hws, he⟩ := hc
        have hreal := lexOne_window st _ _ _ ws e k st' hone hws he
        have hok := (lexOne_ok false st _).2 ws e k st' hreal
        rw [hrec] at hf ⊢
        cases fuel with
        | zero => simp at hf
        | succ f =>
          rw [lexFuel, hreal]
          simp only
          have hle : leLength e (gapOf S t mb ++ t.tok.content ++ reconGo S (isSingleLineComment t.tok.kind) (t2 :: r)) = true :=
            (leLength_iff _ _).2 hok.2
          simp only [hok.1, hle, and_self, if_true]
          have hdrop : (gapOf S t mb ++ t.tok.content ++ reconGo S (isSingleLineComment t.tok.kind) (t2 :: r)).drop e =
              reconGo S (isSingleLineComment t.tok.kind) (t2 :: r) := by
            rw [he, ← List.length_append]
            exact List.drop_left' rfl
          rw [hdrop]
          have ih := relexFT_sound S (t2 :: r) st' (isSingleLineComment t.tok.kind) ks' f hks
            (by simp only [List.length_append] at hf ⊢; omega)
          rw [ih]
          simp only [Option.some.injEq]
          rw [relexToks]
          congr 1
          have htw : (gapOf S t mb ++ t.tok.content ++ reconGo S (isSingleLineComment t.tok.kind) (t2 :: r)).take ws = gapOf S t mb := by
            rw [hws, List.append_assoc]
            exact List.take_left' rfl
          have hte : (gapOf S t mb ++ t.tok.content ++ reconGo S (isSingleLineComment t.tok.kind) (t2 :: r)).take e =
              gapOf S t mb ++ t.tok.content := by
            rw [he, ← List.length_append]
            exact List.take_left' rfl
          rw [htw, hte, hws]
          congr 1
          exact List.drop_left' rfl
      · simp [hc] at h
    · simp at h

end Pasfmt
