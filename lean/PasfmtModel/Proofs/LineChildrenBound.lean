import PasfmtModel.Model.Search
namespace Pasfmt

/-- all recorded child line indices of a children map are below `n` -/
def LCInv (n : Nat) (m : Std.HashMap (Nat × Nat) LineChildren) : Prop :=
  ∀ key lc, m.get? key = some lc → ∀ i ∈ lc.lineIndices.toList, i < n

theorem lcInv_empty (n : Nat) : LCInv n ({} : Std.HashMap (Nat × Nat) LineChildren) := by
  intro key lc h
  simp at h

theorem lcInv_insert (n : Nat) (m : Std.HashMap (Nat × Nat) LineChildren) (k : Nat × Nat)
    (lc' : LineChildren) (hm : LCInv n m) (hlc : ∀ i ∈ lc'.lineIndices.toList, i < n) :
    LCInv n (m.insert k lc') := by
  intro key lc h
  rw [Std.HashMap.get?_insert] at h
  split at h
  · cases h; exact hlc
  · exact hm key lc h

theorem lineChildrenWalk_inv (lines : Array LineA) (lineIndex : Nat) (hlt : lineIndex < lines.size) :
    ∀ (fuel : Nat) (cur : Option LineA) (first : Bool) (st : LineChildrenState),
      LCInv lines.size st.lineChildrenMap →
      LCInv lines.size (lineChildrenWalk lines lineIndex fuel cur first st).lineChildrenMap := by
  intro fuel
  induction fuel with
  | zero => intro cur first st h; simpa [lineChildrenWalk] using h
  | succ fuel ih =>
    intro cur first st h
    unfold lineChildrenWalk
    split
    · exact h
    · rename_i parent _
      apply ih
      apply lcInv_insert _ _ _ _ h
      intro i hi
      simp only at hi
      have hold : ∀ i ∈ ((st.lineChildrenMap.get?
          ((st.lineParentMap.get? (parent.lineIndex, parent.tokenIndex)).getD
            (parent.lineIndex, parent.tokenIndex))).getD
          { parentToken := parent.tokenIndex, lineIndices := #[], descendantCount := 0 }).lineIndices.toList,
          i < lines.size := by
        intro j hj
        cases hg : st.lineChildrenMap.get?
          ((st.lineParentMap.get? (parent.lineIndex, parent.tokenIndex)).getD
            (parent.lineIndex, parent.tokenIndex)) with
        | none => rw [hg] at hj; simp at hj
        | some old => rw [hg] at hj; exact h _ old hg j hj
      cases first with
      | false => simpa using hold i (by simpa using hi)
      | true =>
        simp at hi
        rcases hi with hi | hi
        · exact hold i (by simpa using hi)
        · subst hi; exact hlt

theorem getLineChildren_inv (lines : Array LineA) : LCInv lines.size (getLineChildren lines) := by
  unfold getLineChildren
  simp only
  suffices H : ∀ (l : List Nat) (st : LineChildrenState), (∀ i ∈ l, i < lines.size) →
      LCInv lines.size st.lineChildrenMap →
      LCInv lines.size (List.foldl (fun (st : LineChildrenState) lineIndex =>
        let line := lines[lineIndex]!
        match line.tokens[0]? with
        | none => st
        | some firstTokenIndex =>
          let st :=
            match line.parent with
            | none => st
            | some parent =>
              let (gapTokens, st) :=
                match st.tokensBeforeGaps.get? parent.lineIndex with
                | some g => (g, st)
                | none =>
                  let g := getLineTokensBeforeGaps ((lines[parent.lineIndex]?.map fun (l : LineA) => l.tokens).getD #[])
                  (g, { st with tokensBeforeGaps := st.tokensBeforeGaps.insert parent.lineIndex g })
              let mappedParentToken : Option Nat :=
                match gapsPartitionPoint gapTokens firstTokenIndex with
                | 0 => none
                | gapIndex + 1 => gapTokens[gapIndex]?
              let pkey := (parent.lineIndex, parent.tokenIndex)
              match mappedParentToken.filter (· != parent.tokenIndex) with
              | some m =>
                if st.lineParentMap.contains pkey then st
                else { st with lineParentMap := st.lineParentMap.insert pkey (parent.lineIndex, m) }
              | none => st
          lineChildrenWalk lines lineIndex (lines.size + 1) (some line) true st) st l).lineChildrenMap by
    exact H _ _ (fun i hi => List.mem_range.mp hi) (lcInv_empty _)
  intro l
  induction l with
  | nil => intro st _ h; simpa using h
  | cons a l ih =>
    intro st hl h
    rw [List.foldl_cons]
    apply ih _ (fun i hi => hl i (List.mem_cons_of_mem _ hi))
    have ha : a < lines.size := hl a List.mem_cons_self
    simp only
    split
    · exact h
    · apply lineChildrenWalk_inv lines a ha
      split
      · exact h
      · split <;> split <;> (try split) <;> exact h

/-- every child line index recorded by `get_line_children` is the index of an existing line -/
theorem getLineChildren_indices_lt (lines : Array LineA) (key : Nat × Nat) (lc : LineChildren)
    (h : (getLineChildren lines).get? key = some lc) : ∀ i ∈ lc.lineIndices.toList, i < lines.size :=
  getLineChildren_inv lines key lc h

end Pasfmt
