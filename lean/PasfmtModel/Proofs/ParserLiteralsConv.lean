/-
  The parser model never makes a text literal: the converse of `Proofs/ParserLiterals.lean`.

  Same traversal of the whole control flow of the parser model as `Proofs/ParserLiterals.lean` (the file is that proof
  with the invariant turned around): here `KeepLit K K'` says that every token typed text literal in `K'` (after) has
  the same type in `K` (before).  Every write of a token type (`setKind`, `setCurrentTokenType`, `cementPass`) writes a
  constant that is not a text literal (`NotLitK`), so the side conditions are syntactic; the snapshot machinery
  (`KF`, `SameK`) is kept only so that the structural tactic is unchanged.

  Result: `parseFileFull_literals_scanned`, and `parseAndConsolidate_literals_scanned` for parser + consolidators
  (`toTokenType` maps only `rTextLiteral` to `tTextLiteral`; the generics consolidator only makes chevrons).
-/
import PasfmtModel.Proofs.ParserParentsFlow
import PasfmtModel.Proofs.ConsolidatorsGen
import PasfmtModel.Model.PipelineFull

namespace Pasfmt.ParserLitConv

open PFull
open Parents (bind_eq_some get_bind liftOpt_eq_some nextToken_eq withLevels)

/-! ### the invariant -/

/-- every token typed text literal in `K` has the same type in `K'` -/
def KeepLit (K K' : Array RawKind) : Prop :=
  ∀ (i : Nat) (k : TextLiteralKind), K'[i]? = some (.rTextLiteral k) → K[i]? = some (.rTextLiteral k)

theorem KeepLit.refl (K : Array RawKind) : KeepLit K K := fun _ _ h => h

theorem KeepLit.trans {a b c : Array RawKind} (h1 : KeepLit a b) (h2 : KeepLit b c) : KeepLit a c :=
  fun i k h => h1 i k (h2 i k h)

theorem KeepLit.of_eq {a b : Array RawKind} (h : b = a) : KeepLit a b := by rw [h]; exact KeepLit.refl a

/-- the type is not a text literal -/
def NotLit (c : Option RawKind) : Prop := ∀ k, c ≠ some (.rTextLiteral k)

/-- the type written is not a text literal -/
def NotLitK (x : RawKind) : Prop := ∀ k, x ≠ .rTextLiteral k

/-- writing the type of a token that is not a text literal -/
theorem keepLit_set (K : Array RawKind) (i : Nat) (x : RawKind) (h : NotLitK x) : KeepLit K (K.setIfInBounds i x) := by
  intro j k hj
  rw [Array.getElem?_setIfInBounds] at hj
  split at hj
  · exfalso
    split at hj
    · exact h k (Option.some.inj hj)
    · cases hj
  · exact hj

/-- `x`, run from state `s`, keeps the text-literal types -/
def KAt {α : Type} (s : PS) (x : PM α) : Prop := ∀ a s', x s = some (a, s') → KeepLit s.kinds s'.kinds

/-- `x` keeps the text-literal types, from every state -/
def KGood {α : Type} (x : PM α) : Prop := ∀ s, KAt s x

/-- the two states agree on everything the current token's type depends on -/
def SameK (s s1 : PS) : Prop := s1.kinds = s.kinds ∧ s1.passArr = s.passArr ∧ s1.m.passIdx = s.m.passIdx

theorem SameK.refl (s : PS) : SameK s s := ⟨rfl, rfl, rfl⟩

theorem SameK.trans {a b c : PS} (h1 : SameK a b) (h2 : SameK b c) : SameK a c :=
  ⟨h2.1.trans h1.1, h2.2.1.trans h1.2.1, h2.2.2.trans h1.2.2⟩

theorem SameK.cur {s s1 : PS} (h : SameK s s1) : s1.getCurrentTokenType = s.getCurrentTokenType := by
  obtain ⟨hk, ha, hp⟩ := h
  simp [PS.getCurrentTokenType, PS.getTokenType, PS.getTokenIndex, hk, ha, hp]

/-- `x` keeps the text-literal types, from every state that agrees with the snapshot `s` (taken by `get`) on the token
    types and the current position: what the guards of the parser know when they write a type -/
def KF {α : Type} (s : PS) (x : PM α) : Prop := ∀ s1, SameK s s1 → KAt s1 x

/-- `x` changes neither the token types nor the current position -/
def Frame {α : Type} (x : PM α) : Prop := ∀ s a s', x s = some (a, s') → SameK s s'

theorem Frame.kgood {α : Type} {x : PM α} (h : Frame x) : KGood x :=
  fun s a s' hx => KeepLit.of_eq (h s a s' hx).1

theorem KGood.pure {α : Type} (a : α) : KGood (pure a : PM α) := by
  intro s a' s' h
  simp only [Pure.pure, StateT.pure] at h
  cases h
  exact KeepLit.refl _

theorem KGood.panic {α : Type} : KGood (panic_ : PM α) := by
  intro s a' s' h
  simp [panic_] at h

theorem KAt.bind {α β : Type} {s : PS} {x : PM α} {f : α → PM β}
    (hx : KAt s x) (hf : ∀ a s1, x s = some (a, s1) → KAt s1 (f a)) : KAt s (x >>= f) := by
  intro b s' h
  obtain ⟨a, s1, h1, h2⟩ := bind_eq_some h
  exact (hx a s1 h1).trans (hf a s1 h1 b s' h2)

theorem KGood.bind {α β : Type} {x : PM α} {f : α → PM β} (hx : KGood x) (hf : ∀ a, KGood (f a)) : KGood (x >>= f) :=
  fun s => KAt.bind (hx s) (fun a s1 _ => hf a s1)

theorem KGood.ite {α : Type} {c : Prop} [Decidable c] {x y : PM α} (hx : c → KGood x) (hy : ¬c → KGood y) :
    KGood (if c then x else y) := by
  split
  · exact hx ‹_›
  · exact hy ‹_›

theorem Frame.reader {α : Type} {x : PM α} (h : ∀ s a s', x s = some (a, s') → s' = s) : Frame x := by
  intro s a s' hx
  rw [h s a s' hx]
  exact SameK.refl _

theorem frame_get : Frame (get : PM PS) :=
  Frame.reader (by intro s a s' h; have h' : (some (s, s) : Option (PS × PS)) = some (a, s') := h; cases h'; rfl)

theorem Frame.modify (f : PS → PS) (h : ∀ s, SameK s (f s)) : Frame (modify f : PM Unit) := by
  intro s a s' hx
  have hx' : (some ((), f s) : Option (Unit × PS)) = some (a, s') := hx
  cases hx'
  exact h s

theorem Frame.pure {α : Type} (a : α) : Frame (pure a : PM α) :=
  Frame.reader (by intro s a' s' h; simp only [Pure.pure, StateT.pure] at h; cases h; rfl)

theorem Frame.panic {α : Type} : Frame (panic_ : PM α) := by
  intro s a' s' h
  simp [panic_] at h

theorem Frame.bind {α β : Type} {x : PM α} {f : α → PM β} (hx : Frame x) (hf : ∀ a, Frame (f a)) : Frame (x >>= f) := by
  intro s b s' h
  obtain ⟨a, s1, h1, h2⟩ := bind_eq_some h
  exact (hx s a s1 h1).trans (hf a s1 b s' h2)

theorem frame_liftOpt {α : Type} (o : Option α) : Frame (liftOpt o) :=
  Frame.reader (by intro s a s' h; exact (liftOpt_eq_some h).2)

theorem KGood.liftOpt {α : Type} (o : Option α) : KGood (liftOpt o) := (frame_liftOpt o).kgood

/-! #### with a snapshot in hand -/

theorem KF.of_good {α : Type} {s : PS} {x : PM α} (h : KGood x) : KF s x := fun s1 _ => h s1

theorem KF.ite {α : Type} {s : PS} {c : Prop} [Decidable c] {x y : PM α} (hx : c → KF s x) (hy : ¬c → KF s y) :
    KF s (if c then x else y) := by
  split
  · exact hx ‹_›
  · exact hy ‹_›

theorem KF.bind_frame {α β : Type} {s : PS} {x : PM α} {f : α → PM β}
    (hx : Frame x) (hf : ∀ a, KF s (f a)) : KF s (x >>= f) := by
  intro s1 hs
  refine KAt.bind (hx.kgood s1) ?_
  intro a s2 h1
  exact hf a s2 (hs.trans (hx s1 a s2 h1))

theorem KF.bind_good {α β : Type} {s : PS} {x : PM α} {f : α → PM β}
    (hx : KF s x) (hf : ∀ a, KGood (f a)) : KF s (x >>= f) := by
  intro s1 hs
  exact KAt.bind (hx s1 hs) (fun a s2 _ => hf a s2)

/-- `get` takes the snapshot -/
theorem KGood.get_bind {α : Type} {f : PS → PM α} (h : ∀ s, KF s (f s)) : KGood (get >>= f) := by
  intro s a s' hx
  rw [Parents.get_bind] at hx
  exact h s s (SameK.refl s) a s' hx

theorem KF.get_bind {α : Type} {s : PS} {f : PS → PM α} (h : ∀ s1, KF s1 (f s1)) : KF s (get >>= f) :=
  KF.of_good (KGood.get_bind h)

/-- `cur` answers the type of the snapshot's current token -/
theorem KF.cur_bind {α : Type} {s : PS} {f : Option RawKind → PM α} (h : KF s (f s.getCurrentTokenType)) :
    KF s (cur >>= f) := by
  intro s1 hs a s' hx
  have : (cur >>= f) s1 = f s1.getCurrentTokenType s1 := rfl
  rw [this, hs.cur] at hx
  exact h s1 hs a s' hx

theorem KGood.cur_bind {α : Type} {f : Option RawKind → PM α} (h : ∀ s, KF s (f s.getCurrentTokenType)) :
    KGood (cur >>= f) := fun s => KF.cur_bind (h s) s (SameK.refl s)

theorem KF.liftOpt_bind {α β : Type} {s : PS} {o : Option α} {f : α → PM β} (h : ∀ a, o = some a → KF s (f a)) :
    KF s (liftOpt o >>= f) := by
  intro s1 hs b s' hx
  obtain ⟨a, s2, h1, h2⟩ := bind_eq_some hx
  obtain ⟨ho, rfl⟩ := liftOpt_eq_some h1
  exact h a ho s2 hs b s' h2

/-! #### the primitives -/

theorem prim_kinds (op : POp) (s : PS) (a : Unit) (s' : PS) (h : prim op s = some (a, s')) :
    s'.kinds = s.kinds ∧ s'.passArr = s.passArr := by
  unfold prim at h
  split at h
  · simp at h
  · simp only [Option.some.injEq, Prod.mk.injEq] at h
    obtain ⟨_, rfl⟩ := h
    exact ⟨rfl, rfl⟩

theorem kgood_prim (op : POp) : KGood (prim op) :=
  fun s a s' h => KeepLit.of_eq (prim_kinds op s a s' h).1

theorem kgood_nextToken : KGood nextToken := by
  intro s u s' h
  obtain ⟨a, b, c, e⟩ := nextToken_eq s
  rw [e] at h
  exact kgood_prim .next (withLevels s a b c) u s' h

theorem frame_setLogicalLineType (t : LogicalLineType) : Frame (setLogicalLineType t) := by
  intro s a s' h
  unfold setLogicalLineType at h
  obtain ⟨hk, ha⟩ := prim_kinds _ s a s' h
  obtain ⟨hstep, _⟩ := Parents.prim_spec _ s a s' h
  refine ⟨hk, ha, ?_⟩
  unfold MState.step at hstep
  split at hstep
  · simp at hstep
  · simp only [Option.some.injEq] at hstep
    rw [← hstep]

theorem frame_pushCtx (c : ParserContext) : Frame (pushCtx c) := Frame.modify _ (fun _ => ⟨rfl, rfl, rfl⟩)
theorem frame_popCtx : Frame popCtx := Frame.modify _ (fun _ => ⟨rfl, rfl, rfl⟩)
theorem frame_updateStatuses (i : Nat) : Frame (updateStatuses i) := Frame.modify _ (fun _ => ⟨rfl, rfl, rfl⟩)

theorem frame_endingIdx : Frame endingIdx :=
  Frame.reader (by
    intro s a s' h
    unfold endingIdx at h
    split at h
    · simp at h
    · simp only [Option.some.injEq, Prod.mk.injEq] at h; exact h.2.symm)

theorem frame_cur : Frame cur :=
  Frame.reader (by intro s a s' h; simp only [cur, Option.some.injEq, Prod.mk.injEq] at h; exact h.2.symm)
theorem frame_prevTT : Frame prevTT :=
  Frame.reader (by intro s a s' h; simp only [prevTT, Option.some.injEq, Prod.mk.injEq] at h; exact h.2.symm)
theorem frame_nextTT : Frame nextTT :=
  Frame.reader (by intro s a s' h; simp only [nextTT, Option.some.injEq, Prod.mk.injEq] at h; exact h.2.symm)
theorem frame_curKw : Frame curKw :=
  Frame.reader (by intro s a s' h; simp only [curKw, Option.some.injEq, Prod.mk.injEq] at h; exact h.2.symm)
theorem frame_lastCtxType : Frame lastCtxType :=
  Frame.reader (by intro s a s' h; simp only [lastCtxType, Option.some.injEq, Prod.mk.injEq] at h; exact h.2.symm)
theorem frame_curLine : Frame curLine :=
  Frame.reader (by
    intro s a s' h
    unfold curLine at h
    split at h
    · simp only [Option.some.injEq, Prod.mk.injEq] at h; exact h.2.symm
    · simp at h)

/-- the current token's type is the type stored at the current token's index -/
theorem getTokenType_zero (s : PS) (i : Nat) (h : s.getTokenIndex 0 = some i) : s.kinds[i]? = s.getCurrentTokenType := by
  unfold PS.getCurrentTokenType PS.getTokenType
  rw [h]

/-- a write guarded by what is known of the snapshot: the token written is not a text literal -/
theorem KF.setKind {s : PS} (i : Nat) (k : RawKind) (hn : NotLitK k) : KF s (setKind i k) := by
  intro s1 hs a s' h
  have h' : (some ((), { s1 with kinds := s1.kinds.setIfInBounds i k }) : Option (Unit × PS)) = some (a, s') := h
  cases h'
  exact keepLit_set _ _ _ hn

/-- a guarded write to the current token, which is not a text literal -/
theorem KF.setCurrentTokenType {s : PS} (k : RawKind) (hc : NotLitK k) :
    KF s (setCurrentTokenType k) := by
  intro s1 hs a s' h
  have e : PFull.setCurrentTokenType k s1
      = (match s1.getTokenIndex 0 with | none => Pure.pure () | some i => PFull.setKind i k) s1 := rfl
  rw [e] at h
  cases hi : s1.getTokenIndex 0 with
  | none =>
    rw [hi] at h
    simp only [Pure.pure, StateT.pure] at h
    cases h
    exact KeepLit.refl _
  | some i =>
    rw [hi] at h
    have h' : (some ((), { s1 with kinds := s1.kinds.setIfInBounds i k }) : Option (Unit × PS)) = some (a, s') := h
    cases h'
    exact keepLit_set _ _ _ hc

/-! #### the structural tactic -/

/-- `KGood` facts about functions already dealt with, found by instance resolution (indexed, not tried one by one) -/
class IsK {α : Type} (x : PM α) : Prop where
  out : KGood x

/-- `Frame` facts, found by instance resolution -/
class IsFrame {α : Type} (x : PM α) : Prop where
  out : Frame x

instance {α : Type} (a : α) : IsFrame (pure a : PM α) := ⟨Frame.pure a⟩
instance {α β : Type} (x : PM α) (f : α → PM β) [IsFrame x] [∀ a, IsFrame (f a)] : IsFrame (x >>= f) :=
  ⟨Frame.bind IsFrame.out (fun _ => IsFrame.out)⟩
instance {α : Type} (c : Prop) [Decidable c] (x y : PM α) [IsFrame x] [IsFrame y] : IsFrame (if c then x else y) :=
  ⟨by split <;> exact IsFrame.out⟩
instance {α : Type} (x : PM α) [IsFrame x] : IsK x := ⟨Frame.kgood IsFrame.out⟩

instance : IsFrame (get : PM PS) := ⟨frame_get⟩
instance {α : Type} (o : Option α) : IsFrame (liftOpt o) := ⟨frame_liftOpt o⟩
instance (t : LogicalLineType) : IsFrame (setLogicalLineType t) := ⟨frame_setLogicalLineType t⟩
instance (c : ParserContext) : IsFrame (pushCtx c) := ⟨frame_pushCtx c⟩
instance : IsFrame popCtx := ⟨frame_popCtx⟩
instance (i : Nat) : IsFrame (updateStatuses i) := ⟨frame_updateStatuses i⟩
instance : IsFrame endingIdx := ⟨frame_endingIdx⟩
instance : IsFrame cur := ⟨frame_cur⟩
instance : IsFrame prevTT := ⟨frame_prevTT⟩
instance : IsFrame nextTT := ⟨frame_nextTT⟩
instance : IsFrame curKw := ⟨frame_curKw⟩
instance : IsFrame lastCtxType := ⟨frame_lastCtxType⟩
instance : IsFrame curLine := ⟨frame_curLine⟩
instance : IsK nextToken := ⟨kgood_nextToken⟩
instance (op : POp) : IsK (prim op) := ⟨kgood_prim op⟩

/-- `KGood` goals about known functions -/
macro "kgood_leaf" : tactic => `(tactic| first | (with_reducible assumption) | (with_reducible exact IsK.out))

/-- `Frame` goals about known functions -/
macro "frame_leaf" : tactic => `(tactic| first | (with_reducible assumption) | (with_reducible exact IsFrame.out))

/-- closes "the token written is not a text literal" from the guards in the context -/
macro "notlit_side" : tactic =>
  `(tactic| (unfold NotLitK
             intro k hk
             cases hk))

macro "kgood_struct" : tactic =>
  `(tactic| first
    | (with_reducible exact KGood.pure _)
    | (with_reducible exact KGood.panic)
    | (with_reducible refine KGood.get_bind ?_; with_reducible intro _)
    | (with_reducible refine KGood.cur_bind ?_; with_reducible intro _)
    | (with_reducible refine KGood.bind ?_ ?_)
    | (with_reducible refine KGood.ite ?_ ?_)
    | ((with_reducible refine KF.setCurrentTokenType _ ?_); notlit_side)
    | ((with_reducible refine KF.setKind _ _ ?_); notlit_side)
    | (with_reducible refine KF.get_bind ?_; with_reducible intro _)
    | (with_reducible refine KF.cur_bind ?_)
    | (with_reducible refine KF.liftOpt_bind ?_; with_reducible intro _ _)
    | (with_reducible refine KF.bind_frame (by frame_leaf) ?_)
    | (with_reducible refine KF.ite ?_ ?_)
    | (with_reducible intro _))

/-- last resorts with a snapshot: a bind whose first part is not known to be a frame; anything else -/
macro "kgood_fallback" : tactic =>
  `(tactic| with_reducible first
    | refine KF.bind_good ?_ ?_
    | refine KF.of_good ?_)

/-- symbolic execution of a `do` block -/
macro "kgood" : tactic =>
  `(tactic| repeat' (first | kgood_struct | kgood_leaf | dsimp only | split | kgood_fallback))

/-- `Frame` goals by structure -/
macro "frame_go" : tactic =>
  `(tactic| repeat' (first
    | frame_leaf
    | (with_reducible exact Frame.pure _)
    | (with_reducible exact Frame.panic)
    | (with_reducible refine Frame.bind ?_ ?_)
    | (with_reducible intro _)
    | dsimp only
    | split))

/-! #### `ParserBase` -/

theorem frame_isAtStartOfLine : Frame isAtStartOfLine := by
  unfold isAtStartOfLine; frame_go
instance : IsFrame isAtStartOfLine := ⟨frame_isAtStartOfLine⟩

theorem frame_curLineTokenTypes : Frame curLineTokenTypes := by
  unfold curLineTokenTypes; frame_go
instance : IsFrame curLineTokenTypes := ⟨frame_curLineTokenTypes⟩

theorem frame_getLineParentOfCurrentToken : Frame getLineParentOfCurrentToken := by
  unfold getLineParentOfCurrentToken; frame_go
instance : IsFrame getLineParentOfCurrentToken := ⟨frame_getLineParentOfCurrentToken⟩

theorem frame_isDirectiveBeforeNextToken : Frame isDirectiveBeforeNextToken := by
  unfold isDirectiveBeforeNextToken; frame_go
instance : IsFrame isDirectiveBeforeNextToken := ⟨frame_isDirectiveBeforeNextToken⟩


theorem frame_isDirectiveAfterPrevToken : Frame isDirectiveAfterPrevToken := by
  unfold isDirectiveAfterPrevToken; frame_go
instance : IsFrame isDirectiveAfterPrevToken := ⟨frame_isDirectiveAfterPrevToken⟩

theorem kgood_consolidateCurrentIdent : KGood consolidateCurrentIdent := by
  unfold consolidateCurrentIdent; kgood
instance : IsK consolidateCurrentIdent := ⟨kgood_consolidateCurrentIdent⟩

theorem kgood_consolidateCurrentKeyword : KGood consolidateCurrentKeyword := by
  unfold consolidateCurrentKeyword; kgood
instance : IsK consolidateCurrentKeyword := ⟨kgood_consolidateCurrentKeyword⟩

theorem kgood_consolidatePrevKeyword : KGood consolidatePrevKeyword := by
  unfold consolidatePrevKeyword; kgood
instance : IsK consolidatePrevKeyword := ⟨kgood_consolidatePrevKeyword⟩

theorem kgood_setCurrentDeclKind (k : DeclKind) : KGood (setCurrentDeclKind k) := by
  unfold setCurrentDeclKind; kgood
instance {a0} : IsK (setCurrentDeclKind a0) := ⟨kgood_setCurrentDeclKind a0⟩

theorem kgood_consolidateCurrentCaretToType : KGood consolidateCurrentCaretToType := by
  unfold consolidateCurrentCaretToType; kgood
instance : IsK consolidateCurrentCaretToType := ⟨kgood_consolidateCurrentCaretToType⟩

theorem kgood_consolidateClassOpIn : KGood consolidateClassOpIn := by
  unfold consolidateClassOpIn; kgood
instance : IsK consolidateClassOpIn := ⟨kgood_consolidateClassOpIn⟩

/-! #### `ParserLeaf` -/

theorem kgood_skipToken : KGood skipToken := by
  unfold skipToken; kgood
instance : IsK skipToken := ⟨kgood_skipToken⟩

theorem kgood_consolidatePortabilityDirectivesGo (lineTokens : Array Nat) :
    ∀ (fuel lineIndex : Nat), KGood (consolidatePortabilityDirectivesGo lineTokens fuel lineIndex)
  | 0, _ => by rw [consolidatePortabilityDirectivesGo]; exact KGood.panic
  | fuel + 1, lineIndex => by
    rw [consolidatePortabilityDirectivesGo]
    have ih := kgood_consolidatePortabilityDirectivesGo lineTokens fuel (lineIndex - 1)
    kgood
instance {a0 a1 a2} : IsK (consolidatePortabilityDirectivesGo a0 a1 a2) := ⟨kgood_consolidatePortabilityDirectivesGo a0 a1 a2⟩

theorem kgood_consolidatePortabilityDirectives : KGood consolidatePortabilityDirectives := by
  unfold consolidatePortabilityDirectives; kgood
instance : IsK consolidatePortabilityDirectives := ⟨kgood_consolidatePortabilityDirectives⟩

theorem kgood_finishLogicalLine : KGood finishLogicalLine := by
  unfold finishLogicalLine; kgood
instance : IsK finishLogicalLine := ⟨kgood_finishLogicalLine⟩

theorem kgood_makeUnfinishedLine : KGood makeUnfinishedLine := by
  unfold makeUnfinishedLine; kgood
instance : IsK makeUnfinishedLine := ⟨kgood_makeUnfinishedLine⟩

theorem kgood_skipPairGo (a b c : Nat) : ∀ fuel, KGood (skipPairGo a b c fuel)
  | 0 => by rw [skipPairGo]; exact KGood.panic
  | fuel + 1 => by
    rw [skipPairGo]
    have ih := kgood_skipPairGo a b c fuel
    kgood
instance {a0 a1 a2 a3} : IsK (skipPairGo a0 a1 a2 a3) := ⟨kgood_skipPairGo a0 a1 a2 a3⟩

theorem kgood_skipPair (fuel : Nat) : KGood (skipPair fuel) := by
  unfold skipPair; kgood
instance {a0} : IsK (skipPair a0) := ⟨kgood_skipPair a0⟩

theorem kgood_takeUntil (pred : PS → Bool) : ∀ fuel, KGood (takeUntil pred fuel)
  | 0 => by rw [takeUntil]; exact KGood.panic
  | fuel + 1 => by
    rw [takeUntil]
    have ih := kgood_takeUntil pred fuel
    kgood
instance {a0 a1} : IsK (takeUntil a0 a1) := ⟨kgood_takeUntil a0 a1⟩

theorem kgood_parseExpressionGo : ∀ fuel, KGood (parseExpressionGo fuel)
  | 0 => by rw [parseExpressionGo]; exact KGood.panic
  | fuel + 1 => by
    rw [parseExpressionGo]
    have ih := kgood_parseExpressionGo fuel
    kgood
instance {a0} : IsK (parseExpressionGo a0) := ⟨kgood_parseExpressionGo a0⟩

theorem kgood_parseExpression (fuel : Nat) : KGood (parseExpression fuel) := by
  unfold parseExpression; kgood
instance {a0} : IsK (parseExpression a0) := ⟨kgood_parseExpression a0⟩

theorem kgood_fixNextEqGo : ∀ fuel index, KGood (fixNextEqGo fuel index)
  | 0, _ => by rw [fixNextEqGo]; exact KGood.panic
  | fuel + 1, index => by
    rw [fixNextEqGo]
    have ih := kgood_fixNextEqGo fuel (index + 1)
    kgood
instance {a0 a1} : IsK (fixNextEqGo a0 a1) := ⟨kgood_fixNextEqGo a0 a1⟩

theorem kgood_fixNextEq (fuel : Nat) : KGood (fixNextEq fuel) := by
  unfold fixNextEq; kgood
instance {a0} : IsK (fixNextEq a0) := ⟨kgood_fixNextEq a0⟩

theorem kgood_parseParameterListGo (a b : Nat) : ∀ fuel, KGood (parseParameterListGo a b fuel)
  | 0 => by rw [parseParameterListGo]; exact KGood.panic
  | fuel + 1 => by
    rw [parseParameterListGo]
    have ih := kgood_parseParameterListGo a b fuel
    kgood
instance {a0 a1 a2} : IsK (parseParameterListGo a0 a1 a2) := ⟨kgood_parseParameterListGo a0 a1 a2⟩

theorem kgood_parseParameterList (fuel : Nat) : KGood (parseParameterList fuel) := by
  unfold parseParameterList; kgood
instance {a0} : IsK (parseParameterList a0) := ⟨kgood_parseParameterList a0⟩

theorem kgood_parseExports (fuel : Nat) : KGood (parseExports fuel) := by
  unfold parseExports; kgood
instance {a0} : IsK (parseExports a0) := ⟨kgood_parseExports a0⟩

theorem kgood_routineHeaderOp (fuel : Nat) : KGood (routineHeaderOp fuel) := by
  unfold routineHeaderOp; kgood
instance {a0} : IsK (routineHeaderOp a0) := ⟨kgood_routineHeaderOp a0⟩

theorem kgood_propertyDeclarationOp (fuel : Nat) : KGood (propertyDeclarationOp fuel) := by
  unfold propertyDeclarationOp; kgood
instance {a0} : IsK (propertyDeclarationOp a0) := ⟨kgood_propertyDeclarationOp a0⟩

theorem kgood_runUntilOp (fuel : Nat) (op : UntilOp) : KGood (runUntilOp fuel op) := by
  cases op <;> (unfold runUntilOp; kgood)
instance {a0 a1} : IsK (runUntilOp a0 a1) := ⟨kgood_runUntilOp a0 a1⟩

theorem kgood_opUntil (pred : PS → Bool) (op : UntilOp) : ∀ fuel, KGood (opUntil pred op fuel)
  | 0 => by rw [opUntil]; exact KGood.panic
  | fuel + 1 => by
    rw [opUntil]
    have ih := kgood_opUntil pred op fuel
    kgood
instance {a0 a1 a2} : IsK (opUntil a0 a1 a2) := ⟨kgood_opUntil a0 a1 a2⟩

theorem kgood_parseRoutineHeader (fuel : Nat) : KGood (parseRoutineHeader fuel) := by
  unfold parseRoutineHeader; kgood
instance {a0} : IsK (parseRoutineHeader a0) := ⟨kgood_parseRoutineHeader a0⟩

theorem kgood_parsePropertyDeclaration (fuel : Nat) : KGood (parsePropertyDeclaration fuel) := by
  unfold parsePropertyDeclaration; kgood
instance {a0} : IsK (parsePropertyDeclaration a0) := ⟨kgood_parsePropertyDeclaration a0⟩

theorem kgood_addAsmInstructionLine : KGood addAsmInstructionLine := by
  unfold addAsmInstructionLine; kgood
instance : IsK addAsmInstructionLine := ⟨kgood_addAsmInstructionLine⟩

theorem kgood_parseAsmInstructionsGo : ∀ fuel, KGood (parseAsmInstructionsGo fuel)
  | 0 => by rw [parseAsmInstructionsGo]; exact KGood.panic
  | fuel + 1 => by
    rw [parseAsmInstructionsGo]
    have ih := kgood_parseAsmInstructionsGo fuel
    kgood
instance {a0} : IsK (parseAsmInstructionsGo a0) := ⟨kgood_parseAsmInstructionsGo a0⟩

theorem kgood_parseAsmInstructions (fuel : Nat) : KGood (parseAsmInstructions fuel) := by
  unfold parseAsmInstructions; kgood
instance {a0} : IsK (parseAsmInstructions a0) := ⟨kgood_parseAsmInstructions a0⟩

theorem kgood_takeSeparatorsOnLastLine (fuel : Nat) (level : ParserContextLevel) :
    KGood (takeSeparatorsOnLastLine fuel level) := by
  unfold takeSeparatorsOnLastLine; kgood
instance {a0 a1} : IsK (takeSeparatorsOnLastLine a0 a1) := ⟨kgood_takeSeparatorsOnLastLine a0 a1⟩

theorem frame_andM (b : Bool) (m : PM Bool) (h : Frame m) : Frame (PFull.andM b m) := by
  unfold PFull.andM; frame_go
instance (b : Bool) (m : PM Bool) [IsFrame m] : IsFrame (PFull.andM b m) := ⟨frame_andM b m IsFrame.out⟩


theorem kgood_andM (b : Bool) (m : PM Bool) (h : KGood m) : KGood (PFull.andM b m) := by
  unfold PFull.andM; kgood
instance (b : Bool) (m : PM Bool) [IsK m] : IsK (PFull.andM b m) := ⟨kgood_andM b m IsK.out⟩



/-! #### the mutually recursive functions of `ParserFull`: induction on the fuel -/

/-- the invariant holds for every function of the mutual block, called with fuel `n` -/
structure AllK (n : Nat) : Prop where
  parseStructures : KGood (PFull.parseStructures n)
  parseAsmBlock : KGood (PFull.parseAsmBlock n)
  doWithContext : ∀ ctx act, KGood (PFull.doWithContext n ctx act)
  runAction : ∀ act, KGood (PFull.runAction n act)
  parseRoutine : KGood (PFull.parseRoutine n)
  parseBeginEnd : ∀ lvl, KGood (PFull.parseBeginEnd n lvl)
  parseStatementListBlock : ∀ ctx, KGood (PFull.parseStatementListBlock n ctx)
  parseStatementBlockWithKind : ∀ ctx k, KGood (PFull.parseStatementBlockWithKind n ctx k)
  parseBlock : ∀ ctx, KGood (PFull.parseBlock n ctx)
  parseStatementListWithType : ∀ ct, KGood (PFull.parseStatementListWithType n ct)
  parseStatementListWithTypeAndPredicate : ∀ ct p, KGood (PFull.parseStatementListWithTypeAndPredicate n ct p)
  parseCommentLines : KGood (PFull.parseCommentLines n)
  parseImportClause : KGood (PFull.parseImportClause n)
  parseCaseStatement : KGood (PFull.parseCaseStatement n)
  parseLineSection : ∀ ctx, KGood (PFull.parseLineSection n ctx)
  parseStatement : KGood (PFull.parseStatement n)
  parseAnonymousRoutine : KGood (PFull.parseAnonymousRoutine n)
  parseAnonymousRoutineGo : ∀ p, KGood (PFull.parseAnonymousRoutineGo n p)
  parseCaseArm : ∀ p, KGood (PFull.parseCaseArm n p)
  parseVariantRecordFields : KGood (PFull.parseVariantRecordFields n)
  parseParens : KGood (PFull.parseParens n)
  parseParensGo : KGood (PFull.parseParensGo n)
  parseVariantRecord : KGood (PFull.parseVariantRecord n)
  parseIfThen : KGood (PFull.parseIfThen n)
  parseDoStatement : ∀ k, KGood (PFull.parseDoStatement n k)

/-- the induction hypothesis as an instance, so that instance resolution finds the facts below -/
class HasAllK (n : Nat) : Prop where
  out : AllK n

instance {n : Nat} [h : HasAllK n] : IsK (PFull.parseStructures n) := ⟨h.out.parseStructures⟩
instance {n : Nat} [h : HasAllK n] : IsK (PFull.parseAsmBlock n) := ⟨h.out.parseAsmBlock⟩
instance {n : Nat} {a0 a1} [h : HasAllK n] : IsK (PFull.doWithContext n a0 a1) := ⟨h.out.doWithContext a0 a1⟩
instance {n : Nat} {a0} [h : HasAllK n] : IsK (PFull.runAction n a0) := ⟨h.out.runAction a0⟩
instance {n : Nat} [h : HasAllK n] : IsK (PFull.parseRoutine n) := ⟨h.out.parseRoutine⟩
instance {n : Nat} {a0} [h : HasAllK n] : IsK (PFull.parseBeginEnd n a0) := ⟨h.out.parseBeginEnd a0⟩
instance {n : Nat} {a0} [h : HasAllK n] : IsK (PFull.parseStatementListBlock n a0) := ⟨h.out.parseStatementListBlock a0⟩
instance {n : Nat} {a0 a1} [h : HasAllK n] : IsK (PFull.parseStatementBlockWithKind n a0 a1) := ⟨h.out.parseStatementBlockWithKind a0 a1⟩
instance {n : Nat} {a0} [h : HasAllK n] : IsK (PFull.parseBlock n a0) := ⟨h.out.parseBlock a0⟩
instance {n : Nat} {a0} [h : HasAllK n] : IsK (PFull.parseStatementListWithType n a0) := ⟨h.out.parseStatementListWithType a0⟩
instance {n : Nat} {a0 a1} [h : HasAllK n] : IsK (PFull.parseStatementListWithTypeAndPredicate n a0 a1) := ⟨h.out.parseStatementListWithTypeAndPredicate a0 a1⟩
instance {n : Nat} [h : HasAllK n] : IsK (PFull.parseCommentLines n) := ⟨h.out.parseCommentLines⟩
instance {n : Nat} [h : HasAllK n] : IsK (PFull.parseImportClause n) := ⟨h.out.parseImportClause⟩
instance {n : Nat} [h : HasAllK n] : IsK (PFull.parseCaseStatement n) := ⟨h.out.parseCaseStatement⟩
instance {n : Nat} {a0} [h : HasAllK n] : IsK (PFull.parseLineSection n a0) := ⟨h.out.parseLineSection a0⟩
instance {n : Nat} [h : HasAllK n] : IsK (PFull.parseStatement n) := ⟨h.out.parseStatement⟩
instance {n : Nat} [h : HasAllK n] : IsK (PFull.parseAnonymousRoutine n) := ⟨h.out.parseAnonymousRoutine⟩
instance {n : Nat} {a0} [h : HasAllK n] : IsK (PFull.parseAnonymousRoutineGo n a0) := ⟨h.out.parseAnonymousRoutineGo a0⟩
instance {n : Nat} {a0} [h : HasAllK n] : IsK (PFull.parseCaseArm n a0) := ⟨h.out.parseCaseArm a0⟩
instance {n : Nat} [h : HasAllK n] : IsK (PFull.parseVariantRecordFields n) := ⟨h.out.parseVariantRecordFields⟩
instance {n : Nat} [h : HasAllK n] : IsK (PFull.parseParens n) := ⟨h.out.parseParens⟩
instance {n : Nat} [h : HasAllK n] : IsK (PFull.parseParensGo n) := ⟨h.out.parseParensGo⟩
instance {n : Nat} [h : HasAllK n] : IsK (PFull.parseVariantRecord n) := ⟨h.out.parseVariantRecord⟩
instance {n : Nat} [h : HasAllK n] : IsK (PFull.parseIfThen n) := ⟨h.out.parseIfThen⟩
instance {n : Nat} {a0} [h : HasAllK n] : IsK (PFull.parseDoStatement n a0) := ⟨h.out.parseDoStatement a0⟩

macro "kgoodm" ih:ident : tactic =>
  `(tactic| (haveI : HasAllK _ := ⟨$ih⟩; kgood))

/-- as `kgoodm`, with a fact about a join point of the `do` block -/
macro "kgoodj" ih:ident hjp:ident : tactic =>
  `(tactic| (haveI : HasAllK _ := ⟨$ih⟩
             repeat' (first | (with_reducible exact $hjp _) | kgood_struct | kgood_leaf | dsimp only | split | kgood_fallback)))

theorem step_parseStructures (n : Nat) (ih : AllK n) : KGood (parseStructures (n + 1)) := by
  rw [parseStructures]; kgoodm ih

theorem step_parseAsmBlock (n : Nat) (ih : AllK n) : KGood (parseAsmBlock (n + 1)) := by
  rw [parseAsmBlock]; kgoodm ih

theorem step_doWithContext (n : Nat) (ih : AllK n) : ∀ ctx act, KGood (doWithContext (n + 1) ctx act) := by
  intro ctx act; rw [doWithContext]; kgoodm ih

theorem step_parseRoutine (n : Nat) (ih : AllK n) : KGood (parseRoutine (n + 1)) := by
  rw [parseRoutine]; kgoodm ih

theorem step_parseBeginEnd (n : Nat) (ih : AllK n) : ∀ lvl, KGood (parseBeginEnd (n + 1) lvl) := by
  intro lvl; rw [parseBeginEnd]; kgoodm ih

theorem step_parseStatementListBlock (n : Nat) (ih : AllK n) : ∀ ctx, KGood (parseStatementListBlock (n + 1) ctx) := by
  intro ctx; rw [parseStatementListBlock]; kgoodm ih

theorem step_parseStatementBlockWithKind (n : Nat) (ih : AllK n) : ∀ ctx k, KGood (parseStatementBlockWithKind (n + 1) ctx k) := by
  intro ctx k; rw [parseStatementBlockWithKind]; kgoodm ih

theorem step_parseBlock (n : Nat) (ih : AllK n) : ∀ ctx, KGood (parseBlock (n + 1) ctx) := by
  intro ctx; rw [parseBlock]; kgoodm ih

theorem step_parseStatementListWithType (n : Nat) (ih : AllK n) : ∀ ct, KGood (parseStatementListWithType (n + 1) ct) := by
  intro ct; rw [parseStatementListWithType]; kgoodm ih

theorem step_parseStatementListWithTypeAndPredicate (n : Nat) (ih : AllK n) : ∀ ct p, KGood (parseStatementListWithTypeAndPredicate (n + 1) ct p) := by
  intro ct p; rw [parseStatementListWithTypeAndPredicate]; kgoodm ih

theorem step_parseCommentLines (n : Nat) (ih : AllK n) : KGood (parseCommentLines (n + 1)) := by
  rw [parseCommentLines]; kgoodm ih

theorem step_parseImportClause (n : Nat) (ih : AllK n) : KGood (parseImportClause (n + 1)) := by
  rw [parseImportClause]; kgoodm ih

theorem step_parseCaseStatement (n : Nat) (ih : AllK n) : KGood (parseCaseStatement (n + 1)) := by
  rw [parseCaseStatement]; kgoodm ih

theorem step_parseLineSection (n : Nat) (ih : AllK n) : ∀ ctx, KGood (parseLineSection (n + 1) ctx) := by
  intro ctx; rw [parseLineSection]; kgoodm ih

theorem step_parseAnonymousRoutine (n : Nat) (ih : AllK n) : KGood (parseAnonymousRoutine (n + 1)) := by
  rw [parseAnonymousRoutine]; kgoodm ih

theorem step_parseAnonymousRoutineGo (n : Nat) (ih : AllK n) : ∀ p, KGood (parseAnonymousRoutineGo (n + 1) p) := by
  intro p; rw [parseAnonymousRoutineGo]; kgoodm ih

theorem step_parseCaseArm (n : Nat) (ih : AllK n) : ∀ p, KGood (parseCaseArm (n + 1) p) := by
  intro p; rw [parseCaseArm]; kgoodm ih

theorem step_parseVariantRecordFields (n : Nat) (ih : AllK n) : KGood (parseVariantRecordFields (n + 1)) := by
  rw [parseVariantRecordFields]; kgoodm ih

theorem step_parseParens (n : Nat) (ih : AllK n) : KGood (parseParens (n + 1)) := by
  rw [parseParens]; kgoodm ih

theorem step_parseParensGo (n : Nat) (ih : AllK n) : KGood (parseParensGo (n + 1)) := by
  rw [parseParensGo]; kgoodm ih

theorem step_parseVariantRecord (n : Nat) (ih : AllK n) : KGood (parseVariantRecord (n + 1)) := by
  rw [parseVariantRecord]; kgoodm ih

theorem step_parseIfThen (n : Nat) (ih : AllK n) : KGood (parseIfThen (n + 1)) := by
  rw [parseIfThen]; kgoodm ih

theorem step_parseDoStatement (n : Nat) (ih : AllK n) : ∀ k, KGood (parseDoStatement (n + 1) k) := by
  intro k; rw [parseDoStatement]; kgoodm ih

theorem step_runAction (n : Nat) (ih : AllK n) : ∀ act, KGood (runAction (n + 1) act) := by
  intro act; cases act <;> (rw [runAction]; kgoodm ih)

set_option maxHeartbeats 1000000 in
theorem step_parseStatement (n : Nat) (ih : AllK n) : KGood (parseStatement (n + 1)) := by
  rw [parseStatement]
  refine KGood.get_bind ?_
  intro s
  split
  · -- the rest of the function after the prologue is a join point: deal with it once, with the snapshot in hand
    extract_lets -underBinder +onlyGivenNames jp
    have hjp : ∀ r, KF s (jp r) := by
      intro r
      simp only [jp]
      kgoodm ih
    clear_value jp
    kgoodj ih hjp
  · exact KF.of_good (KGood.pure _)

/-- with no fuel every function of the mutual block panics -/
theorem allK_zero : AllK 0 where
  parseStructures := by rw [PFull.parseStructures]; exact KGood.panic
  parseAsmBlock := by rw [PFull.parseAsmBlock]; exact KGood.panic
  doWithContext := by intro ctx act; rw [PFull.doWithContext]; exact KGood.panic
  runAction := by intro act; rw [PFull.runAction]; exact KGood.panic
  parseRoutine := by rw [PFull.parseRoutine]; exact KGood.panic
  parseBeginEnd := by intro lvl; rw [PFull.parseBeginEnd]; exact KGood.panic
  parseStatementListBlock := by intro ctx; rw [PFull.parseStatementListBlock]; exact KGood.panic
  parseStatementBlockWithKind := by intro ctx k; rw [PFull.parseStatementBlockWithKind]; exact KGood.panic
  parseBlock := by intro ctx; rw [PFull.parseBlock]; exact KGood.panic
  parseStatementListWithType := by intro ct; rw [PFull.parseStatementListWithType]; exact KGood.panic
  parseStatementListWithTypeAndPredicate := by intro ct p; rw [PFull.parseStatementListWithTypeAndPredicate]; exact KGood.panic
  parseCommentLines := by rw [PFull.parseCommentLines]; exact KGood.panic
  parseImportClause := by rw [PFull.parseImportClause]; exact KGood.panic
  parseCaseStatement := by rw [PFull.parseCaseStatement]; exact KGood.panic
  parseLineSection := by intro ctx; rw [PFull.parseLineSection]; exact KGood.panic
  parseStatement := by rw [PFull.parseStatement]; exact KGood.panic
  parseAnonymousRoutine := by rw [PFull.parseAnonymousRoutine]; exact KGood.panic
  parseAnonymousRoutineGo := by intro p; rw [PFull.parseAnonymousRoutineGo]; exact KGood.panic
  parseCaseArm := by intro p; rw [PFull.parseCaseArm]; exact KGood.panic
  parseVariantRecordFields := by rw [PFull.parseVariantRecordFields]; exact KGood.panic
  parseParens := by rw [PFull.parseParens]; exact KGood.panic
  parseParensGo := by rw [PFull.parseParensGo]; exact KGood.panic
  parseVariantRecord := by rw [PFull.parseVariantRecord]; exact KGood.panic
  parseIfThen := by rw [PFull.parseIfThen]; exact KGood.panic
  parseDoStatement := by intro k; rw [PFull.parseDoStatement]; exact KGood.panic

/-- **no function of the parser model retypes a text literal**, whatever the fuel -/
theorem allK : ∀ n, AllK n
  | 0 => allK_zero
  | n + 1 =>
    have ih := allK n
    {
      parseStructures := step_parseStructures n ih,
      parseAsmBlock := step_parseAsmBlock n ih,
      doWithContext := step_doWithContext n ih,
      runAction := step_runAction n ih,
      parseRoutine := step_parseRoutine n ih,
      parseBeginEnd := step_parseBeginEnd n ih,
      parseStatementListBlock := step_parseStatementListBlock n ih,
      parseStatementBlockWithKind := step_parseStatementBlockWithKind n ih,
      parseBlock := step_parseBlock n ih,
      parseStatementListWithType := step_parseStatementListWithType n ih,
      parseStatementListWithTypeAndPredicate := step_parseStatementListWithTypeAndPredicate n ih,
      parseCommentLines := step_parseCommentLines n ih,
      parseImportClause := step_parseImportClause n ih,
      parseCaseStatement := step_parseCaseStatement n ih,
      parseLineSection := step_parseLineSection n ih,
      parseStatement := step_parseStatement n ih,
      parseAnonymousRoutine := step_parseAnonymousRoutine n ih,
      parseAnonymousRoutineGo := step_parseAnonymousRoutineGo n ih,
      parseCaseArm := step_parseCaseArm n ih,
      parseVariantRecordFields := step_parseVariantRecordFields n ih,
      parseParens := step_parseParens n ih,
      parseParensGo := step_parseParensGo n ih,
      parseVariantRecord := step_parseVariantRecord n ih,
      parseIfThen := step_parseIfThen n ih,
      parseDoStatement := step_parseDoStatement n ih }

/-! ### `parse`, the passes of `parse_file`, the consolidators -/

theorem kgood_parse (fuel : Nat) : KGood (parse fuel) := by
  unfold parse
  have ih := allK fuel
  kgoodm ih

theorem cementPass_keep (pass : List Nat) (kinds kinds' : Array RawKind) (h : cementPass kinds pass = some kinds') :
    KeepLit kinds kinds' := by
  induction pass generalizing kinds with
  | nil => simp [cementPass] at h; subst h; exact KeepLit.refl _
  | cons t rest ih =>
    unfold cementPass at h
    split at h
    · simp at h
    · rename_i k hk
      refine (keepLit_set kinds t .rIdentifier ?_).trans (ih _ h)
      intro l hl
      cases hl
    · exact ih _ h

theorem runPasses_keep (kinds0 : List RawKind) (nl : Array Bool) (fuel : Nat) :
    ∀ (ps : List (List Nat)) (kinds : Array RawKind) (ls : List (List PLine)) (trs : List (List Nat × List POp))
      (kinds' : Array RawKind) (L : List (List PLine)) (T : List (List Nat × List POp)),
      runPasses kinds0 nl fuel ps kinds ls trs = some (kinds', L, T) → KeepLit kinds kinds'
  | [], kinds, ls, trs, kinds', L, T, h => by
    simp only [runPasses, Option.some.injEq, Prod.mk.injEq] at h
    obtain ⟨rfl, _, _⟩ := h
    exact KeepLit.refl _
  | pass :: rest, kinds, ls, trs, kinds', L, T, h => by
    unfold runPasses at h
    split at h
    · simp at h
    · rename_i s hs
      split at h
      · split at h
        · simp at h
        · rename_i kinds2 hc
          have h1 : KeepLit kinds s.kinds := kgood_parse fuel (PS.new kinds0 kinds nl pass) () s hs
          have h2 := cementPass_keep pass s.kinds kinds2 hc
          have h3 := runPasses_keep kinds0 nl fuel rest kinds2 _ _ kinds' L T h
          exact (h1.trans h2).trans h3
      · simp at h

/-- **the parser model never makes a text literal**: a token typed `TextLiteral(k)` in the answer of `parse_file`
    entered it with that type -/
theorem parseFileFull_literals_scanned (toks : List (RawKind × Bool)) (o : ParseFullOut) (h : parseFileFull toks = some o)
    (i : Nat) (k : TextLiteralKind) (hi : o.kinds[i]? = some (.rTextLiteral k)) :
    (toks.map (·.1))[i]? = some (.rTextLiteral k) := by
  obtain ⟨kinds, acc, hr, _, _, hk, _⟩ := parseFileFull_spec toks o h
  rw [hk] at hi
  have := runPasses_keep _ _ _ _ _ _ _ _ _ _ hr i k (by simpa using hi)
  simpa using this

theorem maskFlags_fst (b : Bool) (toks : List (RawKind × Bool)) : (maskFlags b toks).map (·.1) = toks.map (·.1) := by
  induction toks generalizing b with
  | nil => rfl
  | cons x r ih =>
    obtain ⟨k, f⟩ := x
    simp [maskFlags, ih]

theorem toTokenType_textLiteral (x : RawKind) (k : TextLiteralKind) (h : x.toTokenType = .tTextLiteral k) :
    x = .rTextLiteral k := by
  cases x <;> simp [RawTokenType.toTokenType] at h
  subst h; rfl

/-- **parser and consolidators make no text literal**: in the kinds the formatter works with, every token typed
    `TextLiteral(k)` was typed `TextLiteral(k)` by the scanner (the converse of
    `ParserLit.parseAndConsolidate_keeps_literals`) -/
theorem parseAndConsolidate_literals_scanned (raw : List RawTok) (po : ParserOut) (h : parseAndConsolidate raw = some po)
    (i : Nat) (k : TextLiteralKind) (hi : po.kinds[i]? = some (.tTextLiteral k)) :
    ∃ r, raw[i]? = some r ∧ r.kind = .rTextLiteral k := by
  unfold parseAndConsolidate at h
  split at h
  · simp at h
  · rename_i o ho
    simp only [Option.some.injEq] at h
    subst h
    unfold parseFileMasked at ho
    obtain ⟨hlen, hrel⟩ := genericsConsolidate_frame (o.kinds.map (·.toTokenType))
    have hi' : (genericsConsolidate (o.kinds.map (·.toTokenType)))[i]? = some (.tTextLiteral k) := hi
    have hlt2 : i < (genericsConsolidate (o.kinds.map (·.toTokenType))).length := by
      rcases Nat.lt_or_ge i (genericsConsolidate (o.kinds.map (·.toTokenType))).length with h | h
      · exact h
      · rw [List.getElem?_eq_none h] at hi'; cases hi'
    have hlt : i < (o.kinds.map (·.toTokenType)).length := by rw [← hlen]; exact hlt2
    have hr := hrel i hlt hlt2
    have e : (genericsConsolidate (o.kinds.map (·.toTokenType)))[i] = .tTextLiteral k := by
      rw [List.getElem?_eq_getElem hlt2] at hi'
      exact Option.some.inj hi'
    rw [e] at hr
    have e2 : (o.kinds.map (·.toTokenType))[i] = .tTextLiteral k := by
      rcases hr with hr | ⟨c, _, hc⟩ | ⟨c, _, hc⟩
      · exact hr
      · cases hc
      · cases hc
    have hlt3 : i < o.kinds.length := by simpa using hlt
    have e3 : o.kinds[i].toTokenType = .tTextLiteral k := by simpa using e2
    have e4 := toTokenType_textLiteral _ _ e3
    have h1 : o.kinds[i]? = some (.rTextLiteral k) := by
      rw [List.getElem?_eq_getElem hlt3, e4]
    have h2 := parseFileFull_literals_scanned _ o ho i k h1
    rw [maskFlags_fst] at h2
    simp only [List.map_map, List.getElem?_map, Option.map_eq_some_iff] at h2
    obtain ⟨r, hr1, hr2⟩ := h2
    exact ⟨r, hr1, hr2⟩

end Pasfmt.ParserLitConv
