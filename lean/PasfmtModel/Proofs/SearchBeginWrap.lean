/-
  `begin_style = always_wrap`, carried from the point where the search decides it (`begin_always_wrap_partial`) to the
  solution the search RETURNS: the invariants of `SearchChildLines` (`TreeOk`, `CacheOk`, `NodeOk`) are strengthened so
  that every decision remembers WHICH record of `O.lineChildren` its child solutions were made for (identified through
  the child line indices), and that for a record "children of `else`/`then`/`do`/case-arm colon, first child line
  starts with `begin`" the option chosen was "break before every child line, at the parent line's indentation".
-/
import PasfmtModel.Proofs.SearchChildLines

namespace Pasfmt

/-! ### the strengthened invariants -/

/-- the child lines of this record hang off `else`, `then`, `do` or the colon of a case arm, the first of them starts
    with `begin`, and `begin_style = always_wrap` -/
def BeginCond (O : Olf) (lc : LineChildren) : Prop :=
  O.breakBeforeBegin = true ∧
  (O.getTokenType lc.parentToken = some (.tKeyword .kElse) ∨ O.getTokenType lc.parentToken = some (.tKeyword .kThen) ∨
   O.getTokenType lc.parentToken = some (.tKeyword .kDo) ∨ O.getTokenType lc.parentToken = some (.tOp .oColon)) ∧
  firstChildTokenType O lc = some (.tKeyword .kBegin)

/-- where the child solutions of a decision come from: there are none, or they are the solutions of exactly the child
    lines of a record of `O.lineChildren`, and if that record satisfies `BeginCond` the option they were placed by is
    "break before every child line, at the parent's indentation" -/
def ChildrenFrom (O : Olf) (W : LineWhitespace) (option : ChildLineOption) (sols : List (Nat × FormattingSolution)) :
    Prop :=
  sols = [] ∨ ∃ key lc, O.lineChildren.get? key = some lc ∧ sols.map (·.1) = lc.lineIndices.toList ∧
      (BeginCond O lc → option = .breakAll { whitespace := W, deindent := 1 })

/-- `TreeOk`, and every decision knows where its child solutions come from (`ChildrenFrom`) -/
inductive TreeOk' (O : Olf) : FormattingSolution → Prop
  | mk (ws : LineWhitespace) (decs : List TokenDecision) (pen len : Nat)
      (h : ∀ d ∈ decs, ∃ option : ChildLineOption, OptionFrom ws option ∧
          (∀ p x, d.childSolutions[p]? = some x → ChildSolOk O option p x) ∧
          ChildrenFrom O ws option d.childSolutions)
      (hrec : ∀ d ∈ decs, ∀ x ∈ d.childSolutions, TreeOk' O x.2) :
      TreeOk' O (.mk ws decs pen len)

/-- the strengthened invariant implies the one of `SearchChildLines` -/
theorem TreeOk'.toTreeOk {O : Olf} {sol : FormattingSolution} (h : TreeOk' O sol) : TreeOk O sol := by
  induction h with
  | mk ws decs pen len h1 hrec ih =>
    refine TreeOk.mk ws decs pen len (fun d hd => ?_) ih
    obtain ⟨o, a, b, _⟩ := h1 d hd
    exact ⟨o, a, b⟩

/-- a list of child solutions of one option, with the strengthened invariant inside each of them -/
def ChildListOk' (O : Olf) (option : ChildLineOption) (sols : List (Nat × FormattingSolution)) : Prop :=
  (∀ p x, sols[p]? = some x → ChildSolOk O option p x) ∧ ∀ x ∈ sols, TreeOk' O x.2

/-- the child solutions of one decision of a solution starting with whitespace `W`: placed by one option derived
    from `W`, and it is known where they come from (`ChildrenFrom`) -/
def DecOk' (O : Olf) (W : LineWhitespace) (d : TokenDecision) : Prop :=
  ∃ option : ChildLineOption, OptionFrom W option ∧ ChildListOk' O option d.childSolutions ∧
    ChildrenFrom O W option d.childSolutions

/-- `TreeOk'` says: every decision of the solution satisfies `DecOk'` -/
theorem treeOk'_iff (O : Olf) (sol : FormattingSolution) :
    TreeOk' O sol ↔ ∀ d ∈ sol.decisions, DecOk' O sol.startingWs d := by
  constructor
  · intro h
    cases h with
    | mk ws decs pen len h hrec =>
      intro d hd
      obtain ⟨o, h1, h2, h3⟩ := h d hd
      exact ⟨o, h1, ⟨h2, hrec d hd⟩, h3⟩
  · intro h
    cases sol with
    | mk ws decs pen len =>
      refine TreeOk'.mk ws decs pen len (fun d hd => ?_) (fun d hd => ?_)
      · obtain ⟨o, h1, h2, h3⟩ := h d hd
        exact ⟨o, h1, h2.1, h3⟩
      · obtain ⟨o, h1, h2, h3⟩ := h d hd
        exact h2.2

theorem ChildListOk'.nil (O : Olf) (option : ChildLineOption) : ChildListOk' O option [] := by
  exact ⟨fun p x h => by simp at h, fun x h => by simp at h⟩

/-- every entry of the cache is a well-placed list of child solutions for the option in its key, and the solutions of
    exactly the child lines of the record of `O.lineChildren` its key names -/
def CacheOk' (O : Olf) (cache : ChildLineCache) : Prop :=
  ∀ (key : ChildLineInitialConditions) sols, cache[key]? = some sols →
    ChildListOk' O key.childLineOption sols ∧
    ∀ lc, O.lineChildren.get? (key.parentLine, key.parentToken) = some lc → sols.map (·.1) = lc.lineIndices.toList

/-- a solver of child lines keeps the strengthened cache invariant and returns solutions satisfying `TreeOk'` -/
def SolverOk' (O : Olf) (solve : Solver) : Prop :=
  ∀ cache ws li fd, CacheOk' O cache →
    CacheOk' O (solve cache ws li fd).2 ∧ ∀ sol, (solve cache ws li fd).1 = .ok sol → TreeOk' O sol

/-- the loop over the child lines keeps the cache invariant; the list it returns is well placed for the option and
    is the list of the solutions of exactly the accumulated lines followed by the lines still to do, in this order -/
theorem solveChildLines_ok' (O : Olf) (solve : Solver) (hK : SolverKey O solve) (hT : SolverOk' O solve)
    (option : ChildLineOption) :
    ∀ (ls : List Nat) (idx : Nat) (cache : ChildLineCache) (lll : Nat) (acc : List (Nat × FormattingSolution))
      (r : Option (List (Nat × FormattingSolution))) (cache' : ChildLineCache),
      CacheOk' O cache → acc.length = idx → ChildListOk' O option acc.reverse →
      solveChildLines O solve option option.startingWs ls idx cache lll acc = (r, cache') →
      CacheOk' O cache' ∧ ∀ sols, r = some sols →
        ChildListOk' O option sols ∧ sols.map (·.1) = acc.reverse.map (·.1) ++ ls := by
  intro ls
  induction ls with
  | nil =>
    intro idx cache lll acc r cache' hc hlen hacc h
    simp only [solveChildLines, Prod.mk.injEq] at h
    obtain ⟨rfl, rfl⟩ := h
    exact ⟨hc, fun sols hs => by cases hs; exact ⟨hacc, by simp⟩⟩
  | cons childLine rest ih =>
    intro idx cache lll acc r cache' hc hlen hacc h
    unfold solveChildLines at h
    extract_lets line src cws fd at h
    have hok := hT cache cws childLine fd hc
    split at h
    · rename_i e c1 hs
      simp only [Prod.mk.injEq] at h
      obtain ⟨rfl, rfl⟩ := h
      rw [hs] at hok
      exact ⟨hok.1, fun sols hs => by cases hs⟩
    · rename_i solution c1 hs
      rw [hs] at hok
      obtain ⟨hk1, hk2⟩ := hK _ _ _ _ _ _ hs
      have hacc' : ChildListOk' O option ((childLine, solution) :: acc).reverse := by
        refine ⟨?_, ?_⟩
        · intro p x hx
          rw [List.reverse_cons, List.getElem?_append] at hx
          split at hx
          · exact hacc.1 p x hx
          · rename_i hp
            simp only [List.length_reverse] at hp hx
            have hp0 : p = idx := by
              rcases Nat.lt_or_ge (p - acc.length) 1 with h1 | h1
              · omega
              · rw [List.getElem?_eq_none (by simpa using h1)] at hx; cases hx
            subst hp0
            rw [hlen, Nat.sub_self] at hx
            simp only [List.getElem?_cons_zero, Option.some.injEq] at hx
            subst hx
            refine ⟨hk1, fun hne => ?_⟩
            rw [hk2 hne]
            congr 1
            show rootDec O O.lines[childLine]! fd = _
            simp only [fd]
            cases option with
            | continueAll => rfl
            | breakAll ws => rfl
            | continueThenBreak ws =>
              simp only [ChildLineOption.breaksAt]
              by_cases h0 : p = 0
              · simp [h0, rootDec_cont]
              · simp [h0]
        · intro x hx
          simp only [List.reverse_cons, List.mem_append, List.mem_reverse, List.mem_singleton] at hx
          rcases hx with hx | rfl
          · exact hacc.2 x (by simpa using hx)
          · exact hok.2 _ rfl
      obtain ⟨r1, r2⟩ := ih _ _ _ _ _ _ hok.1 (by simp [hlen]) hacc' h
      refine ⟨r1, fun sols hs => ?_⟩
      obtain ⟨a, b⟩ := r2 sols hs
      exact ⟨a, by rw [b]; simp⟩

/-- looking the options up in the cache or solving them: every list of child solutions offered - computed or
    cached - is well placed for one of the options and is the list of the solutions of exactly the child lines of
    the record `lineChildren` stored under `lineParent` -/
theorem childLinesOfOptions_ok' (O : Olf) (solve : Solver) (hK : SolverKey O solve) (hT : SolverOk' O solve)
    (Q : ChildLineOption → Prop) (cache : ChildLineCache) (lineParent : Nat × Nat) (lineChildren : LineChildren)
    (tll : Nat) (opts : Potentials ChildLineOption) (hopts : ∀ o ∈ opts.toList, Q o)
    (hlc : O.lineChildren.get? lineParent = some lineChildren) (hc : CacheOk' O cache) :
    CacheOk' O (childLinesOfOptions O solve cache lineParent lineChildren tll opts).2 ∧
    ∀ sols ∈ (childLinesOfOptions O solve cache lineParent lineChildren tll opts).1.toList,
      ∃ option, Q option ∧ ChildListOk' O option sols ∧ sols.map (·.1) = lineChildren.lineIndices.toList := by
  unfold childLinesOfOptions
  have := andThenM_spec (CacheOk' O)
    (fun o sols => Q o ∧ ChildListOk' O o sols ∧ sols.map (·.1) = lineChildren.lineIndices.toList) opts
    (fun (cache : ChildLineCache) option =>
      let childStartingWs : ChildWhitespace :=
        match option with
        | .continueAll => { whitespace := LineWhitespace.zero, deindent := 0 }
        | .breakAll ws | .continueThenBreak ws => ws
      let cacheKey : ChildLineInitialConditions :=
        { lastLineLength := tll, parentLine := lineParent.1, parentToken := lineParent.2,
          childLineOption := option }
      match cache.get? cacheKey with
      | some sol => (some sol, cache)
      | none =>
        match solveChildLines O solve option childStartingWs lineChildren.lineIndices.toList 0 cache tll [] with
        | (none, cache) => (none, cache)
        | (some childSolutions, cache) => (some childSolutions, cache.insert cacheKey childSolutions))
    ?_ cache hc
  · refine ⟨this.1, fun sols hs => ?_⟩
    obtain ⟨o, _, h1, h2⟩ := this.2 sols hs
    exact ⟨o, h1, h2⟩
  · intro c o ho hcO
    dsimp only
    split
    · rename_i sol hg
      refine ⟨hcO, fun b hb => ?_⟩
      simp only [Option.some.injEq] at hb
      subst hb
      rw [Std.HashMap.get?_eq_getElem?] at hg
      exact ⟨hopts o ho, (hcO _ _ hg).1, (hcO _ _ hg).2 lineChildren hlc⟩
    · split
      · rename_i c1 hs
        have : CacheOk' O c1 ∧ ∀ sols, (none : Option (List (Nat × FormattingSolution))) = some sols →
            ChildListOk' O o sols ∧ sols.map (·.1) = ([] : List (Nat × FormattingSolution)).reverse.map (·.1) ++ lineChildren.lineIndices.toList := by
          cases o <;> exact solveChildLines_ok' O solve hK hT _ lineChildren.lineIndices.toList 0 c tll [] _ _ hcO rfl (ChildListOk'.nil O _) hs
        exact ⟨this.1, fun b hb => by cases hb⟩
      · rename_i cs c1 hs
        have : CacheOk' O c1 ∧ ∀ sols, some cs = some sols →
            ChildListOk' O o sols ∧ sols.map (·.1) = ([] : List (Nat × FormattingSolution)).reverse.map (·.1) ++ lineChildren.lineIndices.toList := by
          cases o <;> exact solveChildLines_ok' O solve hK hT _ lineChildren.lineIndices.toList 0 c tll [] _ _ hcO rfl (ChildListOk'.nil O _) hs
        have hcs : ChildListOk' O o cs ∧ cs.map (·.1) = lineChildren.lineIndices.toList := by
          obtain ⟨a, b⟩ := this.2 _ rfl
          exact ⟨a, by simpa using b⟩
        refine ⟨?_, fun b hb => ?_⟩
        · intro key sols hk
          rw [Std.HashMap.getElem?_insert] at hk
          split at hk
          · rename_i he
            have he' := eq_of_beq he
            simp only [Option.some.injEq] at hk
            subst hk
            rw [← he']
            refine ⟨hcs.1, fun lc hlc' => ?_⟩
            have : some lineChildren = some lc := hlc.symm.trans hlc'
            cases this
            exact hcs.2
          · exact this.1 _ _ hk
        · simp only [Option.some.injEq] at hb
          subst hb
          exact ⟨hopts o ho, hcs.1, hcs.2⟩

/-- every starting option of `find_optimal_child_lines_solution` derives its whitespace from the starting whitespace of
    the parent solution -/
theorem startingOptionsOf_optionFrom (O : Olf) (lineChildren : LineChildren) (firstChild : LineA)
    (W : LineWhitespace) (sc : Nat) (stack : SpecificContextStack) (node : FormattingNode) :
    ∀ o ∈ (startingOptionsOf O lineChildren firstChild W sc stack node).toList, OptionFrom W o := by
  unfold startingOptionsOf
  extract_lets childStartingWs getFirstChildToken parentBaseWs parentIndentedWs mustBreakFirstChild parentTokenType
    brokenOrChild
  have hA : OptionFrom W .continueAll := Or.inl rfl
  have hB1 : OptionFrom W (.breakAll childStartingWs) := Or.inr ⟨by simp [ChildLineOption.startingWs, childStartingWs, LineWhitespace.add], by simp [ChildLineOption.startingWs, childStartingWs, LineWhitespace.add], by simp [ChildLineOption.startingWs, childStartingWs]⟩
  have hB2 : OptionFrom W (.breakAll parentBaseWs) := Or.inr ⟨rfl, Nat.le_refl _, Nat.le_refl _⟩
  have hB3 : OptionFrom W (.breakAll parentIndentedWs) := Or.inr ⟨rfl, Nat.le_refl _, Nat.zero_le _⟩
  have hC2 : OptionFrom W (.continueThenBreak parentBaseWs) := Or.inr ⟨rfl, Nat.le_refl _, Nat.le_refl _⟩
  clear_value childStartingWs parentBaseWs parentIndentedWs mustBreakFirstChild parentTokenType brokenOrChild
    getFirstChildToken
  dsimp only
  repeat' with_reducible apply opts_ite
  all_goals first
    | (intro o ho; simp only [Potentials.toList, List.mem_cons, List.not_mem_nil, or_false] at ho <;>
       first
         | (rcases ho with rfl | rfl <;> assumption)
         | (subst ho; assumption)
         | exact ho.elim)
    | (repeat' split
       all_goals (intro o ho; simp only [Potentials.toList, List.mem_cons, List.not_mem_nil, or_false] at ho <;>
                  first
                    | (rcases ho with rfl | rfl <;> assumption)
                    | (subst ho; assumption)
                    | exact ho.elim))

/-- `find_optimal_child_lines_solution`: every list of child solutions it offers is well placed for an option
    derived from `W`, and `ChildrenFrom` holds: it is empty, or made for exactly the child lines of a record of
    `O.lineChildren`, and under `BeginCond` that option is "break before every child line at `W`'s indentation" -/
theorem findOptimalChildLinesSolution_ok' (O : Olf) (solve : Solver) (hK : SolverKey O solve) (hT : SolverOk' O solve)
    (cache : ChildLineCache) (line : Nat × LineA) (nli : Nat) (W : LineWhitespace) (decision : DecisionRef)
    (stack : SpecificContextStack) (node : FormattingNode) (tll pc : Nat) (hc : CacheOk' O cache) :
    CacheOk' O (O.findOptimalChildLinesSolution solve cache line nli W decision stack node tll pc).2 ∧
    ∀ sols ∈ (O.findOptimalChildLinesSolution solve cache line nli W decision stack node tll pc).1.toList,
      ∃ option, OptionFrom W option ∧ ChildListOk' O option sols ∧ ChildrenFrom O W option sols := by
  rw [findOptimalChildLinesSolution_eq]
  have hnil : ∀ sols ∈ (Potentials.one ([] : List (Nat × FormattingSolution))).toList,
      ∃ option, OptionFrom W option ∧ ChildListOk' O option sols ∧ ChildrenFrom O W option sols := by
    intro sols hs
    simp only [Potentials.toList, List.mem_singleton] at hs
    subst hs
    exact ⟨.continueAll, Or.inl rfl, ChildListOk'.nil O _, Or.inl rfl⟩
  split
  · exact ⟨hc, hnil⟩
  · rename_i lineChildren hlc
    split
    · exact ⟨hc, hnil⟩
    · rename_i firstChild hfc
      generalize (findContinuationsForTokenIndex lineChildren.parentToken line.2.tokens nli decision).getD pc = sc
      by_cases hb : BeginCond O lineChildren
      · have := childLinesOfOptions_ok' O solve hK hT
          (fun o => OptionFrom W o ∧ o = .breakAll { whitespace := W, deindent := 1 }) cache _ lineChildren tll
          (startingOptionsOf O lineChildren firstChild W sc stack node)
          (fun o ho => ⟨startingOptionsOf_optionFrom O lineChildren firstChild W sc stack node o ho,
            startingOptionsOf_begin_always_wrap O lineChildren firstChild W sc stack node hb.1 hb.2.1 hb.2.2 o ho⟩)
          hlc hc
        refine ⟨this.1, fun sols hs => ?_⟩
        obtain ⟨o, ⟨h1, h2⟩, h3, h4⟩ := this.2 sols hs
        exact ⟨o, h1, h3, Or.inr ⟨_, lineChildren, hlc, h4, fun _ => h2⟩⟩
      · have := childLinesOfOptions_ok' O solve hK hT (OptionFrom W) cache _ lineChildren tll
          (startingOptionsOf O lineChildren firstChild W sc stack node)
          (startingOptionsOf_optionFrom O lineChildren firstChild W sc stack node) hlc hc
        refine ⟨this.1, fun sols hs => ?_⟩
        obtain ⟨o, h1, h3, h4⟩ := this.2 sols hs
        exact ⟨o, h1, h3, Or.inr ⟨_, lineChildren, hlc, h4, fun h => absurd h hb⟩⟩

/-! ### the nodes of the search -/

/-- all decisions on the path of a node satisfy `DecOk'` -/
def NodeOk' (O : Olf) (W : LineWhitespace) (n : FormattingNode) : Prop :=
  n.startingWs = W ∧ ∀ d ∈ n.decision.walkParentsData, DecOk' O W d

theorem NodeOk'.of_sd {O : Olf} {W : LineWhitespace} {a b : FormattingNode} (h : a.sd = b.sd) (hb : NodeOk' O W b) :
    NodeOk' O W a := by
  have h1 : a.startingWs = b.startingWs := congrArg Prod.fst h
  have h2 : a.decision = b.decision := congrArg Prod.snd h
  unfold NodeOk'; rw [h1, h2]; exact hb

/-- the solver of the child lines of a search environment does what `find_optimal_solution` does (strengthened) -/
def EnvOk' (E : SearchEnv) : Prop := SolverKey E.O E.solveChild ∧ SolverOk' E.O E.solveChild

/-- `get_potential_solution` keeps the invariants of the cache and of the nodes -/
theorem getPotentialSolution_ok' (E : SearchEnv) (hE : EnvOk' E) (W : LineWhitespace) (cache : ChildLineCache)
    (n : FormattingNode) (contexts : SpecificContextStack) (rd : RawDecision) (req : DR)
    (hc : CacheOk' E.O cache) (hn : NodeOk' E.O W n) :
    CacheOk' E.O (E.getPotentialSolution cache n contexts rd req).2 ∧
    ∀ x ∈ (E.getPotentialSolution cache n contexts rd req).1.toList, NodeOk' E.O W x := by
  unfold SearchEnv.getPotentialSolution
  extract_lets lineIndex n1 cc dec tll n2 gnn
  have h1 : n1.sd = n.sd := blind_updateContexts FormattingNode.sd sd_modifyData _ _ _ _
  have h2 : n2.sd = n.sd := h1
  have hn2 : NodeOk' E.O W n2 := NodeOk'.of_sd h2 hn
  have hg : ∀ cs, DecOk' E.O W { requirement := req, decision := dec, lastLineLength := tll, childSolutions := cs } →
      NodeOk' E.O W (gnn n2 cs) := by
    intro cs hd
    have h3 : (updateContextsFromChildSolutions contexts n2 cs).sd = n2.sd :=
      blind_updateContextsFromChildSolutions FormattingNode.sd sd_modifyData _ _ _
    have h4 : (updateContextsFromChildSolutions contexts n2 cs).startingWs = n2.startingWs := congrArg Prod.fst h3
    have h5 : (updateContextsFromChildSolutions contexts n2 cs).decision = n2.decision := congrArg Prod.snd h3
    refine ⟨h4.trans hn2.1, ?_⟩
    show ∀ d ∈ ((updateContextsFromChildSolutions contexts n2 cs).decision.addSuccessor _).walkParentsData, _
    rw [h5]
    intro d hd'
    simp only [DecisionRef.addSuccessor, DecisionRef.walkParentsData, List.mem_cons] at hd'
    rcases hd' with rfl | hd'
    · exact hd
    · exact hn2.2 d (by simp only [DecisionRef.walkParentsData, List.mem_cons]; exact hd')
  have hf := findOptimalChildLinesSolution_ok' E.O E.solveChild hE.1 hE.2 cache E.line n2.nextLineIndex n2.startingWs
    n2.decision contexts n2 tll cc hc
  generalize E.O.findOptimalChildLinesSolution _ _ _ _ _ _ _ _ _ _ = r at hf ⊢
  rw [hn2.1] at hf
  obtain ⟨cls, c⟩ := r
  refine ⟨hf.1, ?_⟩
  cases cls with
  | none => intro x hx; simp [Potentials.toList] at hx
  | one a =>
    intro x hx; simp [Potentials.toList] at hx; subst hx
    exact hg a (hf.2 a (by simp [Potentials.toList]))
  | two a b =>
    intro x hx; simp [Potentials.toList] at hx
    rcases hx with rfl | rfl
    · exact hg a (hf.2 a (by simp [Potentials.toList]))
    · exact hg b (hf.2 b (by simp [Potentials.toList]))

/-! ### the loops, for any invariant of the cache and of the nodes that `get_potential_solution` keeps -/

/-- the inner loop of `get_successors`, for any invariant of the cache and of the nodes kept by `get_potential_solution` -/
theorem indiffLoop_gen (E : SearchEnv) (C : ChildLineCache → Prop) (N : FormattingNode → Prop)
    (hg : ∀ cache n contexts rd req, C cache → N n → C (E.getPotentialSolution cache n contexts rd req).2 ∧
      ∀ x ∈ (E.getPotentialSolution cache n contexts rd req).1.toList, N x) :
    ∀ (fuel : Nat) (cache : ChildLineCache) (bp : Array Nat) (node : FormattingNode)
      (indiff : Option (FormattingNode × SpecificContextStack)),
      C cache → N node → (∀ p, indiff = some p → N p.1) →
      (E.indiffLoop fuel cache bp node indiff).1.All (N) ∧
      C (E.indiffLoop fuel cache bp node indiff).2.1 := by
  intro fuel
  induction fuel with
  | zero => intro cache bp node indiff hc hn hi; exact ⟨trivial, hc⟩
  | succ f ih =>
    intro cache bp node indiff hc hn hi
    -- two calls of `get_potential_solution` in a row (break, then continue) from the same node
    have hpair : ∀ (c : ChildLineCache) (n : FormattingNode) (st : SpecificContextStack) (req : DR)
        (pre : List FormattingNode), C c → N n → (∀ x ∈ pre, N x) →
        (∀ x ∈ pre ++ (E.getPotentialSolution c n st .brk req).1.toList ++
          (E.getPotentialSolution (E.getPotentialSolution c n st .brk req).2 n st .cont req).1.toList, N x) ∧
        C (E.getPotentialSolution (E.getPotentialSolution c n st .brk req).2 n st .cont req).2 := by
      intro c n st req pre hcc hnn hpre
      obtain ⟨a1, a2⟩ := hg c n st .brk req hcc hnn
      obtain ⟨b1, b2⟩ := hg _ n st .cont req a1 hnn
      refine ⟨fun x hx => ?_, b1⟩
      simp only [List.mem_append] at hx
      rcases hx with (hx | hx) | hx
      · exact hpre x hx
      · exact a2 x hx
      · exact b2 x hx
    unfold SearchEnv.indiffLoop
    extract_lets lineIndex contexts ltl lcl lll tooLong requirement getSolutions continueWith indifferenceLine
    have hcw : ∀ c il l, C c → (∀ p, il = some p → N p.1) → (∀ x ∈ l, N x) →
        (continueWith c il l).1.All (N) ∧ C (continueWith c il l).2.1 := by
      intro c il l hcc hil hl
      simp only [continueWith]
      split
      · exact ih _ _ _ _ hcc (hl _ (by simp)) hil
      · split
        · rename_i indiff' stack
          have hk : N indiff' := hil _ rfl
          exact hpair c indiff' stack requirement l hcc hk hl
        · exact ⟨hl, hcc⟩
    clear_value tooLong requirement lineIndex contexts
    split
    · rename_i indiff' stack hif
      have hk : N indiff' := by
        split at hif
        · exact hi _ hif
        · cases hif
      extract_lets stack'
      have := hpair cache indiff' stack' .indifferent [] hc hk (by simp)
      simpa [IndiffOutcome.All] using this
    · split
      · exact ⟨hn, hc⟩
      · split
        · -- invalid
          split
          · rename_i indiff' stack _
            have hk : N indiff' := hi _ rfl
            have := hpair cache indiff' stack .invalid [] hc hk (by simp)
            simpa [getSolutions, IndiffOutcome.All] using this
          · exact ⟨trivial, hc⟩
        · -- mustBreak
          obtain ⟨a1, a2⟩ := hg cache node contexts .brk .mustBreak hc hn
          have hfold : ∀ (l : List FormattingNode) (acc : List FormattingNode × Array Nat), (∀ x ∈ l, N x) →
              (∀ x ∈ acc.1, N x) → ∀ x ∈ (l.foldl (fun (acc : List FormattingNode × Array Nat) (node : FormattingNode) =>
                if node.penalty < acc.2[lineIndex]! then (acc.1 ++ [node], acc.2.set! lineIndex node.penalty)
                else acc) acc).1, N x := by
            intro l
            induction l with
            | nil => intro acc _ ha; exact ha
            | cons y r ihl =>
              intro acc hl ha
              rw [List.foldl_cons]
              apply ihl _ (fun x hx => hl x (by simp [hx]))
              split
              · intro x hx
                simp only [List.mem_append, List.mem_singleton] at hx
                rcases hx with hx | rfl
                · exact ha x hx
                · exact hl _ (by simp)
              · exact ha
          have := hfold (getSolutions cache RawDecision.brk node contexts).1.toList ([], bp) a2 (by simp)
          exact ⟨this, a1⟩
        · obtain ⟨a1, a2⟩ := hg cache node contexts .cont .mustNotBreak hc hn
          exact hcw _ _ _ a1 hi a2
        · obtain ⟨a1, a2⟩ := hg cache node contexts .cont .indifferent hc hn
          refine hcw _ _ _ a1 ?_ a2
          intro p hp
          simp only [indifferenceLine] at hp
          split at hp
          · cases hp; exact hn
          · exact hi _ hp
/-- `get_successors` / the push onto the heap, for any invariant kept by `get_potential_solution` -/
theorem successorLoop_gen (E : SearchEnv) (C : ChildLineCache → Prop) (N : FormattingNode → Prop)
    (hg : ∀ cache n contexts rd req, C cache → N n → C (E.getPotentialSolution cache n contexts rd req).2 ∧
      ∀ x ∈ (E.getPotentialSolution cache n contexts rd req).1.toList, N x) :
    ∀ (fuel : Nat) (heap : NodeHeap) (cache : ChildLineCache) (bp : Array Nat) (node : FormattingNode),
      HAll (N) heap → C cache → N node →
      HAll (N) (E.successorLoop fuel heap cache bp node).1 ∧
      C (E.successorLoop fuel heap cache bp node).2.1 := by
  intro fuel
  induction fuel with
  | zero => intro heap cache bp node H hc hn; exact ⟨H, hc⟩
  | succ f ih =>
    intro heap cache bp node H hc hn
    unfold SearchEnv.successorLoop
    have hi := indiffLoop_gen E C N hg (E.line.2.tokens.size + 2) cache bp node none hc hn (by simp)
    split
    · rename_i n' c' bp' heq
      rw [heq] at hi
      exact ⟨heapPush_all _ _ H hi.1, hi.2⟩
    · rename_i c' bp' heq
      rw [heq] at hi
      exact ⟨H, hi.2⟩
    · rename_i single c' bp' heq
      rw [heq] at hi
      exact ih _ _ _ _ H hi.2 (hi.1 single (by simp))
    · rename_i l c' bp' _ heq
      rw [heq] at hi
      exact ⟨heapExtend_all _ _ H hi.1, hi.2⟩

/-- the main loop of the search, for any invariant kept by `get_potential_solution`: the solution returned is a
    node satisfying the node invariant, turned into a solution -/
theorem nodeHeapLoop_gen (E : SearchEnv) (C : ChildLineCache → Prop) (N : FormattingNode → Prop)
    (hg : ∀ cache n contexts rd req, C cache → N n → C (E.getPotentialSolution cache n contexts rd req).2 ∧
      ∀ x ∈ (E.getPotentialSolution cache n contexts rd req).1.toList, N x) :
    ∀ (fuel : Nat) (heap : NodeHeap) (cache : ChildLineCache) (bp : Array Nat) (it : Nat),
      HAll (N) heap → C cache →
      C (E.nodeHeapLoop fuel heap cache bp it).2 ∧
      ∀ sol, (E.nodeHeapLoop fuel heap cache bp it).1 = .ok sol →
        ∃ node : FormattingNode, N node ∧ sol = node.intoSolution := by
  intro fuel
  induction fuel with
  | zero => intro heap cache bp it H hc; exact ⟨hc, fun sol h => by simp [SearchEnv.nodeHeapLoop] at h⟩
  | succ f ih =>
    intro heap cache bp it H hc
    unfold SearchEnv.nodeHeapLoop
    split
    · exact ⟨hc, fun sol h => by simp at h⟩
    · rename_i node heap' hp
      obtain ⟨hn, H'⟩ := heapPop_all heap H node heap' hp
      split
      · exact ⟨hc, fun sol h => by simp at h⟩
      · simp only []
        split
        · refine ⟨hc, fun sol h => ?_⟩
          simp only [Except.ok.injEq] at h
          exact ⟨node, hn, h.symm⟩
        · split
          · exact ih _ _ _ _ H' hc
          · have := successorLoop_gen E C N hg (E.line.2.tokens.size + 2) heap' cache bp node H' hc hn
            exact ih _ _ _ _ this.1 this.2

/-- a node all of whose decisions satisfy `DecOk'` gives a solution satisfying `TreeOk'` -/
theorem NodeOk'.intoSolution {O : Olf} {W : LineWhitespace} {n : FormattingNode} (h : NodeOk' O W n) :
    TreeOk' O n.intoSolution := by
  rw [treeOk'_iff]
  intro d hd
  have hd' : d ∈ n.decision.walkParentsData := by
    simpa [FormattingNode.intoSolution, FormattingSolution.decisions] using hd
  have : n.intoSolution.startingWs = W := h.1
  rw [this]
  exact h.2 d hd'

/-- one level of `find_optimal_solution` (child lines solved by `solve`) keeps the strengthened cache invariant and
    returns solutions satisfying `TreeOk'` -/
theorem findOptimalSolutionWith_ok' (O : Olf) (solve : Solver) (hK : SolverKey O solve) (hT : SolverOk' O solve)
    (cache : ChildLineCache) (ws : LineWhitespace) (lineIdx : Nat) (fd : FirstDecision) (hc : CacheOk' O cache) :
    CacheOk' O (O.findOptimalSolutionWith solve cache ws lineIdx fd).2 ∧
    ∀ sol, (O.findOptimalSolutionWith solve cache ws lineIdx fd).1 = .ok sol → TreeOk' O sol := by
  unfold Olf.findOptimalSolutionWith
  extract_lets lineA line fc E bp inv ics
  have hE : EnvOk' E := ⟨hK, hT⟩
  split
  · refine ⟨hc, fun sol h => ?_⟩
    simp only [Except.ok.injEq] at h
    subst h
    rw [treeOk'_iff]
    intro d hd
    simp [FormattingSolution.decisions] at hd
  · rename_i t0 ht0
    extract_lets tl sb cl
    split
    rename_i newLine req lll bcb hq
    split
    · exact ⟨hc, fun sol h => by simp at h⟩
    · extract_lets root node0 node src1 src2 withChildren
      have hnode : node.sd = (ws, root) := by
        simp only [node]
        apply sd_ite
        · rw [sd_modifyData]; rfl
        · rfl
      have hws : node.startingWs = ws := congrArg Prod.fst hnode
      have hdec : node.decision = root := congrArg Prod.snd hnode
      have hf := findOptimalChildLinesSolution_ok' O solve hK hT cache line 0 node.startingWs root ics node lll 0 hc
      generalize O.findOptimalChildLinesSolution _ _ _ _ _ _ _ _ _ _ = r at hf ⊢
      rw [hws] at hf
      obtain ⟨childSols, cache1⟩ := r
      have hwc : ∀ cs ∈ childSols.toList, NodeOk' O ws (withChildren cs) := by
        intro cs hcs
        refine ⟨hws, ?_⟩
        intro d hd
        have : d = { decision := newLine, requirement := req, childSolutions := cs, lastLineLength := lll } := by
          simp only [withChildren, src1, src2, hdec, DecisionRef.walkParentsData] at hd
          simpa [root] using hd
        subst this
        exact hf.2 cs hcs
      clear_value withChildren node
      have fin : ∀ initial : List FormattingNode, (∀ x ∈ initial, NodeOk' O ws x) →
          CacheOk' O (E.nodeHeapLoop (O.iterationMax + 3) (heapExtend #[] initial) cache1 bp 0).2 ∧
          ∀ sol, (E.nodeHeapLoop (O.iterationMax + 3) (heapExtend #[] initial) cache1 bp 0).1 = .ok sol → TreeOk' O sol := by
        intro initial hinit
        have hheap : HAll (NodeOk' O ws) (heapExtend #[] initial) :=
          heapExtend_all #[] initial (fun i hi => absurd hi (Nat.not_lt_zero i)) hinit
        have := nodeHeapLoop_gen E (CacheOk' O) (NodeOk' O ws) (getPotentialSolution_ok' E hE ws) (O.iterationMax + 3) _ cache1 bp 0 hheap hf.1
        refine ⟨this.1, fun sol h => ?_⟩
        obtain ⟨nd, h1, rfl⟩ := this.2 sol h
        exact h1.intoSolution
      cases childSols with
      | none => exact fin [] (by simp)
      | one a =>
        refine fin [withChildren a] ?_
        intro x hx; simp only [List.mem_singleton] at hx; subst hx; exact hwc _ (by simp [Potentials.toList])
      | two a b =>
        refine fin [withChildren b, withChildren b] ?_
        intro x hx; simp only [List.mem_cons, List.not_mem_nil, or_false, or_self] at hx; subst hx
        exact hwc _ (by simp [Potentials.toList])


/-- `find_optimal_solution`, at every depth of the recursion over child lines, keeps the strengthened cache invariant
    and returns solutions satisfying `TreeOk'` -/
theorem findOptimalSolution_ok' (O : Olf) : ∀ fuel : Nat, SolverOk' O (O.findOptimalSolution fuel)
  | 0 => fun cache ws li fd hc => ⟨hc, fun sol h => by simp [Olf.findOptimalSolution] at h⟩
  | fuel + 1 => fun cache ws li fd hc => by
    unfold Olf.findOptimalSolution
    exact findOptimalSolutionWith_ok' O _ (findOptimalSolution_solverKey O fuel) (findOptimalSolution_ok' O fuel)
      cache ws li fd hc

/-- `format_line`: the solution it returns satisfies `TreeOk'` - at every depth, each decision's child solutions are
    well placed by one option, are the solutions of exactly the child lines of a record of `O.lineChildren`, and for a
    record satisfying `BeginCond` (children of `else`/`then`/`do`/case-arm colon starting with `begin`, with
    `begin_style = always_wrap`) that option is "break before every child line, at the parent's indentation" (read it
    with `begin_always_wrap`); and the cache keeps its invariant -/
theorem format_line_begin_always_wrap (O : Olf) (cache : ChildLineCache) (lineIdx : Nat) (hc : CacheOk' O cache) :
    CacheOk' O (O.formatLine cache lineIdx).2 ∧ ∀ sol, (O.formatLine cache lineIdx).1 = some sol → TreeOk' O sol := by
  unfold Olf.formatLine
  split
  · exact ⟨hc, fun sol h => by simp at h⟩
  · rename_i line hl
    split
    · exact ⟨hc, fun sol h => by simp at h⟩
    · extract_lets fd
      have := findOptimalSolution_ok' O (O.lines.size + 1) cache { indentations := line.level, continuations := 0 } lineIdx fd hc
      split
      · rename_i s c hs
        rw [hs] at this
        refine ⟨this.1, fun sol h => ?_⟩
        simp only [Option.some.injEq] at h
        subst h
        exact this.2 _ rfl
      · rename_i e c hs
        rw [hs] at this
        exact ⟨this.1, fun sol h => by simp at h⟩

/-- the empty cache satisfies the strengthened invariant -/
theorem cacheOk'_empty (O : Olf) : CacheOk' O {} := by
  intro key sols h
  simp at h


/-! ### reading the statement -/

/-- `TreeOk'` is hereditary: it holds for every child solution of every decision -/
theorem TreeOk'.child {O : Olf} {sol : FormattingSolution} (h : TreeOk' O sol) {d : TokenDecision}
    (hd : d ∈ sol.decisions) {p : Nat} {x : Nat × FormattingSolution} (hx : d.childSolutions[p]? = some x) :
    TreeOk' O x.2 := by
  obtain ⟨o, h1, h2, h3⟩ := (treeOk'_iff O sol).mp h d hd
  exact h2.2 x (List.mem_of_getElem? hx)

/-- `begin_style = always_wrap`, in the solution the search returns (`format_line_begin_always_wrap` gives `TreeOk'`
    for it, and `TreeOk'.child` for every solution nested in it): the child solutions of a decision `d` are all
    placed by one option derived from the solution's starting whitespace; and either there are none, or they are the
    solutions of exactly the child lines of a record `lc` of `O.lineChildren`, and if `lc` hangs off `else`, `then`,
    `do` or the colon of a case arm and its first child line starts with `begin`, then that option is "break before
    every child line, at the parent's indentation": the first child solution (the `begin` line) starts with the parent
    solution's indentations plus its own level minus one, the parent solution's continuations, and its first decision
    is a break with no continuation (unless it must not be broken off its predecessor: `rootDec`) -/
theorem begin_always_wrap {O : Olf} {sol : FormattingSolution} (h : TreeOk' O sol) {d : TokenDecision}
    (hd : d ∈ sol.decisions) :
    ∃ option, OptionFrom sol.startingWs option ∧
      (∀ p x, d.childSolutions[p]? = some x → ChildSolOk O option p x ∧ TreeOk' O x.2) ∧
      (d.childSolutions = [] ∨ ∃ key lc, O.lineChildren.get? key = some lc ∧
        d.childSolutions.map (·.1) = lc.lineIndices.toList ∧
        (BeginCond O lc → option = .breakAll { whitespace := sol.startingWs, deindent := 1 } ∧
          ∀ x, d.childSolutions[0]? = some x →
            x.2.startingWs = { indentations := sol.startingWs.indentations + (O.lines[x.1]!).level - 1,
                               continuations := sol.startingWs.continuations } ∧
            ((O.lines[x.1]!).tokens[0]?.isSome →
              (x.2.decisions.head?).map (·.decision) = some (rootDec O (O.lines[x.1]!) .brk)))) := by
  obtain ⟨o, h1, h2, h3⟩ := (treeOk'_iff O sol).mp h d hd
  refine ⟨o, h1, fun p x hx => ⟨h2.1 p x hx, h2.2 x (List.mem_of_getElem? hx)⟩, ?_⟩
  rcases h3 with h3 | ⟨key, lc, a, b, c⟩
  · exact Or.inl h3
  · refine Or.inr ⟨key, lc, a, b, fun hb => ?_⟩
    have ho := c hb
    subst ho
    refine ⟨rfl, fun x hx => ?_⟩
    obtain ⟨e1, e2⟩ := h2.1 0 x hx
    exact ⟨by rw [e1]; rfl, fun hne => by rw [e2 hne]; rfl⟩

/-- under `BeginCond`, the first child solution exists and is the solution of a line whose first token is `begin` -/
theorem begin_always_wrap_first {O : Olf} {lc : LineChildren} (hb : BeginCond O lc)
    {sols : List (Nat × FormattingSolution)} (hm : sols.map (·.1) = lc.lineIndices.toList) :
    ∃ x t, sols[0]? = some x ∧ lc.lineIndices[0]? = some x.1 ∧ (O.lines[x.1]!).tokens[0]? = some t ∧
      O.getTokenType t = some (.tKeyword .kBegin) := by
  have hf := hb.2.2
  unfold firstChildTokenType at hf
  cases h0 : lc.lineIndices[0]? with
  | none => simp [h0] at hf
  | some i =>
    cases hl : O.lines[i]? with
    | none => simp [h0, hl] at hf
    | some l =>
      cases ht : l.tokens[0]? with
      | none => simp [h0, hl, ht] at hf
      | some t =>
        simp only [h0, hl, ht, Option.bind_some] at hf
        have h1 : (sols.map (·.1))[0]? = some i := by rw [hm]; simpa using h0
        rw [List.getElem?_map] at h1
        cases hs : sols[0]? with
        | none => rw [hs] at h1; simp at h1
        | some x =>
          rw [hs] at h1
          simp only [Option.map_some, Option.some.injEq] at h1
          refine ⟨x, t, rfl, by rw [h1], ?_, hf⟩
          rw [h1, getElem!_of_getElem? _ _ _ hl]
          exact ht

/-! ### the same statements for another view of the tokens -/

/-- two formatter states the strengthened invariants cannot tell apart: same lines, same token types, same records of
    child lines, same configuration -/
def SameView' (O O' : Olf) : Prop := SameView O O' ∧ O'.lineChildren = O.lineChildren ∧ O'.cfg = O.cfg

theorem SameView'.refl (O : Olf) : SameView' O O := ⟨SameView.refl O, rfl, rfl⟩
theorem SameView'.symm {O O' : Olf} (h : SameView' O O') : SameView' O' O := ⟨h.1.symm, h.2.1.symm, h.2.2.symm⟩
theorem SameView'.trans {O O' O'' : Olf} (h : SameView' O O') (h' : SameView' O' O'') : SameView' O O'' :=
  ⟨h.1.trans h'.1, h'.2.1.trans h.2.1, h'.2.2.trans h.2.2⟩

theorem BeginCond.congr {O O' : Olf} (h : SameView' O O') {lc : LineChildren} (hb : BeginCond O lc) :
    BeginCond O' lc := by
  unfold BeginCond firstChildTokenType Olf.breakBeforeBegin at hb ⊢
  rw [h.2.2, h.1.1]
  simp only [h.1.2]
  exact hb

theorem ChildrenFrom.congr {O O' : Olf} (h : SameView' O O') {W : LineWhitespace} {option : ChildLineOption}
    {sols : List (Nat × FormattingSolution)} (hc : ChildrenFrom O W option sols) : ChildrenFrom O' W option sols := by
  rcases hc with hc | ⟨key, lc, a, b, c⟩
  · exact Or.inl hc
  · exact Or.inr ⟨key, lc, by rw [h.2.1]; exact a, b, fun hb => c (hb.congr h.symm)⟩

theorem TreeOk'.congr {O O' : Olf} (h : SameView' O O') {sol : FormattingSolution} (hs : TreeOk' O sol) :
    TreeOk' O' sol := by
  induction hs with
  | mk ws decs pen len h1 hrec ih =>
    refine TreeOk'.mk ws decs pen len (fun d hd => ?_) ih
    obtain ⟨o, a, b, c⟩ := h1 d hd
    exact ⟨o, a, fun p x hx => (b p x hx).congr h.1, c.congr h⟩

theorem CacheOk'.congr {O O' : Olf} (h : SameView' O O') {cache : ChildLineCache} (hc : CacheOk' O cache) :
    CacheOk' O' cache := by
  intro key sols hk
  obtain ⟨⟨a, b⟩, c⟩ := hc key sols hk
  refine ⟨⟨fun p x hx => (a p x hx).congr h.1, fun x hx => (b x hx).congr h⟩, ?_⟩
  rw [h.2.1]
  exact c

theorem stageOlf_sameView' (st st' : SearchState) (ft ft' : FT) (hl : st'.lines = st.lines)
    (hlc : st'.lineChildren = st.lineChildren) (hcfg : st'.cfg = st.cfg)
    (hk : ∀ j, kindAt ft' j = kindAt ft j) : SameView' (stageOlf st ft) (stageOlf st' ft') :=
  ⟨stageOlf_sameView st st' ft ft' hl hk, hlc, by show st'.cfg = st.cfg; exact hcfg⟩

/-! ### the wrapper stage -/

/-- an applied solution `(phase, line, solution)` is the image of a search solution that starts with the line's level
    and satisfies the strengthened invariant `TreeOk'` -/
def SolOk' (O : Olf) (x : Nat × Nat × Sol) : Prop :=
  ∃ sol : FormattingSolution, x.2.2 = sol.toSol (O.lines.size + 1) ∧ TreeOk' O sol ∧
    sol.startingWs = { indentations := (O.lines[x.2.1]!).level, continuations := 0 }

/-- the loop of the wrapper stage over the lines to wrap keeps the view, the cache invariant, and applies only
    solutions satisfying `SolOk'` -/
theorem applyLinesS_begin (phase : Nat) (lines : List Line) (O0 : Olf) (is : List Nat) (st st1 : SearchState)
    (ft ft1 : FT) (acc sols : List (Nat × Nat × Sol))
    (h : applyLinesS phase lines is st ft acc = some (ft1, st1, sols))
    (hv : SameView' O0 (stageOlf st ft)) (hc : CacheOk' O0 st.childLineCache) (hacc : ∀ x ∈ acc, SolOk' O0 x) :
    SameView' O0 (stageOlf st1 ft1) ∧ CacheOk' O0 st1.childLineCache ∧ ∀ x ∈ sols, SolOk' O0 x := by
  induction is generalizing st ft acc with
  | nil => simp [applyLinesS] at h; obtain ⟨rfl, rfl, rfl⟩ := h; exact ⟨hv, hc, hacc⟩
  | cons i rest ih =>
    unfold applyLinesS at h
    have hfl := format_line_begin_always_wrap (stageOlf st ft) st.childLineCache i (hc.congr hv)
    rw [searchSolve_eq] at h
    split at h
    · rename_i st' hs
      simp only [Prod.mk.injEq] at hs
      obtain ⟨_, rfl⟩ := hs
      exact ih _ _ _ h hv (hfl.1.congr hv.symm) hacc
    · rename_i s st' hs
      simp only [Prod.mk.injEq] at hs
      obtain ⟨hs1, rfl⟩ := hs
      split at h
      · simp at h
      · rename_i ft' ha
        have hv' : SameView' O0 (stageOlf { st with childLineCache := ((stageOlf st ft).formatLine st.childLineCache i).2 } ft') :=
          hv.trans (stageOlf_sameView' _ _ _ _ rfl rfl rfl (fun j => applySol_kindAt lines ft ft' s i ha j))
        refine ih _ _ _ h hv' (hfl.1.congr hv.symm) ?_
        intro x hx
        simp only [List.mem_append, List.mem_singleton] at hx
        rcases hx with hx | rfl
        · exact hacc x hx
        · cases hsol : ((stageOlf st ft).formatLine st.childLineCache i).1 with
          | none => rw [hsol] at hs1; simp at hs1
          | some sol =>
            rw [hsol] at hs1
            simp only [Option.map_some, Option.some.injEq] at hs1
            refine ⟨sol, ?_, (hfl.2 sol hsol).congr hv.symm, ?_⟩
            · show s = sol.toSol (O0.lines.size + 1)
              rw [← hs1, ← hv.1.1]; rfl
            · show sol.startingWs = { indentations := (O0.lines[i]!).level, continuations := 0 }
              rw [← hv.1.1]
              cases hl : (stageOlf st ft).lines[i]? with
              | none =>
                exfalso
                have : (stageOlf st ft).formatLine st.childLineCache i = (none, st.childLineCache) := by
                  unfold Olf.formatLine; rw [hl]
                rw [this] at hsol; cases hsol
              | some line =>
                have h1 := format_line_starting_ws (stageOlf st ft) st.childLineCache _ i line sol hl
                  (Prod.ext hsol rfl)
                rw [h1, getElem!_of_getElem? _ _ _ hl]

/-- THE WRAPPER STAGE, SEARCH INCLUDED, `begin_style = always_wrap`: every solution the stage applies - first wrapping
    and re-wrapping - is the image of a search solution that starts with the line's level and no continuation and
    satisfies `TreeOk'`: at every depth, the child solutions of a decision are the solutions of exactly the child lines
    of a record of `lineChildren`, and when that record hangs off `else`/`then`/`do`/case-arm colon and its first
    child line starts with `begin`, they were placed by "break before every child line, at the indentation of the
    parent solution" (read it with `begin_always_wrap` and `begin_always_wrap_first`) -/
theorem wrapStageFull_begin_always_wrap (cfg : Config) (lines : List Line) (ft ftz : FT) (sols : List (Nat × Nat × Sol))
    (h : wrapStageFull cfg lines ft = some (ftz, sols)) :
    ∀ x ∈ sols, SolOk' (stageOlf (searchInit cfg lines ft) ft) x := by
  unfold wrapStageFull at h
  simp only [] at h
  split at h
  · simp at h
  · rename_i ft1 st1 sols1 h1
    obtain ⟨a1, b1, c1⟩ := applyLinesS_begin 0 lines (stageOlf (searchInit cfg lines ft) ft) _ _ _ _ _ _ _ h1
      (SameView'.refl _) (cacheOk'_empty _) (by simp)
    split at h
    · simp only [Option.some.injEq, Prod.mk.injEq] at h
      obtain ⟨_, rfl⟩ := h
      exact c1
    · split at h
      · simp at h
      · rename_i ft2 toReflow h2
        split at h
        · simp at h
        · rename_i ft3 st3 sols2 h3
          split at h
          · simp at h
          · simp only [Option.some.injEq, Prod.mk.injEq] at h
            obtain ⟨_, rfl⟩ := h
            have hv2 : SameView' (stageOlf (searchInit cfg lines ft) ft) (stageOlf st1 ft2) :=
              a1.trans (stageOlf_sameView' _ _ _ _ rfl rfl rfl (fun j => (mlsPass1_at _ _ _ _ _ _ _ h2 j).1))
            exact (applyLinesS_begin 1 lines _ _ _ _ _ _ _ _ h3 hv2 b1 c1).2.2

/-- the strengthened statement about an applied solution implies the one of `SearchChildLines` -/
theorem SolOk'.toSolOk {O : Olf} {x : Nat × Nat × Sol} (h : SolOk' O x) : SolOk O x := by
  obtain ⟨sol, a, b, c⟩ := h
  exact ⟨sol, a, b.toTreeOk, c⟩

/-- in the formatter state of the wrapper stage, `break_before_begin` is the configuration's `begin_style = always_wrap` -/
theorem stageOlf_breakBeforeBegin (cfg : Config) (lines : List Line) (ft : FT) :
    (stageOlf (searchInit cfg lines ft) ft).breakBeforeBegin = cfg.searchCfg.beginAlwaysWrap := rfl

end Pasfmt
