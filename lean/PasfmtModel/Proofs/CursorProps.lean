import PasfmtModel.Model.Cursor
import PasfmtModel.Model.Contracts

namespace Pasfmt

theorem replicateBytes_length (n : Nat) (s : Bytes) : (replicateBytes n s).length = n * s.length := by
  unfold replicateBytes
  induction n with
  | zero => simp
  | succ k ih => rw [List.replicate_succ, List.flatten_cons, List.length_append, ih, Nat.succ_mul]; omega

/-- no safety-net newline is inserted in front of this token -/
def noNetHere (mb : Bool) (t : FTok) : Bool :=
  !(mb && !(t.tok.kind == .tEof) &&
      (if t.fmt.ignored then !containsByte 0x0A t.tok.ws else t.fmt.nl == 0))

theorem gapOf_length (S : Settings) (t : FTok) (mb : Bool) (h : noNetHere mb t = true) :
    (gapOf S t mb).length = wsLen S t := by
  unfold noNetHere at h
  unfold gapOf wsLen nonbreakingWsLen
  by_cases hig : t.fmt.ignored = true
  · simp only [hig, if_true] at h ⊢
    have : (mb && !containsByte 0x0A t.tok.ws && !(t.tok.kind == .tEof)) = false := by
      cases mb <;> cases h1 : containsByte 0x0A t.tok.ws <;> cases h2 : (t.tok.kind == .tEof) <;> simp_all
    simp [this]
  · simp only [hig] at h ⊢
    have : (mb && t.fmt.nl == 0 && !(t.tok.kind == .tEof)) = false := by
      cases mb <;> cases h1 : (t.fmt.nl == 0) <;> cases h2 : (t.tok.kind == .tEof) <;> simp_all
    simp only [this]
    simp [replicateBytes_length]
    rw [Nat.mul_comm t.fmt.nl]; omega

theorem isSingleLineCommentK_eq (k : Kind) : isSingleLineCommentK k = isSingleLineComment k := by
  unfold isSingleLineCommentK isSingleLineComment
  cases k <;> simp
  rename_i c; cases c <;> rfl

theorem noSafetyNetGo_cons (mb : Bool) (t : FTok) (r : FT) :
    noSafetyNetGo mb (t :: r) = (noNetHere mb t && noSafetyNetGo (isSingleLineComment t.tok.kind) r) := by
  rw [noSafetyNetGo, isSingleLineCommentK_eq]; rfl

/-- `offset_for_token` is the true offset of the token's text in the reconstructed output,
    whenever no safety-net newline was inserted (the function does not count it) -/
theorem offset_for_token_spec (S : Settings) (ft : FT) (mb : Bool) (k : Nat) (t : FTok)
    (hk : ft[k]? = some t) (hsn : noSafetyNetGo mb ft = true) :
    ∃ A B, reconGo S mb ft = A ++ t.tok.content ++ B ∧ A.length = offsetForToken S ft k := by
  induction ft generalizing mb k with
  | nil => simp at hk
  | cons x r ih =>
    rw [noSafetyNetGo_cons, Bool.and_eq_true] at hsn
    cases k with
    | zero =>
      simp at hk; subst hk
      refine ⟨gapOf S x mb, reconGo S (isSingleLineComment x.tok.kind) r, by rw [reconGo], ?_⟩
      rw [offsetForToken, gapOf_length S x mb hsn.1]
    | succ j =>
      simp at hk
      obtain ⟨A, B, hAB, hA⟩ := ih _ j hk hsn.2
      refine ⟨gapOf S x mb ++ x.tok.content ++ A, B, ?_, ?_⟩
      · rw [reconGo, hAB]; simp [List.append_assoc]
      · rw [offsetForToken, List.length_append, List.length_append, gapOf_length S x mb hsn.1, hA]

/-- total length of the output without safety-net newlines -/
theorem reconGo_length (S : Settings) (ft : FT) (mb : Bool) (hsn : noSafetyNetGo mb ft = true) :
    (reconGo S mb ft).length = offsetForToken S ft ft.length := by
  induction ft generalizing mb with
  | nil => rfl
  | cons x r ih =>
    rw [noSafetyNetGo_cons, Bool.and_eq_true] at hsn
    rw [reconGo, List.length_cons, offsetForToken, List.length_append, List.length_append,
        gapOf_length S x mb hsn.1, ih _ hsn.2]

theorem processCursorGo_idx (idx rem : Nat) (seen raw : List RawTok) (ic : ICursor)
    (h : processCursorGo idx rem seen raw = some ic) : idx ≤ ic.tokIdx ∧ ic.tokIdx < idx + raw.length := by
  induction raw generalizing idx rem seen with
  | nil => simp [processCursorGo] at h
  | cons t r ih =>
    unfold processCursorGo at h
    split at h
    · split at h
      · split at h <;> (simp at h; subst h; simp)
      · simp at h; subst h; simp
    · have := ih _ _ _ h
      simp; omega

/-- a cursor beyond the end of the input is attached to "no token" -/
theorem processCursor_past_end (raw : List RawTok) (c : Nat)
    (h : c > (raw.map RawTok.strLen).sum) : processCursor raw c = { tokIdx := raw.length, pos := .content 0 } := by
  unfold processCursor
  suffices hg : ∀ (idx : Nat) (seen : List RawTok) (rem : Nat) (l : List RawTok),
      rem > (l.map RawTok.strLen).sum → processCursorGo idx rem seen l = none by
    rw [hg 0 [] c raw h]
  intro idx seen rem l
  induction l generalizing idx seen rem with
  | nil => intro _; rfl
  | cons t r ih =>
    intro hr
    simp only [List.map_cons, List.sum_cons] at hr
    unfold processCursorGo
    rw [if_neg (by omega)]
    exact ih _ _ _ (by omega)

/-- such a cursor is reported at the end of the output (the last token is the end-of-file token,
    whose content is empty) -/
theorem relocate_past_end (S : Settings) (ft : FT) (last : FTok) (hl : ft.getLast? = some last)
    (hc : last.tok.content = [])
    (hsn : noSafetyNetGo false ft = true) (hsmall : (reconstruct S ft).length < 4294967296) :
    relocate S ft { tokIdx := ft.length, pos := .content 0 } = some (reconstruct S ft).length := by
  unfold relocate
  have hnone : ft[ft.length]? = none := by simp
  simp only [hnone, hl]
  have hlen := reconGo_length S ft false hsn
  unfold reconstruct at hsmall ⊢
  rw [hlen] at hsmall ⊢
  simp only [asU32, hc, List.length_nil, Nat.zero_mod, Nat.min_self, Nat.add_zero]
  rw [Nat.mod_mod, Nat.mod_eq_of_lt hsmall]

end Pasfmt
