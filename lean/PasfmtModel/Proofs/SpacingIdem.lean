/-
  `TokenSpacing` is a fixpoint on its own result: applying the rule to tokens that already carry the
  spacing it computed changes nothing (for every kind sequence and every original spacing).
-/
import PasfmtModel.Proofs.SpacingLayout
import PasfmtModel.Proofs.SpacingLe

namespace Pasfmt

/-- a rule either ignores the current/next spacing altogether, or is the generic "at most one" rule -/
theorem spacingRule_cases (k : Kind) (p pr nx : Option Kind) :
    (∀ c n, spacingRule k p pr nx c n = spacingRule k p pr nx 0 none) ∨
    (∀ c n, spacingRule k p pr nx c n = (some (min c 1), n.map (min · 1))) := by
  unfold spacingRule
  split <;> first
    | (left; intro c n; rfl)
    | (right; intro c n; rfl)

/-- pair every kind with the new spacing -/
def respace : List (Kind × Nat) → List Nat → List (Kind × Nat)
  | (k, _) :: r, v :: vs => (k, v) :: respace r vs
  | _, _ => []

theorem spacingGo_idem (prev prevReal : Option Kind) (c : Nat) (l : List (Kind × Nat)) :
    ∀ c2, (c2 = c ∨ ∃ v vs, spacingGo prev prevReal c l = v :: vs ∧ c2 = v) →
      spacingGo prev prevReal c2 (respace l (spacingGo prev prevReal c l)) = spacingGo prev prevReal c l := by
  induction l generalizing prev prevReal c with
  | nil => intro c2 _; simp [spacingGo, respace]
  | cons x rest ih =>
    obtain ⟨k, a⟩ := x
    intro c2 hc2
    cases rest with
    | nil =>
      -- last token
      have h1 : spacingGo prev prevReal c [(k, a)] = [(spacingRule k prev prevReal none c none).1.getD c] := by
        unfold spacingGo; simp
      rw [h1]
      simp only [respace]
      have h2 : ∀ c', spacingGo prev prevReal c' [(k, (spacingRule k prev prevReal none c none).1.getD c)] =
          [(spacingRule k prev prevReal none c' none).1.getD c'] := by
        intro c'; unfold spacingGo; simp
      rw [h2]
      congr 1
      rcases spacingRule_cases k prev prevReal none with hA | hB
      · rw [hA c2 none, hA c none]
        cases hv : (spacingRule k prev prevReal none 0 none).1 with
        | some v => simp
        | none =>
          simp only [Option.getD_none]
          rcases hc2 with h | ⟨v, vs, hv', hc⟩
          · exact h
          · rw [h1] at hv'
            simp only [List.cons.injEq] at hv'
            rw [hc, ← hv'.1, hA c none, hv]; simp
      · rw [hB c2 none, hB c none]
        simp only [Option.getD_some]
        rcases hc2 with h | ⟨v, vs, hv', hc⟩
        · rw [h]
        · rw [h1] at hv'
          simp only [List.cons.injEq] at hv'
          rw [hc, ← hv'.1, hB c none]
          simp only [Option.getD_some]; omega
    | cons y rest' =>
      obtain ⟨k', a'⟩ := y
      -- unfold the first run
      have hrun : spacingGo prev prevReal c ((k, a) :: (k', a') :: rest') =
          (spacingRule k prev prevReal (some k') c (some a')).1.getD c ::
            spacingGo (some k) (if k.isCommentOrDirective then prevReal else some k)
              (nextCur (spacingRule k prev prevReal (some k') c (some a')).2 k' a') ((k', a') :: rest') := by
        rw [spacingGo.eq_def]; simp
      generalize hs1 : nextCur (spacingRule k prev prevReal (some k') c (some a')).2 k' a' = s1 at hrun
      -- the tail of the first run is non-empty: name its head
      have htail : ∃ v' vs', spacingGo (some k) (if k.isCommentOrDirective then prevReal else some k) s1
          ((k', a') :: rest') = v' :: vs' := by
        rw [spacingGo.eq_def]; cases rest' <;> exact ⟨_, _, rfl⟩
      obtain ⟨v', vs', hvs⟩ := htail
      -- the head of the tail is at most 1 when it was started from a value at most 1
      have hv'le : s1 ≤ 1 → v' ≤ 1 := by
        intro hs
        have hmem : v' ∈ spacingGo (some k) (if k.isCommentOrDirective then prevReal else some k) s1 ((k', a') :: rest') := by
          rw [hvs]; simp
        rw [spacingGo.eq_def] at hmem
        simp only at hmem
        have hrule := spacingRule_le_one k' (some k) (if k.isCommentOrDirective then prevReal else some k)
          (rest'.head?.map (·.1)) s1 (rest'.head?.map (·.2))
        have hhead : v' = (spacingRule k' (some k) (if k.isCommentOrDirective then prevReal else some k)
            (rest'.head?.map (·.1)) s1 (rest'.head?.map (·.2))).1.getD s1 := by
          have := hvs
          rw [spacingGo.eq_def] at this
          cases rest' <;> simp at this <;> exact this.1.symm
        rw [hhead]
        cases h1 : (spacingRule k' (some k) (if k.isCommentOrDirective then prevReal else some k)
            (rest'.head?.map (·.1)) s1 (rest'.head?.map (·.2))).1 with
        | none => simpa using hs
        | some v => have := hrule.1; rw [h1] at this; simpa [OptLe1] using this
      rw [hrun, hvs]
      simp only [respace]
      -- second run on the respaced list
      rw [spacingGo.eq_def]
      simp only [List.head?_cons, Option.map_some]
      -- first components agree
      have hfirst : (spacingRule k prev prevReal (some k') c2 (some v')).1.getD c2 =
          (spacingRule k prev prevReal (some k') c (some a')).1.getD c := by
        rcases spacingRule_cases k prev prevReal (some k') with hA | hB
        · rw [hA c2 (some v'), hA c (some a')]
          cases hv : (spacingRule k prev prevReal (some k') 0 none).1 with
          | some v => simp
          | none =>
            simp only [Option.getD_none]
            rcases hc2 with h | ⟨v, vs, hv', hc⟩
            · exact h
            · rw [hrun, hvs] at hv'
              simp only [List.cons.injEq] at hv'
              rw [hc, ← hv'.1, hA c (some a'), hv]; simp
        · rw [hB c2 (some v'), hB c (some a')]
          simp only [Option.getD_some]
          rcases hc2 with h | ⟨v, vs, hv', hc⟩
          · rw [h]
          · rw [hrun, hvs] at hv'
            simp only [List.cons.injEq] at hv'
            rw [hc, ← hv'.1, hB c (some a')]
            simp only [Option.getD_some]; omega
      rw [hfirst]
      congr 1
      -- the tail: apply the induction hypothesis with the right start value
      have key := ih (some k) (if k.isCommentOrDirective then prevReal else some k) s1
        (nextCur (spacingRule k prev prevReal (some k') c2 (some v')).2 k' v') ?_
      · rw [hvs] at key
        simp only [respace] at key
        exact key
      · -- the second run's start value is the first run's, or the first run's result for that token
        rcases spacingRule_cases k prev prevReal (some k') with hA | hB
        · rw [hA c2 (some v')]
          rw [hA c (some a')] at hs1
          unfold nextCur at hs1 ⊢
          cases hav : (spacingRule k prev prevReal (some k') 0 none).2 with
          | some av =>
            rw [hav] at hs1
            simp only at hs1 ⊢
            split
            · right; exact ⟨v', vs', hvs, rfl⟩
            · rename_i hne
              left
              simp only [hne, Bool.false_eq_true, if_false] at hs1
              exact hs1
          | none => right; exact ⟨v', vs', hvs, rfl⟩
        · rw [hB c2 (some v')]
          rw [hB c (some a')] at hs1
          unfold nextCur at hs1 ⊢
          simp only [Option.map_some] at hs1 ⊢
          split
          · right; exact ⟨v', vs', hvs, rfl⟩
          · rename_i hne
            right
            refine ⟨v', vs', hvs, ?_⟩
            simp only [hne, Bool.false_eq_true, if_false] at hs1
            have := hv'le (by omega)
            omega


/-- the spacing of the tokens after the first does not depend on the first token's start value -/
theorem spacingGo_tail_cur (prev prevReal : Option Kind) (c c' : Nat) (l : List (Kind × Nat)) :
    (spacingGo prev prevReal c l).tail = (spacingGo prev prevReal c' l).tail := by
  cases l with
  | nil => rfl
  | cons x rest =>
    obtain ⟨k, a⟩ := x
    cases rest with
    | nil => rw [spacingGo.eq_def, spacingGo.eq_def]; rfl
    | cons y rest' =>
      obtain ⟨k', a'⟩ := y
      rw [spacingGo.eq_def, spacingGo.eq_def (cur := c')]
      simp only [List.head?_cons, Option.map_some, List.tail_cons]
      rcases spacingRule_cases k prev prevReal (some k') with hA | hB
      · rw [hA c (some a'), hA c' (some a')]
      · rw [hB c (some a'), hB c' (some a')]

/-- the stored spacing of the first token is not read (its start value is passed separately) -/
theorem spacingGo_head_value (prev prevReal : Option Kind) (c : Nat) (k : Kind) (a a' : Nat) (rest : List (Kind × Nat)) :
    spacingGo prev prevReal c ((k, a) :: rest) = spacingGo prev prevReal c ((k, a') :: rest) := by
  conv => lhs; rw [spacingGo.eq_def]
  conv => rhs; rw [spacingGo.eq_def]

/-- **`TokenSpacing` is idempotent**: on tokens that carry the spacing it computed, it computes the
    same spacing again — for every sequence of kinds and every original spacing. -/
theorem spacingResult_idem (l : List (Kind × Nat)) :
    spacingResult (respace l (spacingResult l)) = spacingResult l := by
  cases l with
  | nil => rfl
  | cons x rest =>
    obtain ⟨k, a⟩ := x
    have hne : ∃ v vs, spacingGo none none a ((k, a) :: rest) = v :: vs := by
      rw [spacingGo.eq_def]; cases rest <;> exact ⟨_, _, rfl⟩
    obtain ⟨v, vs, hg⟩ := hne
    have hres : spacingResult ((k, a) :: rest) = 0 :: vs := by
      unfold spacingResult; simp only [hg]
    rw [hres]
    simp only [respace]
    unfold spacingResult
    simp only
    have hidem := spacingGo_idem none none a ((k, a) :: rest) v (Or.inr ⟨v, vs, hg, rfl⟩)
    rw [hg] at hidem
    simp only [respace] at hidem
    -- same list up to the unread head value, same tail up to the start value
    have h1 : spacingGo none none 0 ((k, 0) :: respace rest vs) = spacingGo none none 0 ((k, v) :: respace rest vs) :=
      spacingGo_head_value none none 0 k 0 v _
    have h2 := spacingGo_tail_cur none none 0 v ((k, v) :: respace rest vs)
    rw [hidem] at h2
    simp only [List.tail_cons] at h2
    rw [h1]
    cases hq : spacingGo none none 0 ((k, v) :: respace rest vs) with
    | nil =>
      rw [hq] at h2; simp at h2
      rw [spacingGo.eq_def] at hq
      cases hr : respace rest vs <;> rw [hr] at hq <;> simp at hq
    | cons q qs =>
      rw [hq] at h2
      simp only [List.tail_cons] at h2
      simp [h2]

end Pasfmt
