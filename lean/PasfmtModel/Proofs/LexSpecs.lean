/-
  Declarative specifications of the sub-lexers of `Model/Lexer.lean`, each proved for every input
  (induction on the text, no length bound):

  * identifiers: maximal munch over identifier bytes, cut before U+3000;
  * line comments: up to the first CR/LF or the end of the text;
  * block comments: up to and including the first closer, else to the end minus trailing blanks;
  * decimal / hex / binary numbers: longest prefix in the literal grammar;
  * text literals: a relational grammar of quoted segments and `#` escapes;
  * keyword lookup ignores ASCII letter case.

  The specifications are written with `List.takeWhile`, "first occurrence" and "longest prefix in a
  language" and do not follow the control structure of the model.
-/
import PasfmtModel.Proofs.ScanLemmas
import PasfmtModel.Proofs.LexBounds
import PasfmtModel.Proofs.LexLocal2
import PasfmtModel.Proofs.Keywords

namespace Pasfmt

/-! ## generic notions -/

/-- `n` is the length of the longest prefix of `l` that belongs to the language `L` -/
def LongestPrefixIn (L : Bytes → Prop) (l : Bytes) (n : Nat) : Prop :=
  n ≤ l.length ∧ L (l.take n) ∧ ∀ m, m ≤ l.length → L (l.take m) → m ≤ n

theorem LongestPrefixIn.unique {L : Bytes → Prop} {l : Bytes} {n m : Nat}
    (h1 : LongestPrefixIn L l n) (h2 : LongestPrefixIn L l m) : n = m := by
  have a := h1.2.2 m h2.1 h2.2.1
  have b := h2.2.2 n h1.1 h1.2.1
  omega

/-- the words all of whose bytes satisfy `p` -/
def AllBytes (p : UInt8 → Bool) (w : Bytes) : Prop := ∀ b ∈ w, p b = true

/-- `pat` occurs in `l` at offset `i` -/
def OccursAt (pat l : Bytes) (i : Nat) : Prop := pat <+: l.drop i

/-- `i` is the offset of the first occurrence of `pat` in `l` -/
def FirstOcc (pat l : Bytes) (i : Nat) : Prop := OccursAt pat l i ∧ ∀ j, j < i → ¬ OccursAt pat l j

theorem FirstOcc.unique {pat l : Bytes} {i j : Nat} (h1 : FirstOcc pat l i) (h2 : FirstOcc pat l j) : i = j := by
  rcases Nat.lt_trichotomy i j with h | h | h
  · exact absurd h1.1 (h2.2 i h)
  · exact h
  · exact absurd h2.1 (h1.2 j h)

theorem countWhile_eq_takeWhile (p : UInt8 → Bool) (l : Bytes) : countWhile p l = (l.takeWhile p).length := by
  induction l with
  | nil => simp [countWhile]
  | cons b r ih =>
    unfold countWhile
    by_cases h : p b = true
    · simp [h, ih]
    · simp [h]

theorem take_countWhile (p : UInt8 → Bool) (l : Bytes) : l.take (countWhile p l) = l.takeWhile p := by
  induction l with
  | nil => simp [countWhile]
  | cons b r ih =>
    unfold countWhile
    by_cases h : p b = true
    · simp [h, ih]
    · simp [h]

theorem drop_countWhile (p : UInt8 → Bool) (l : Bytes) : l.drop (countWhile p l) = l.dropWhile p := by
  induction l with
  | nil => simp [countWhile]
  | cons b r ih =>
    unfold countWhile
    by_cases h : p b = true
    · simp [h, ih]
    · simp [h]

theorem allBytes_take_le (p : UInt8 → Bool) (l : Bytes) (m : Nat) (hm : m ≤ l.length)
    (h : AllBytes p (l.take m)) : m ≤ countWhile p l := by
  induction l generalizing m with
  | nil => simp at hm; omega
  | cons b r ih =>
    cases m with
    | zero => omega
    | succ k =>
      have hb : p b = true := h b (by simp)
      rw [countWhile_pos p b r hb]
      have := ih k (by simpa using hm) (fun x hx => h x (by simp [hx]))
      omega

/-- **maximal munch for a byte class**: `countWhile p l` is the length of the longest prefix of `l`
    all of whose bytes satisfy `p` -/
theorem countWhile_longest (p : UInt8 → Bool) (l : Bytes) : LongestPrefixIn (AllBytes p) l (countWhile p l) := by
  refine ⟨countWhile_le p l, ?_, fun m hm h => allBytes_take_le p l m hm h⟩
  intro b hb
  obtain ⟨i, hi, rfl⟩ := List.getElem_of_mem hb
  simp only [List.length_take] at hi
  exact countWhile_all p l i (by omega) _ (by simp [List.getElem_take])

/-- `findIdx` finds the end of the longest prefix without a `p`-byte (or the end of the text) -/
theorem findIdx_getD_eq (p : UInt8 → Bool) (l : Bytes) :
    (findIdx p l).getD l.length = countWhile (fun b => !p b) l := by
  induction l with
  | nil => simp [findIdx, countWhile]
  | cons b r ih =>
    unfold findIdx countWhile
    by_cases h : p b = true
    · simp [h]
    · simp only [h, Bool.false_eq_true, if_false, Bool.not_false, if_true, List.length_cons]
      rw [← ih]
      cases findIdx p r <;> simp

/-! ### first occurrence search (`memchr`, `memmem`) -/

theorem occursAt_zero (pat l : Bytes) : OccursAt pat l 0 ↔ pat.isPrefixOf l = true := by
  simp [OccursAt, List.isPrefixOf_iff_prefix]

theorem occursAt_succ (pat : Bytes) (b : UInt8) (r : Bytes) (j : Nat) :
    OccursAt pat (b :: r) (j + 1) ↔ OccursAt pat r j := by
  simp [OccursAt]

theorem firstOcc_cons_of_not_prefix (pat : Bytes) (b : UInt8) (r : Bytes) (h : pat.isPrefixOf (b :: r) = false)
    (i : Nat) : FirstOcc pat (b :: r) i ↔ ∃ j, i = j + 1 ∧ FirstOcc pat r j := by
  constructor
  · intro ⟨ho, hmin⟩
    cases i with
    | zero => rw [occursAt_zero] at ho; simp [h] at ho
    | succ j =>
      refine ⟨j, rfl, (occursAt_succ pat b r j).1 ho, fun k hk hc => ?_⟩
      exact hmin (k + 1) (by omega) ((occursAt_succ pat b r k).2 hc)
  · rintro ⟨j, rfl, ho, hmin⟩
    refine ⟨(occursAt_succ pat b r j).2 ho, fun k hk hc => ?_⟩
    cases k with
    | zero => rw [occursAt_zero] at hc; simp [h] at hc
    | succ k' => exact hmin k' (by omega) ((occursAt_succ pat b r k').1 hc)

/-- `findSub` (memmem) returns the offset of the first occurrence -/
theorem findSub_some_iff (pat l : Bytes) (hp : pat ≠ []) (i : Nat) :
    findSub pat l = some i ↔ FirstOcc pat l i := by
  induction l generalizing i with
  | nil =>
    have : pat.isEmpty = false := by cases pat <;> simp_all
    simp only [findSub, this, Bool.false_eq_true, if_false]
    constructor
    · intro h; simp at h
    · intro ⟨ho, _⟩
      simp only [OccursAt, List.drop_nil, List.prefix_nil] at ho
      exact absurd ho hp
  | cons b r ih =>
    unfold findSub
    by_cases h : pat.isPrefixOf (b :: r) = true
    · simp only [h, if_true, Option.some.injEq]
      constructor
      · rintro rfl
        exact ⟨(occursAt_zero _ _).2 h, fun j hj => by omega⟩
      · intro hf
        exact FirstOcc.unique ⟨(occursAt_zero _ _).2 h, fun j hj => by omega⟩ hf
    · have h' : pat.isPrefixOf (b :: r) = false := (Bool.not_eq_true _).mp h
      simp only [h', Bool.false_eq_true, if_false, Option.map_eq_some_iff]
      rw [firstOcc_cons_of_not_prefix pat b r h']
      constructor
      · rintro ⟨j, hj, rfl⟩; exact ⟨j, rfl, (ih j).1 hj⟩
      · rintro ⟨j, rfl, hj⟩; exact ⟨j, (ih j).2 hj, rfl⟩

/-- `findSub` fails exactly when the pattern does not occur -/
theorem findSub_none_iff (pat l : Bytes) (hp : pat ≠ []) :
    findSub pat l = none ↔ ∀ j, ¬ OccursAt pat l j := by
  induction l with
  | nil =>
    have : pat.isEmpty = false := by cases pat <;> simp_all
    simp only [findSub, this, Bool.false_eq_true, if_false, true_iff]
    intro j ho
    simp only [OccursAt, List.drop_nil, List.prefix_nil] at ho
    exact hp ho
  | cons b r ih =>
    unfold findSub
    by_cases h : pat.isPrefixOf (b :: r) = true
    · simp only [h, if_true, reduceCtorEq, false_iff]
      intro hall
      exact hall 0 ((occursAt_zero _ _).2 h)
    · have h' : pat.isPrefixOf (b :: r) = false := (Bool.not_eq_true _).mp h
      simp only [h', Bool.false_eq_true, if_false, Option.map_eq_none_iff]
      rw [ih]
      constructor
      · intro hall j
        cases j with
        | zero => rw [occursAt_zero]; simp [h']
        | succ k => rw [occursAt_succ]; exact hall k
      · intro hall j
        have := hall (j + 1)
        rwa [occursAt_succ] at this

theorem findSub_cons_of_not_prefix (pat : Bytes) (b : UInt8) (r : Bytes) (h : pat.isPrefixOf (b :: r) = false) :
    findSub pat (b :: r) = (findSub pat r).map (· + 1) := by
  rw [findSub]; simp [h]

theorem findByte_eq_findSub (c : UInt8) (l : Bytes) : findByte c l = findSub [c] l := by
  induction l with
  | nil => simp [findByte, findSub]
  | cons b r ih =>
    unfold findByte findSub
    rw [ih]
    by_cases h : b = c
    · subst h; simp [List.isPrefixOf]
    · have : (c == b) = false := by simp; exact fun h' => h h'.symm
      simp [List.isPrefixOf, h, this]

/-! ## 1. identifiers -/

/-- a byte that may appear in an identifier: ASCII letter, digit, `_`, or any byte of a non-ASCII
    character (`≥ 0x80`) -/
def isIdentByte (b : UInt8) : Bool := isIdentAscii b || b ≥ 0x80

/-- UTF-8 encoding of U+3000 IDEOGRAPHIC SPACE, the only non-ASCII character that is a blank -/
def u3000 : Bytes := [0xE3, 0x80, 0x80]

/-- the first `n` bytes of `l` are identifier bytes and U+3000 starts at none of these positions -/
def IdentPrefix (l : Bytes) (n : Nat) : Prop :=
  ∀ i, i < n → (∃ b, l[i]? = some b ∧ isIdentByte b = true) ∧ ¬ OccursAt u3000 l i

theorem identPrefix_zero (l : Bytes) : IdentPrefix l 0 := fun i hi => by omega

theorem identPrefix_nil (n : Nat) : IdentPrefix [] n ↔ n = 0 := by
  constructor
  · intro h
    cases n with
    | zero => rfl
    | succ k => obtain ⟨⟨b, hb, _⟩, _⟩ := h 0 (by omega); simp at hb
  · rintro rfl; exact identPrefix_zero _

theorem identPrefix_cons (b : UInt8) (r : Bytes) (n : Nat) :
    IdentPrefix (b :: r) (n + 1) ↔ isIdentByte b = true ∧ ¬ u3000 <+: b :: r ∧ IdentPrefix r n := by
  constructor
  · intro h
    obtain ⟨⟨b', hb', hi⟩, hno⟩ := h 0 (by omega)
    simp only [List.getElem?_cons_zero, Option.some.injEq] at hb'
    subst hb'
    refine ⟨hi, by simpa [OccursAt] using hno, fun i hlt => ?_⟩
    obtain ⟨⟨c, hc, hci⟩, hno'⟩ := h (i + 1) (by omega)
    exact ⟨⟨c, by simpa using hc, hci⟩, fun ho => hno' ((occursAt_succ _ _ _ _).2 ho)⟩
  · rintro ⟨hb, hno, hr⟩ i hi
    cases i with
    | zero => exact ⟨⟨b, by simp, hb⟩, by simpa [OccursAt] using hno⟩
    | succ j =>
      obtain ⟨⟨c, hc, hci⟩, hno'⟩ := hr j (by omega)
      exact ⟨⟨c, by simpa using hc, hci⟩, fun ho => hno' ((occursAt_succ _ _ _ _).1 ho)⟩

theorem not_u3000_prefix_of_ne (b : UInt8) (r : Bytes)
    (hne : ∀ t : Bytes, b = 0xE3 → r = 0x80 :: 0x80 :: t → False) : ¬ u3000 <+: b :: r := by
  rintro ⟨t, ht⟩
  simp only [u3000, List.cons_append, List.nil_append, List.cons.injEq] at ht
  exact hne t ht.1.symm ht.2.symm

/-- **identifier scanning is maximal munch**: a length `n` is an identifier prefix of `l` (only
    identifier bytes, no U+3000 starting inside) exactly when `n ≤ identLen l`.  So `identLen l`
    is the greatest such length. -/
theorem identPrefix_iff (l : Bytes) (n : Nat) : IdentPrefix l n ↔ n ≤ identLen l := by
  induction l using identLen.induct generalizing n with
  | case1 => rw [identPrefix_nil]; simp [identLen]
  | case2 r =>
    simp only [identLen]
    constructor
    · intro h
      cases n with
      | zero => omega
      | succ k =>
        rw [identPrefix_cons] at h
        exact absurd ⟨r, rfl⟩ h.2.1
    · intro h
      have : n = 0 := by omega
      subst this; exact identPrefix_zero _
  | case3 b r hne h ih =>
    rw [identLen]
    · simp only [h, if_true]
      cases n with
      | zero => simp [identPrefix_zero]
      | succ k =>
        rw [identPrefix_cons, ih k]
        have h1 : isIdentByte b = true := h
        have h2 := not_u3000_prefix_of_ne b r hne
        simp [h1, h2]
    · exact hne
  | case4 b r hne h =>
    rw [identLen]
    · simp only [h, Bool.false_eq_true, if_false]
      constructor
      · intro hp
        cases n with
        | zero => omega
        | succ k =>
          rw [identPrefix_cons] at hp
          have : isIdentByte b = true := hp.1
          exact absurd this h
      · intro hle
        have : n = 0 := by omega
        subst this; exact identPrefix_zero _
    · exact hne

/-- where the identifier scan stops: at the end of the text, at a byte that is not an identifier
    byte, or right before U+3000 -/
theorem identLen_stop (l : Bytes) :
    identLen l = l.length ∨ (∃ b, l[identLen l]? = some b ∧ isIdentByte b = false) ∨
      OccursAt u3000 l (identLen l) := by
  by_cases hend : identLen l = l.length
  · exact Or.inl hend
  · have hle := identLen_le l
    have hlt : identLen l < l.length := by omega
    by_cases hu : OccursAt u3000 l (identLen l)
    · exact Or.inr (Or.inr hu)
    · refine Or.inr (Or.inl ⟨l[identLen l], by simp [hlt], ?_⟩)
      cases hb : isIdentByte l[identLen l] with
      | false => rfl
      | true =>
        exfalso
        have hp : IdentPrefix l (identLen l + 1) := by
          intro i hi
          by_cases hi' : i < identLen l
          · exact (identPrefix_iff l (identLen l)).2 (Nat.le_refl _) i hi'
          · have : i = identLen l := by omega
            subst this
            exact ⟨⟨_, by simp [hlt], hb⟩, hu⟩
        have := (identPrefix_iff l _).1 hp
        omega

/-- an independent closed form: the run of identifier bytes, cut at the first occurrence of
    U+3000 in the text -/
def identSpec (l : Bytes) : Nat :=
  min (l.takeWhile isIdentByte).length ((findSub u3000 l).getD l.length)

theorem identLen_eq_spec (l : Bytes) : identLen l = identSpec l := by
  unfold identSpec
  rw [← countWhile_eq_takeWhile]
  induction l using identLen.induct with
  | case1 => simp [identLen, countWhile, findSub, u3000]
  | case2 r =>
    simp only [identLen]
    have : findSub u3000 (0xE3 :: 0x80 :: 0x80 :: r) = some 0 := by
      unfold findSub; simp [u3000, List.isPrefixOf]
    rw [this]; simp
  | case3 b r hne h ih =>
    rw [identLen]
    · simp only [h, if_true]
      have h1 : isIdentByte b = true := h
      rw [countWhile_pos _ b r h1, ih]
      have hnp : u3000.isPrefixOf (b :: r) = false := by
        apply (Bool.not_eq_true _).mp
        intro hp
        exact not_u3000_prefix_of_ne b r hne (List.isPrefixOf_iff_prefix.1 hp)
      rw [findSub_cons_of_not_prefix _ _ _ hnp]
      simp only [List.length_cons]
      cases findSub u3000 r <;> simp <;> omega
    · exact hne
  | case4 b r hne h =>
    rw [identLen]
    · simp only [h, Bool.false_eq_true, if_false]
      have h1 : isIdentByte b = false := by simpa [isIdentByte] using h
      rw [countWhile_zero _ b r h1]; simp
    · exact hne

/-! ## 2. line comments -/

/-- a word without CR and LF -/
def NoLineBreak (w : Bytes) : Prop := ∀ b ∈ w, b ≠ 0x0A ∧ b ≠ 0x0D

theorem lineCommentEnd_eq (l : Bytes) :
    lineCommentEnd l = countWhile (fun b => !(b == 0x0A || b == 0x0D)) l := by
  unfold lineCommentEnd
  rw [← findIdx_getD_eq]
  cases findIdx (fun b => b == 0x0A || b == 0x0D) l <;> simp

theorem noLineBreak_iff (w : Bytes) : NoLineBreak w ↔ AllBytes (fun b => !(b == 0x0A || b == 0x0D)) w := by
  unfold NoLineBreak AllBytes
  constructor
  · intro h b hb; have := h b hb; simp [this.1, this.2]
  · intro h b hb; have := h b hb; simpa using this

/-- the body of a `//` comment is the longest prefix of the rest of the text without CR and LF -/
theorem lineCommentEnd_longest (l : Bytes) : LongestPrefixIn NoLineBreak l (lineCommentEnd l) := by
  rw [lineCommentEnd_eq]
  have h := countWhile_longest (fun b => !(b == 0x0A || b == 0x0D)) l
  refine ⟨h.1, (noLineBreak_iff _).2 h.2.1, fun m hm hL => h.2.2 m hm ((noLineBreak_iff _).1 hL)⟩

/-- … and it stops at the end of the text or at a CR / LF -/
theorem lineCommentEnd_stop (l : Bytes) :
    lineCommentEnd l = l.length ∨ l[lineCommentEnd l]? = some 0x0A ∨ l[lineCommentEnd l]? = some 0x0D := by
  rw [lineCommentEnd_eq]
  have hle := countWhile_le (fun b => !(b == 0x0A || b == 0x0D)) l
  by_cases h : countWhile (fun b => !(b == 0x0A || b == 0x0D)) l = l.length
  · exact Or.inl h
  · right
    have hlt : countWhile (fun b => !(b == 0x0A || b == 0x0D)) l < l.length := by omega
    have := countWhile_stop (fun b => !(b == 0x0A || b == 0x0D)) l _ (List.getElem?_eq_getElem hlt)
    rw [List.getElem?_eq_getElem hlt]
    simp only [Bool.not_eq_false', Bool.or_eq_true, beq_iff_eq] at this
    rcases this with h | h
    · left; rw [h]
    · right; rw [h]

theorem take_lineCommentEnd (l : Bytes) :
    l.take (lineCommentEnd l) = l.takeWhile (fun b => !(b == 0x0A || b == 0x0D)) := by
  rw [lineCommentEnd_eq, take_countWhile]

/-! ## 3. block comments -/

/-- the closing delimiter of the two kinds of block comment: `}` and `*)` -/
def closer : BlockCommentKind → Bytes
  | .brace => [0x7D]
  | .parenStar => [0x2A, 0x29]

theorem closer_ne_nil (k : BlockCommentKind) : closer k ≠ [] := by cases k <;> simp [closer]

/-- `find_block_comment_end` returns the offset just after the first occurrence of the closer -/
theorem findBlockCommentEnd_some_iff (k : BlockCommentKind) (l : Bytes) (e : Nat) :
    findBlockCommentEnd k l = some e ↔ ∃ i, e = i + (closer k).length ∧ FirstOcc (closer k) l i := by
  cases k with
  | parenStar =>
    simp only [findBlockCommentEnd, Option.map_eq_some_iff, closer]
    constructor
    · rintro ⟨i, hi, rfl⟩; exact ⟨i, rfl, (findSub_some_iff _ _ (by simp) i).1 hi⟩
    · rintro ⟨i, rfl, hi⟩; exact ⟨i, (findSub_some_iff _ _ (by simp) i).2 hi, rfl⟩
  | brace =>
    simp only [findBlockCommentEnd, Option.map_eq_some_iff, closer, findByte_eq_findSub]
    constructor
    · rintro ⟨i, hi, rfl⟩; exact ⟨i, rfl, (findSub_some_iff _ _ (by simp) i).1 hi⟩
    · rintro ⟨i, rfl, hi⟩; exact ⟨i, (findSub_some_iff _ _ (by simp) i).2 hi, rfl⟩

theorem findBlockCommentEnd_none_iff (k : BlockCommentKind) (l : Bytes) :
    findBlockCommentEnd k l = none ↔ ∀ j, ¬ OccursAt (closer k) l j := by
  cases k with
  | parenStar =>
    simp only [findBlockCommentEnd, Option.map_eq_none_iff, closer]
    exact findSub_none_iff _ _ (by simp)
  | brace =>
    simp only [findBlockCommentEnd, Option.map_eq_none_iff, closer, findByte_eq_findSub]
    exact findSub_none_iff _ _ (by simp)

/-- kind of a block comment: multi-line if its text contains a line feed, otherwise "individual"
    if it is the first token on its line, otherwise "inline" -/
def blockKindSpec (nlBefore : Bool) (body : Bytes) : CommentKind :=
  if 0x0A ∈ body then .cMultilineBlock else if nlBefore then .cIndividualBlock else .cInlineBlock

/-- declarative result of scanning a block comment whose text after the opener is `l`:
    `(token length, comment kind)`.  `openLen` = length of the opener, `tokLen` = number of bytes
    from the opener to the end of the text, `trim` = length of the blank run at the end of the text. -/
inductive BlockCommentSpec (kind : BlockCommentKind) (trim openLen tokLen : Nat) (nlBefore : Bool) (l : Bytes) :
    Nat × CommentKind → Prop
  /-- terminated: the token ends right after the first occurrence of the closer -/
  | closed (i : Nat) (h : FirstOcc (closer kind) l i) :
      BlockCommentSpec kind trim openLen tokLen nlBefore l
        (openLen + (i + (closer kind).length), blockKindSpec nlBefore (l.take (i + (closer kind).length)))
  /-- unterminated: the token runs to the end of the text minus the trailing blanks and is
      classified multi-line whatever it contains -/
  | unterminated (h : ∀ j, ¬ OccursAt (closer kind) l j) :
      BlockCommentSpec kind trim openLen tokLen nlBefore l (tokLen - trim, .cMultilineBlock)

theorem containsByte_iff (c : UInt8) (s : Bytes) : containsByte c s = true ↔ c ∈ s := by
  unfold containsByte
  rw [List.any_eq_true]
  constructor
  · rintro ⟨x, hx, hxc⟩; rw [beq_iff_eq] at hxc; subst hxc; exact hx
  · intro h; exact ⟨c, h, by simp⟩

theorem blockCommentKind_eq_spec (nlBefore : Bool) (body : Bytes) :
    blockCommentKind nlBefore (containsByte 0x0A body) = blockKindSpec nlBefore body := by
  unfold blockCommentKind blockKindSpec
  by_cases h : (0x0A : UInt8) ∈ body
  · simp [h, (containsByte_iff _ _).2 h]
  · have : containsByte 0x0A body = false := by
      apply (Bool.not_eq_true _).mp; rw [containsByte_iff]; exact h
    simp [h, this]

theorem blockComment_sat (trim : Nat) (kind : BlockCommentKind) (openLen tokLen : Nat) (nlBefore : Bool)
    (l : Bytes) :
    BlockCommentSpec kind trim openLen tokLen nlBefore l (blockComment trim kind openLen tokLen nlBefore l) := by
  unfold blockComment
  split
  · rename_i e he
    obtain ⟨i, rfl, hi⟩ := (findBlockCommentEnd_some_iff kind l e).1 he
    rw [blockCommentKind_eq_spec]
    exact .closed i hi
  · rename_i he
    exact .unterminated ((findBlockCommentEnd_none_iff kind l).1 he)

theorem BlockCommentSpec.unique {kind : BlockCommentKind} {trim openLen tokLen : Nat} {nlBefore : Bool}
    {l : Bytes} {x y : Nat × CommentKind}
    (hx : BlockCommentSpec kind trim openLen tokLen nlBefore l x)
    (hy : BlockCommentSpec kind trim openLen tokLen nlBefore l y) : x = y := by
  cases hx with
  | closed i hi =>
    cases hy with
    | closed j hj => rw [FirstOcc.unique hi hj]
    | unterminated h => exact absurd hi.1 (h i)
  | unterminated h =>
    cases hy with
    | closed j hj => exact absurd hj.1 (h j)
    | unterminated _ => rfl

/-! ## 6. keyword lookup ignores letter case -/

theorem wordKind_lower (w : Bytes) : wordKind (asciiLower w) = wordKind w := by
  rw [wordKind_eq_spec, wordKind_eq_spec]
  unfold keywordSpec
  rw [asciiLower_idem]

theorem wordKind_of_eqIgnoreCase (w v : Bytes) (h : eqIgnoreCase w v = true) : wordKind w = wordKind v := by
  rw [← wordKind_lower w, ← wordKind_lower v]
  unfold eqIgnoreCase at h
  rw [beq_iff_eq.1 h]

/-! ## 4. number literals -/

/-- `digit (digit | '_')*` -/
def IsDigitRun (w : Bytes) : Prop :=
  ∃ d ds, w = d :: ds ∧ isDigit d = true ∧ AllBytes isDecimalByte ds

/-- optional fraction: empty, or `'.' digit (digit | '_')*` -/
def IsFrac (w : Bytes) : Prop := w = [] ∨ ∃ v, w = 0x2E :: v ∧ IsDigitRun v

/-- optional exponent: empty, or `('e'|'E') ('+'|'-')? (digit (digit | '_')*)?` -/
def IsExp (w : Bytes) : Prop :=
  w = [] ∨ ∃ e sg v, w = e :: (sg ++ v) ∧ (e = 0x65 ∨ e = 0x45) ∧
    (sg = [] ∨ sg = [0x2B] ∨ sg = [0x2D]) ∧ (v = [] ∨ IsDigitRun v)

/-- the language of what may follow the first digit of a decimal literal:
    `(digit | '_')*  ('.' digit (digit|'_')*)?  (('e'|'E') ('+'|'-')? (digit (digit|'_')*)?)?` -/
def DecTail (w : Bytes) : Prop :=
  ∃ ip fr ex, w = ip ++ fr ++ ex ∧ AllBytes isDecimalByte ip ∧ IsFrac fr ∧ IsExp ex

theorem isDigit_decimal (d : UInt8) (h : isDigit d = true) : isDecimalByte d = true := by
  simp [isDecimalByte, h]

theorem isDigit_ne (d : UInt8) (h : isDigit d = true) : d ≠ 0x5F ∧ d ≠ 0x2B ∧ d ≠ 0x2D := by
  refine ⟨?_, ?_, ?_⟩ <;> (rintro rfl; revert h; decide)

theorem decimal_not_digit (d : UInt8) (h : isDecimalByte d = true) (hne : d ≠ 0x5F) : isDigit d = true := by
  simp only [isDecimalByte, Bool.or_eq_true, beq_iff_eq] at h
  rcases h with h | h
  · exact absurd h hne
  · exact h

theorem allBytes_append_le (p : UInt8 → Bool) (x rest : Bytes) (h : AllBytes p x) :
    x.length ≤ countWhile p (x ++ rest) :=
  allBytes_take_le p (x ++ rest) x.length (by simp) (by simpa using h)

theorem countWhile_append_stop (p : UInt8 → Bool) (x rest : Bytes) (h : AllBytes p x)
    (hs : ∀ b t, rest = b :: t → p b = false) : countWhile p (x ++ rest) = x.length := by
  induction x with
  | nil =>
    cases rest with
    | nil => simp [countWhile]
    | cons b t => simp [countWhile_zero p b t (hs b t rfl)]
  | cons a x ih =>
    rw [List.cons_append, countWhile_pos p a _ (h a (by simp)), ih (fun b hb => h b (by simp [hb]))]
    simp

/-- `count_full_decimal` consumes nothing or a digit run -/
theorem countFullDecimal_run (l : Bytes) :
    countFullDecimal l = 0 ∨ IsDigitRun (l.take (countFullDecimal l)) := by
  cases l with
  | nil => left; rfl
  | cons b t =>
    by_cases hb : b = 0x5F
    · subst hb; left; rfl
    · rw [countFullDecimal_cons_ne b t hb]
      by_cases hd : isDecimalByte b = true
      · right
        unfold countDecimal
        rw [countWhile_pos _ b t hd, List.take_succ_cons]
        exact ⟨b, _, rfl, decimal_not_digit b hd hb, (countWhile_longest isDecimalByte t).2.1⟩
      · left
        unfold countDecimal
        exact countWhile_zero _ b t ((Bool.not_eq_true _).mp hd)

/-- … and at least every digit run that starts the text -/
theorem digitRun_le (v rest : Bytes) (h : IsDigitRun v) : v.length ≤ countFullDecimal (v ++ rest) := by
  obtain ⟨d, ds, rfl, hd, hds⟩ := h
  rw [List.cons_append, countFullDecimal_cons_ne d _ (isDigit_ne d hd).1, ← List.cons_append]
  apply allBytes_append_le
  intro b hb
  rcases List.mem_cons.1 hb with rfl | hb
  · exact isDigit_decimal _ hd
  · exact hds b hb

theorem digitRun_eq (v rest : Bytes) (h : IsDigitRun v) (hs : ∀ b t, rest = b :: t → isDecimalByte b = false) :
    countFullDecimal (v ++ rest) = v.length := by
  obtain ⟨d, ds, rfl, hd, hds⟩ := h
  rw [List.cons_append, countFullDecimal_cons_ne d _ (isDigit_ne d hd).1, ← List.cons_append]
  apply countWhile_append_stop _ _ _ _ hs
  intro b hb
  rcases List.mem_cons.1 hb with rfl | hb
  · exact isDigit_decimal _ hd
  · exact hds b hb

theorem fracLenF_dot (r2 : Bytes) :
    fracLenF (0x2E :: r2) = if countFullDecimal r2 > 0 then 1 + countFullDecimal r2 else 0 := rfl

theorem fracLenF_not_dot (b : UInt8) (t : Bytes) (h : b ≠ 0x2E) : fracLenF (b :: t) = 0 := by
  unfold fracLenF
  split
  · rename_i heq; simp only [List.cons.injEq] at heq; exact absurd heq.1 h
  · rfl

theorem fracLenF_nil : fracLenF [] = 0 := rfl

theorem expLenF_e (e : UInt8) (r4 : Bytes) (he : e = 0x65 ∨ e = 0x45) :
    expLenF (e :: r4) =
      match r4 with
      | s :: r5 => if s == 0x2B || s == 0x2D then 2 + countFullDecimal r5 else 1 + countFullDecimal r4
      | [] => 1 := by
  rcases he with rfl | rfl <;> rfl

theorem expLenF_not_e (b : UInt8) (t : Bytes) (h1 : b ≠ 0x65) (h2 : b ≠ 0x45) : expLenF (b :: t) = 0 := by
  simp [expLenF, h1, h2]

theorem fracLenF_in (r1 : Bytes) : IsFrac (r1.take (fracLenF r1)) := by
  cases r1 with
  | nil => left; simp
  | cons b t =>
    by_cases hb : b = 0x2E
    · subst hb
      rw [fracLenF_dot]
      rcases countFullDecimal_run t with h0 | hrun
      · left; simp [h0]
      · by_cases hpos : countFullDecimal t > 0
        · right
          rw [if_pos hpos, Nat.add_comm, List.take_succ_cons]
          exact ⟨_, rfl, hrun⟩
        · left; simp [hpos]
    · left; simp [fracLenF_not_dot b t hb]

theorem expLenF_in (r3 : Bytes) : IsExp (r3.take (expLenF r3)) := by
  cases r3 with
  | nil => left; simp
  | cons e r4 =>
    by_cases he : e = 0x65 ∨ e = 0x45
    · right
      rw [expLenF_e e r4 he]
      cases r4 with
      | nil => exact ⟨e, [], [], by simp, he, Or.inl rfl, Or.inl rfl⟩
      | cons s r5 =>
        simp only
        by_cases hs : (s == 0x2B || s == 0x2D) = true
        · rw [if_pos hs]
          have hs' : s = 0x2B ∨ s = 0x2D := by simpa using hs
          refine ⟨e, [s], r5.take (countFullDecimal r5), ?_, he, ?_, ?_⟩
          · rw [show 2 + countFullDecimal r5 = (countFullDecimal r5 + 1) + 1 by omega]
            simp [List.take_succ_cons]
          · rcases hs' with rfl | rfl <;> simp
          · rcases countFullDecimal_run r5 with h0 | hrun
            · left; simp [h0]
            · right; exact hrun
        · rw [if_neg hs]
          refine ⟨e, [], (s :: r5).take (countFullDecimal (s :: r5)), ?_, he, Or.inl rfl, ?_⟩
          · rw [Nat.add_comm, List.take_succ_cons]; simp
          · rcases countFullDecimal_run (s :: r5) with h0 | hrun
            · left; simp [h0]
            · right; exact hrun
    · left
      have h1 : e ≠ 0x65 := fun h => he (Or.inl h)
      have h2 : e ≠ 0x45 := fun h => he (Or.inr h)
      simp [expLenF_not_e e r4 h1 h2]

/-- what `dec_number_literal` consumes after the first digit belongs to the grammar -/
theorem decNumberRest_in (r : Bytes) : DecTail (r.take (decNumberRest r)) := by
  rw [decNumberRest_eq, List.take_add, List.take_add]
  refine ⟨_, _, _, rfl, (countWhile_longest isDecimalByte r).2.1, fracLenF_in _, ?_⟩
  rw [← List.drop_drop]
  exact expLenF_in _

theorem expLenF_ge (ex rest : Bytes) (h : IsExp ex) : ex.length ≤ expLenF (ex ++ rest) := by
  rcases h with rfl | ⟨e, sg, v, rfl, he, hsg, hv⟩
  · simp
  · rw [List.cons_append, expLenF_e e _ he]
    rcases hsg with rfl | rfl | rfl
    · rcases hv with rfl | hv
      · cases rest with
        | nil => simp
        | cons s r5 => simp only [List.nil_append, List.length_cons, List.length_nil]; split <;> omega
      · have hle := digitRun_le v rest hv
        obtain ⟨d, ds, rfl, hd, hds⟩ := hv
        have hne := isDigit_ne d hd
        simp only [List.nil_append, List.cons_append, List.length_cons] at hle ⊢
        have : (d == 0x2B || d == 0x2D) = false := by simp [hne.2.1, hne.2.2]
        rw [this]
        simp only [Bool.false_eq_true, if_false]
        omega
    · simp only [List.cons_append, List.nil_append, List.length_cons]
      rcases hv with rfl | hv
      · simp
      · have := digitRun_le v rest hv
        simp
        omega
    · simp only [List.cons_append, List.nil_append, List.length_cons]
      rcases hv with rfl | hv
      · simp
      · have := digitRun_le v rest hv
        simp
        omega

theorem decNumberRest_cons (d : UInt8) (r : Bytes) (h : isDecimalByte d = true) :
    decNumberRest (d :: r) = decNumberRest r + 1 := by
  rw [decNumberRest_eq, decNumberRest_eq]
  have : countDecimal (d :: r) = countDecimal r + 1 := countWhile_pos _ d r h
  rw [this, List.drop_succ_cons]
  omega

theorem decNumberRest_of_head (b : UInt8) (t : Bytes) (h : isDecimalByte b = false) :
    decNumberRest (b :: t) = fracLenF (b :: t) + expLenF ((b :: t).drop (fracLenF (b :: t))) := by
  rw [decNumberRest_eq]
  have : countDecimal (b :: t) = 0 := countWhile_zero _ b t h
  rw [this]; simp

theorem decTail_le_nil (fr ex rest : Bytes) (hfr : IsFrac fr) (hex : IsExp ex) :
    fr.length + ex.length ≤ decNumberRest (fr ++ ex ++ rest) := by
  rcases hfr with rfl | ⟨v, rfl, hv⟩
  · -- no fraction
    rcases hex with rfl | ⟨e, sg, w, rfl, he, hsg, hw⟩
    · simp
    · have hge := expLenF_ge (e :: (sg ++ w)) rest (Or.inr ⟨e, sg, w, rfl, he, hsg, hw⟩)
      have hdec : isDecimalByte e = false := by rcases he with rfl | rfl <;> decide
      have hdot : e ≠ 0x2E := by rcases he with rfl | rfl <;> decide
      simp only [List.nil_append, List.cons_append] at hge ⊢
      rw [decNumberRest_of_head e _ hdec, fracLenF_not_dot e _ hdot]
      simp only [List.drop_zero, List.length_nil]
      omega
  · -- a fraction `.v`
    have hdot : isDecimalByte 0x2E = false := by decide
    simp only [List.cons_append]
    rw [decNumberRest_of_head _ _ hdot, fracLenF_dot]
    rcases hex with rfl | ⟨e, sg, w, rfl, he, hsg, hw⟩
    · have := digitRun_le v rest hv
      have hvpos : 0 < v.length := by obtain ⟨d, ds, rfl, _, _⟩ := hv; simp
      simp only [List.append_nil, List.length_cons, List.length_nil] at this ⊢
      rw [if_pos (by omega)]
      omega
    · have hdec : isDecimalByte e = false := by rcases he with rfl | rfl <;> decide
      have heq := digitRun_eq v (e :: (sg ++ w) ++ rest) hv (by
        intro b t hbt
        simp only [List.cons_append, List.cons.injEq] at hbt
        rw [← hbt.1]; exact hdec)
      have hvpos : 0 < v.length := by obtain ⟨d, ds, rfl, _, _⟩ := hv; simp
      rw [List.append_assoc, heq, if_pos hvpos]
      have hge := expLenF_ge (e :: (sg ++ w)) rest (Or.inr ⟨e, sg, w, rfl, he, hsg, hw⟩)
      have hdrop : (0x2E :: (v ++ (e :: (sg ++ w) ++ rest))).drop (1 + v.length) = e :: (sg ++ w) ++ rest := by
        rw [Nat.add_comm, List.drop_succ_cons]; simp
      rw [hdrop]
      simp only [List.length_cons] at hge ⊢
      omega

theorem decTail_le (ip fr ex rest : Bytes) (hip : AllBytes isDecimalByte ip) (hfr : IsFrac fr) (hex : IsExp ex) :
    ip.length + fr.length + ex.length ≤ decNumberRest (ip ++ fr ++ ex ++ rest) := by
  induction ip with
  | nil => simpa using decTail_le_nil fr ex rest hfr hex
  | cons d ip ih =>
    simp only [List.cons_append, List.length_cons]
    rw [decNumberRest_cons d _ (hip d (by simp))]
    have := ih (fun b hb => hip b (by simp [hb]))
    omega

/-- **decimal literals are maximal munch over the grammar**: what follows the first digit is the
    longest prefix of the remaining text that belongs to `DecTail` -/
theorem decNumberRest_longest (r : Bytes) : LongestPrefixIn DecTail r (decNumberRest r) := by
  refine ⟨decNumberRest_le r, decNumberRest_in r, ?_⟩
  rintro m hm ⟨ip, fr, ex, hsplit, hip, hfr, hex⟩
  have hr : r = ip ++ fr ++ ex ++ r.drop m := by rw [← hsplit, List.take_append_drop]
  have hlen : m = ip.length + fr.length + ex.length := by
    have := congrArg List.length hsplit
    simp only [List.length_take, List.length_append] at this
    omega
  have := decTail_le ip fr ex (r.drop m) hip hfr hex
  rw [← hr] at this
  omega

/-! ## 5. text literals -/

/-- the next byte (if any) does not satisfy `p` -/
def StopsAt (p : UInt8 → Bool) (rest : Bytes) : Prop := ∀ b t, rest = b :: t → p b = false

/-- a byte that ends a quoted segment: the quote, LF or CR -/
def isStrBreak (b : UInt8) : Bool := b == 0x27 || b == 0x0A || b == 0x0D

/-- a byte inside a quoted segment -/
def isStrBody (b : UInt8) : Bool := !isStrBreak b

/-- one well-formed item at the head of the text and its length: a quoted segment `'…'` on one
    line, or a character code `#` + digits/underscores, `#$` + hex digits, `#%` + binary digits
    (the digit runs are maximal) -/
inductive TextItem : Bytes → Nat → Prop
  | quoted (body rest : Bytes) (hb : AllBytes isStrBody body) :
      TextItem (0x27 :: (body ++ 0x27 :: rest)) (body.length + 2)
  | escDec (d : UInt8) (ds rest : Bytes) (hd : isDecimalByte d = true) (hds : AllBytes isDecimalByte ds)
      (hs : StopsAt isDecimalByte rest) : TextItem (0x23 :: d :: (ds ++ rest)) (ds.length + 2)
  | escHex (h : UInt8) (hs rest : Bytes) (hh : isHexByte h = true) (hhs : AllBytes isHexByte hs)
      (hst : StopsAt isHexByte rest) : TextItem (0x23 :: 0x24 :: h :: (hs ++ rest)) (hs.length + 3)
  | escBin (h : UInt8) (hs rest : Bytes) (hh : isBinaryByte h = true) (hhs : AllBytes isBinaryByte hs)
      (hst : StopsAt isBinaryByte rest) : TextItem (0x23 :: 0x25 :: h :: (hs ++ rest)) (hs.length + 3)

/-- a malformed item at the head of the text and how many bytes of it are kept: a quoted segment
    cut by the end of the line or of the text, a `#` without a code, `#$` / `#%` without digits -/
inductive BadTextItem : Bytes → Nat → Prop
  | quotedOpen (body rest : Bytes) (hb : AllBytes isStrBody body)
      (hr : rest = [] ∨ ∃ c t, rest = c :: t ∧ (c = 0x0A ∨ c = 0x0D)) :
      BadTextItem (0x27 :: (body ++ rest)) (body.length + 1)
  | escNone (rest : Bytes)
      (h : ∀ b t, rest = b :: t → isDecimalByte b = false ∧ b ≠ 0x24 ∧ b ≠ 0x25) : BadTextItem (0x23 :: rest) 1
  | escHexNone (rest : Bytes) (h : StopsAt isHexByte rest) : BadTextItem (0x23 :: 0x24 :: rest) 2
  | escBinNone (rest : Bytes) (h : StopsAt isBinaryByte rest) : BadTextItem (0x23 :: 0x25 :: rest) 2

/-- declarative result `(length, kind)` of scanning a single-line text literal: a maximal
    sequence of items; it ends (kind single-line) where the next byte is neither `'` nor `#`, or
    (kind unterminated) with the first malformed item -/
inductive TextItems : Bytes → Nat × TextLiteralKind → Prop
  | done (l : Bytes) (h : ∀ b t, l = b :: t → b ≠ 0x27 ∧ b ≠ 0x23) : TextItems l (0, .tSingleLine)
  | item (l : Bytes) (n m : Nat) (k : TextLiteralKind) (hi : TextItem l n) (hr : TextItems (l.drop n) (m, k)) :
      TextItems l (n + m, k)
  | bad (l : Bytes) (n : Nat) (hb : BadTextItem l n) : TextItems l (n, .tUnterminated)

/-- the model's loop with the fuel it is always called with -/
def tl (l : Bytes) : Nat × TextLiteralKind := textLiteralLoop (l.length + 1) l

def shiftTL (n : Nat) (x : Nat × TextLiteralKind) : Nat × TextLiteralKind := (n + x.1, x.2)

theorem esc_fuel (f1 f2 : Nat) (l : Bytes) (h1 : l.length < f1) (h2 : l.length < f2) :
    consumeEscapedChars f1 l = consumeEscapedChars f2 l := by
  induction f1 generalizing f2 l with
  | zero => omega
  | succ f1 ih =>
    cases f2 with
    | zero => omega
    | succ f2 =>
      by_cases hh : ∃ r, l = 0x23 :: r
      · obtain ⟨r, rfl⟩ := hh
        rw [consumeEscapedChars_succ_hash, consumeEscapedChars_succ_hash]
        cases he : consumeOneEscape r with
        | inl n =>
          have hb := consumeOneEscape_bounds r
          rw [he] at hb; simp only [sumN] at hb
          simp only
          rw [ih f2 _ (by simp only [List.length_drop, List.length_cons] at h1 ⊢; omega)
            (by simp only [List.length_drop, List.length_cons] at h2 ⊢; omega)]
        | inr n => rfl
      · rw [consumeEscapedChars_nohash _ _ (fun r hr => hh ⟨r, hr⟩),
          consumeEscapedChars_nohash _ _ (fun r hr => hh ⟨r, hr⟩)]

theorem pascal_cont_pos (l : Bytes) (m : Nat) (h : consumePascalStr l = .cont m) : 2 ≤ m := by
  unfold consumePascalStr at h
  split at h
  · split at h
    · simp at h
    · split at h
      · split at h
        · simp only [ParseState.cont.injEq] at h; omega
        · simp at h
      · simp at h
  · simp at h

theorem tll_fuel (f1 f2 : Nat) (l : Bytes) (h1 : l.length < f1) (h2 : l.length < f2) :
    textLiteralLoop f1 l = textLiteralLoop f2 l := by
  induction f1 generalizing f2 l with
  | zero => omega
  | succ f1 ih =>
    cases f2 with
    | zero => omega
    | succ f2 =>
      rw [tll_succ, tll_succ]
      cases hE : consumeEscapedChars (l.length + 1) l with
      | unterminated n => rfl
      | stop n => rfl
      | cont n =>
        simp only
        cases hP : consumePascalStr (l.drop n) with
        | unterminated m => rfl
        | stop m => rfl
        | cont m =>
          simp only
          have hm := pascal_cont_pos _ _ hP
          have hle := consumePascalStr_le (l.drop n)
          rw [hP] at hle; simp only [ParseState.n, List.length_drop] at hle
          rw [ih f2 _ (by simp only [List.length_drop]; omega) (by simp only [List.length_drop]; omega)]

theorem tl_other (l : Bytes) (h : ∀ b t, l = b :: t → b ≠ 0x27 ∧ b ≠ 0x23) : tl l = (0, .tSingleLine) := by
  unfold tl
  rw [tll_succ, consumeEscapedChars_nohash _ _ (fun r hr => (h _ _ hr).2 rfl)]
  simp only [List.drop_zero]
  cases l with
  | nil => rfl
  | cons b t => rw [consumePascalStr_cons_ne b t (h b t rfl).1]

theorem tl_quote_cont (r : Bytes) (m : Nat) (hp : consumePascalStr (0x27 :: r) = .cont m) :
    tl (0x27 :: r) = shiftTL m (tl ((0x27 :: r).drop m)) := by
  unfold tl shiftTL
  rw [tll_succ, consumeEscapedChars_nohash _ _ (fun r' hr => by simp at hr)]
  simp only [List.drop_zero]
  rw [hp]
  simp only [Nat.zero_add]
  have hm := pascal_cont_pos _ _ hp
  rw [tll_fuel ((0x27 :: r).length) (((0x27 :: r).drop m).length + 1) _
    (by simp only [List.length_drop, List.length_cons]; omega) (by omega)]

theorem tl_quote_unterminated (r : Bytes) (m : Nat) (hp : consumePascalStr (0x27 :: r) = .unterminated m) :
    tl (0x27 :: r) = (m, .tUnterminated) := by
  unfold tl
  rw [tll_succ, consumeEscapedChars_nohash _ _ (fun r' hr => by simp at hr)]
  simp only [List.drop_zero]
  rw [hp]
  simp

theorem tl_hash_inr (r : Bytes) (n : Nat) (he : consumeOneEscape r = .inr n) :
    tl (0x23 :: r) = (n, .tUnterminated) := by
  unfold tl
  rw [tll_succ, consumeEscapedChars_succ_hash, he]

theorem tl_hash_inl (r : Bytes) (n : Nat) (he : consumeOneEscape r = .inl n) :
    tl (0x23 :: r) = shiftTL n (tl ((0x23 :: r).drop n)) := by
  have hb := consumeOneEscape_bounds r
  rw [he] at hb; simp only [sumN] at hb
  unfold tl shiftTL
  rw [tll_succ, tll_succ, consumeEscapedChars_succ_hash, he]
  simp only
  rw [esc_fuel (((0x23 :: r).drop n).length + 1) ((0x23 :: r).length) _ (by omega)
    (by simp only [List.length_drop, List.length_cons]; omega)]
  cases hE : consumeEscapedChars ((0x23 :: r).length) ((0x23 :: r).drop n) with
  | unterminated a => rfl
  | stop a => rfl
  | cont a =>
    simp only [List.drop_drop]
    cases hP : consumePascalStr ((0x23 :: r).drop (n + a)) with
    | unterminated m => simp [Nat.add_assoc]
    | stop m => simp [Nat.add_assoc]
    | cont m =>
      simp only
      have hm := pascal_cont_pos _ _ hP
      have hle := consumePascalStr_le ((0x23 :: r).drop (n + a))
      rw [hP] at hle; simp only [ParseState.n, List.length_drop, List.length_cons] at hle
      rw [tll_fuel ((0x23 :: r).length) (((0x23 :: r).drop n).length) _
        (by simp only [List.length_drop, List.length_cons]; omega)
        (by simp only [List.length_drop, List.length_cons]; omega)]
      simp [Nat.add_assoc]

/-! computing the two item scanners on a given shape -/

theorem findIdx_append_stop (p : UInt8 → Bool) (x : Bytes) (c : UInt8) (rest : Bytes)
    (hx : AllBytes (fun b => !p b) x) (hc : p c = true) : findIdx p (x ++ c :: rest) = some x.length := by
  induction x with
  | nil => simp [findIdx, hc]
  | cons a x ih =>
    have ha : p a = false := by simpa using hx a (by simp)
    rw [List.cons_append, findIdx]
    simp [ha, ih (fun b hb => hx b (by simp [hb]))]

theorem findIdx_none_of_all (p : UInt8 → Bool) (x : Bytes) (hx : AllBytes (fun b => !p b) x) :
    findIdx p x = none := by
  induction x with
  | nil => rfl
  | cons a x ih =>
    have ha : p a = false := by simpa using hx a (by simp)
    rw [findIdx]
    simp [ha, ih (fun b hb => hx b (by simp [hb]))]

theorem pascal_quoted (body rest : Bytes) (hb : AllBytes isStrBody body) :
    consumePascalStr (0x27 :: (body ++ 0x27 :: rest)) = .cont (1 + body.length + 1) := by
  have hf := findIdx_append_stop isStrBreak body 0x27 rest hb (by decide)
  unfold isStrBreak at hf
  simp only [consumePascalStr]
  rw [hf]
  have : (body ++ 0x27 :: rest).isEmpty = false := by cases body <;> rfl
  simp [this]

theorem pascal_open (body rest : Bytes) (hb : AllBytes isStrBody body)
    (hr : rest = [] ∨ ∃ c t, rest = c :: t ∧ (c = 0x0A ∨ c = 0x0D)) :
    consumePascalStr (0x27 :: (body ++ rest)) = .unterminated (1 + body.length) := by
  simp only [consumePascalStr]
  rcases hr with rfl | ⟨c, t, rfl, hc⟩
  · cases body with
    | nil => rfl
    | cons a x =>
      have hf := findIdx_none_of_all isStrBreak (a :: x) hb
      unfold isStrBreak at hf
      simp only [List.append_nil]
      rw [hf]; rfl
  · have hbr : isStrBreak c = true := by rcases hc with rfl | rfl <;> decide
    have hf := findIdx_append_stop isStrBreak body c t hb hbr
    unfold isStrBreak at hf
    rw [hf]
    have h1 : (body ++ c :: t).isEmpty = false := by cases body <;> rfl
    have h2 : c ≠ 0x27 := by rcases hc with rfl | rfl <;> decide
    simp [h1, h2]

theorem oneEscape_dec (d : UInt8) (ds rest : Bytes) (hd : isDecimalByte d = true)
    (hds : AllBytes isDecimalByte ds) (hs : StopsAt isDecimalByte rest) :
    consumeOneEscape (d :: (ds ++ rest)) = .inl (2 + ds.length) := by
  have h1 : (isDigit d || d == 0x5F) = true := by
    simp only [isDecimalByte, Bool.or_eq_true] at hd ⊢; exact hd.symm
  have h2 : countDecimal (ds ++ rest) = ds.length := countWhile_append_stop _ _ _ hds hs
  simp only [consumeOneEscape, h1, if_true, h2]

theorem hex_not_dec : (isDigit 0x24 || (0x24 : UInt8) == 0x5F) = false := by decide
theorem bin_not_dec : (isDigit 0x25 || (0x25 : UInt8) == 0x5F) = false := by decide

theorem oneEscape_hex (h : UInt8) (hs rest : Bytes) (hh : isHexByte h = true)
    (hhs : AllBytes isHexByte hs) (hst : StopsAt isHexByte rest) :
    consumeOneEscape (0x24 :: h :: (hs ++ rest)) = .inl (2 + (hs.length + 1)) := by
  have h2 : countHex (h :: (hs ++ rest)) = hs.length + 1 := by
    unfold countHex
    rw [countWhile_pos _ h _ hh, countWhile_append_stop _ _ _ hhs hst]
  simp only [consumeOneEscape, hex_not_dec, Bool.false_eq_true, if_false, beq_self_eq_true, if_true, h2]

theorem oneEscape_bin (h : UInt8) (hs rest : Bytes) (hh : isBinaryByte h = true)
    (hhs : AllBytes isBinaryByte hs) (hst : StopsAt isBinaryByte rest) :
    consumeOneEscape (0x25 :: h :: (hs ++ rest)) = .inl (2 + (hs.length + 1)) := by
  have h2 : countBinary (h :: (hs ++ rest)) = hs.length + 1 := by
    unfold countBinary
    rw [countWhile_pos _ h _ hh, countWhile_append_stop _ _ _ hhs hst]
  have h3 : ((0x25 : UInt8) == 0x24) = false := by decide
  simp only [consumeOneEscape, bin_not_dec, Bool.false_eq_true, if_false, h3, beq_self_eq_true, if_true, h2]

theorem countWhile_of_stops (p : UInt8 → Bool) (rest : Bytes) (h : StopsAt p rest) : countWhile p rest = 0 := by
  cases rest with
  | nil => rfl
  | cons b t => exact countWhile_zero p b t (h b t rfl)

theorem oneEscape_hexNone (rest : Bytes) (hst : StopsAt isHexByte rest) :
    consumeOneEscape (0x24 :: rest) = .inr 2 := by
  have h2 : countHex rest = 0 := countWhile_of_stops _ _ hst
  simp only [consumeOneEscape, hex_not_dec, Bool.false_eq_true, if_false, beq_self_eq_true, if_true, h2]

theorem oneEscape_binNone (rest : Bytes) (hst : StopsAt isBinaryByte rest) :
    consumeOneEscape (0x25 :: rest) = .inr 2 := by
  have h2 : countBinary rest = 0 := countWhile_of_stops _ _ hst
  have h3 : ((0x25 : UInt8) == 0x24) = false := by decide
  simp only [consumeOneEscape, bin_not_dec, Bool.false_eq_true, if_false, h3, beq_self_eq_true, if_true, h2]

theorem oneEscape_none (rest : Bytes)
    (h : ∀ b t, rest = b :: t → isDecimalByte b = false ∧ b ≠ 0x24 ∧ b ≠ 0x25) :
    consumeOneEscape rest = .inr 1 := by
  cases rest with
  | nil => rfl
  | cons b t =>
    obtain ⟨h1, h2, h3⟩ := h b t rfl
    have h1' : (isDigit b || b == 0x5F) = false := by
      simp only [isDecimalByte, Bool.or_eq_false_iff] at h1 ⊢; exact h1.symm
    simp [consumeOneEscape, h1', h2, h3]

/-- a well-formed item is consumed and scanning goes on behind it -/
theorem item_step (l : Bytes) (n : Nat) (h : TextItem l n) : tl l = shiftTL n (tl (l.drop n)) := by
  cases h with
  | quoted body rest hb =>
    rw [show body.length + 2 = 1 + body.length + 1 by omega]
    exact tl_quote_cont _ _ (pascal_quoted body rest hb)
  | escDec d ds rest hd hds hs =>
    rw [show ds.length + 2 = 2 + ds.length by omega]
    exact tl_hash_inl _ _ (oneEscape_dec d ds rest hd hds hs)
  | escHex h hs rest hh hhs hst =>
    rw [show hs.length + 3 = 2 + (hs.length + 1) by omega]
    exact tl_hash_inl _ _ (oneEscape_hex h hs rest hh hhs hst)
  | escBin h hs rest hh hhs hst =>
    rw [show hs.length + 3 = 2 + (hs.length + 1) by omega]
    exact tl_hash_inl _ _ (oneEscape_bin h hs rest hh hhs hst)

/-- a malformed item ends the literal as unterminated -/
theorem bad_step (l : Bytes) (n : Nat) (h : BadTextItem l n) : tl l = (n, .tUnterminated) := by
  cases h with
  | quotedOpen body rest hb hr =>
    rw [show body.length + 1 = 1 + body.length by omega]
    exact tl_quote_unterminated _ _ (pascal_open body rest hb hr)
  | escNone rest h => exact tl_hash_inr _ _ (oneEscape_none rest h)
  | escHexNone rest h => exact tl_hash_inr _ _ (oneEscape_hexNone rest h)
  | escBinNone rest h => exact tl_hash_inr _ _ (oneEscape_binNone rest h)

/-- every text splits into its maximal `p`-run and a rest that stops at a non-`p` byte -/
theorem span_spec (p : UInt8 → Bool) (l : Bytes) : ∃ x rest, l = x ++ rest ∧ AllBytes p x ∧ StopsAt p rest := by
  induction l with
  | nil => exact ⟨[], [], rfl, fun b hb => by simp at hb, fun b t h => by simp at h⟩
  | cons a r ih =>
    by_cases ha : p a = true
    · obtain ⟨x, rest, rfl, hx, hr⟩ := ih
      refine ⟨a :: x, rest, rfl, ?_, hr⟩
      intro b hb
      rcases List.mem_cons.1 hb with rfl | hb
      · exact ha
      · exact hx b hb
    · refine ⟨[], a :: r, rfl, fun b hb => by simp at hb, ?_⟩
      intro b t h
      simp only [List.cons.injEq] at h
      rw [← h.1]; exact (Bool.not_eq_true _).mp ha

theorem TextItem.pos {l : Bytes} {n : Nat} (h : TextItem l n) : 1 ≤ n ∧ l ≠ [] := by
  cases h <;> exact ⟨by omega, by simp⟩

/-- a text that starts with `'` or `#` starts with exactly one kind of item, good or bad -/
theorem item_total (b : UInt8) (r : Bytes) (hb : b = 0x27 ∨ b = 0x23) :
    (∃ n, TextItem (b :: r) n) ∨ (∃ n, BadTextItem (b :: r) n) := by
  rcases hb with rfl | rfl
  · obtain ⟨body, rest, rfl, hbody, hstop⟩ := span_spec isStrBody r
    cases rest with
    | nil => exact Or.inr ⟨_, .quotedOpen body [] hbody (Or.inl rfl)⟩
    | cons c t =>
      have hc : isStrBody c = false := hstop c t rfl
      by_cases hq : c = 0x27
      · subst hq; exact Or.inl ⟨_, .quoted body t hbody⟩
      · refine Or.inr ⟨_, .quotedOpen body (c :: t) hbody (Or.inr ⟨c, t, rfl, ?_⟩)⟩
        simp only [isStrBody, isStrBreak, Bool.not_eq_false', Bool.or_eq_true, beq_iff_eq] at hc
        rcases hc with (h | h) | h
        · exact absurd h hq
        · exact Or.inl h
        · exact Or.inr h
  · cases r with
    | nil => exact Or.inr ⟨_, .escNone [] (fun b t h => by simp at h)⟩
    | cons c t =>
      by_cases hd : isDecimalByte c = true
      · obtain ⟨ds, rest, rfl, hds, hstop⟩ := span_spec isDecimalByte t
        exact Or.inl ⟨_, .escDec c ds rest hd hds hstop⟩
      · by_cases h24 : c = 0x24
        · subst h24
          obtain ⟨hs, rest, rfl, hhs, hstop⟩ := span_spec isHexByte t
          cases hs with
          | nil => exact Or.inr ⟨_, .escHexNone _ (by simpa using hstop)⟩
          | cons h hs =>
            exact Or.inl ⟨_, .escHex h hs rest (hhs h (by simp)) (fun b hb => hhs b (by simp [hb])) hstop⟩
        · by_cases h25 : c = 0x25
          · subst h25
            obtain ⟨hs, rest, rfl, hhs, hstop⟩ := span_spec isBinaryByte t
            cases hs with
            | nil => exact Or.inr ⟨_, .escBinNone _ (by simpa using hstop)⟩
            | cons h hs =>
              exact Or.inl ⟨_, .escBin h hs rest (hhs h (by simp)) (fun b hb => hhs b (by simp [hb])) hstop⟩
          · refine Or.inr ⟨_, .escNone (c :: t) ?_⟩
            intro b t' h
            simp only [List.cons.injEq] at h
            rw [← h.1]
            exact ⟨(Bool.not_eq_true _).mp hd, h24, h25⟩

/-- the model's loop satisfies the item grammar … -/
theorem tl_sat (l : Bytes) : TextItems l (tl l) := by
  generalize hn : l.length = n
  induction n using Nat.strongRecOn generalizing l with
  | _ n ih =>
    by_cases hh : ∃ b r, l = b :: r ∧ (b = 0x27 ∨ b = 0x23)
    · obtain ⟨b, r, rfl, hb⟩ := hh
      rcases item_total b r hb with ⟨k, hk⟩ | ⟨k, hk⟩
      · rw [item_step _ _ hk]
        have hpos := hk.pos.1
        have := ih ((b :: r).drop k).length (by simp only [List.length_drop, List.length_cons] at hn ⊢; omega)
          ((b :: r).drop k) rfl
        exact .item _ k _ _ hk this
      · rw [bad_step _ _ hk]
        exact .bad _ k hk
    · have h' : ∀ b t, l = b :: t → b ≠ 0x27 ∧ b ≠ 0x23 := by
        intro b t hl
        refine ⟨fun h => hh ⟨b, t, hl, Or.inl h⟩, fun h => hh ⟨b, t, hl, Or.inr h⟩⟩
      rw [tl_other l h']
      exact .done l h'

/-- … and the grammar determines the result -/
theorem tl_only (l : Bytes) (x : Nat × TextLiteralKind) (h : TextItems l x) : x = tl l := by
  induction h with
  | done l h => exact (tl_other l h).symm
  | item l n m k hi hr ih =>
    rw [item_step l n hi, ← ih]; rfl
  | bad l n hb => exact (bad_step l n hb).symm

/-! ### the whole `text_literal`, including multi-line literals -/

/-- number of quotes at the start of the text -/
def quoteCount (l : Bytes) : Nat := countWhile (· == 0x27) l

theorem quoteCount_eq (l : Bytes) : quoteCount l = (l.takeWhile (· == 0x27)).length :=
  countWhile_eq_takeWhile _ l

/-- the text opens a multi-line literal: an odd number (at least three) of quotes directly
    followed by CR or LF -/
def MultilineOpen (l : Bytes) : Prop :=
  3 ≤ quoteCount l ∧ quoteCount l % 2 = 1 ∧
    ∃ c t, l.drop (quoteCount l) = c :: t ∧ (c = 0x0D ∨ c = 0x0A)

/-- declarative result `(length, kind)` of `text_literal` on a text that starts with `'` or `#` -/
inductive TextLiteralSpec (l : Bytes) : Nat × TextLiteralKind → Prop
  /-- multi-line literal: ends right after the first later occurrence of a run of as many quotes
      as opened it (plain substring search) -/
  | multiline (i : Nat) (ho : MultilineOpen l)
      (h : FirstOcc (List.replicate (quoteCount l) 0x27) (l.drop (quoteCount l)) i) :
      TextLiteralSpec l (quoteCount l + i + quoteCount l, .tMultiLine)
  /-- multi-line literal without such a run: the whole rest of the text, unterminated -/
  | multilineOpen (ho : MultilineOpen l)
      (h : ∀ j, ¬ OccursAt (List.replicate (quoteCount l) 0x27) (l.drop (quoteCount l)) j) :
      TextLiteralSpec l (l.length, .tUnterminated)
  /-- otherwise a sequence of quoted segments and character codes on one line -/
  | singleLine (hn : ¬ MultilineOpen l) (x : Nat × TextLiteralKind) (h : TextItems l x) : TextLiteralSpec l x

theorem textLiteral_unfold (l : Bytes) : textLiteral l =
    if (decide (quoteCount l ≥ 3) && quoteCount l % 2 == 1 &&
        (match l.drop (quoteCount l) with | b :: _ => b == 0x0D || b == 0x0A | [] => false)) = true then
      match findSub (l.take (quoteCount l)) (l.drop (quoteCount l)) with
      | some pos => (quoteCount l + pos + quoteCount l, .tMultiLine)
      | none => (l.length, .tUnterminated)
    else tl l := rfl

theorem mlCond_iff (l : Bytes) :
    (decide (quoteCount l ≥ 3) && quoteCount l % 2 == 1 &&
        (match l.drop (quoteCount l) with | b :: _ => b == 0x0D || b == 0x0A | [] => false)) = true ↔
      MultilineOpen l := by
  unfold MultilineOpen
  simp only [Bool.and_eq_true, decide_eq_true_eq, beq_iff_eq, ge_iff_le]
  constructor
  · rintro ⟨⟨h1, h2⟩, h3⟩
    refine ⟨h1, h2, ?_⟩
    split at h3
    · rename_i b t heq
      exact ⟨b, t, heq, by simpa using h3⟩
    · simp at h3
  · rintro ⟨h1, h2, c, t, heq, hc⟩
    refine ⟨⟨h1, h2⟩, ?_⟩
    rw [heq]
    simpa using hc

theorem take_quoteCount (l : Bytes) : l.take (quoteCount l) = List.replicate (quoteCount l) 0x27 := by
  rw [List.eq_replicate_iff]
  refine ⟨by simp [List.length_take, quoteCount, countWhile_le], ?_⟩
  intro b hb
  have := (countWhile_longest (· == 0x27) l).2.1 b hb
  simpa using this

theorem textLiteral_sat (l : Bytes) : TextLiteralSpec l (textLiteral l) := by
  rw [textLiteral_unfold]
  by_cases ho : MultilineOpen l
  · rw [if_pos ((mlCond_iff l).2 ho), take_quoteCount]
    have hne : List.replicate (quoteCount l) (0x27 : UInt8) ≠ [] := by
      have := ho.1
      intro h; have := congrArg List.length h; simp at this; omega
    cases hf : findSub (List.replicate (quoteCount l) 0x27) (l.drop (quoteCount l)) with
    | some pos => exact .multiline pos ho ((findSub_some_iff _ _ hne pos).1 hf)
    | none => exact .multilineOpen ho ((findSub_none_iff _ _ hne).1 hf)
  · rw [if_neg (fun h => ho ((mlCond_iff l).1 h))]
    exact .singleLine ho _ (tl_sat l)

theorem textLiteral_only (l : Bytes) (x : Nat × TextLiteralKind) (h : TextLiteralSpec l x) : x = textLiteral l := by
  rw [textLiteral_unfold]
  cases h with
  | multiline i ho h =>
    have hne : List.replicate (quoteCount l) (0x27 : UInt8) ≠ [] := by
      have := ho.1
      intro h; have := congrArg List.length h; simp at this; omega
    rw [if_pos ((mlCond_iff l).2 ho), take_quoteCount, (findSub_some_iff _ _ hne i).2 h]
  | multilineOpen ho h =>
    have hne : List.replicate (quoteCount l) (0x27 : UInt8) ≠ [] := by
      have := ho.1
      intro h; have := congrArg List.length h; simp at this; omega
    rw [if_pos ((mlCond_iff l).2 ho), take_quoteCount, (findSub_none_iff _ _ hne).2 h]
  | singleLine hn x h =>
    rw [if_neg (fun h => hn ((mlCond_iff l).1 h))]
    exact tl_only l x h

/-! ## from sub-lexers to tokens: dispatch on the first byte -/

/-- the scanner state after a token of kind `kind` -/
def stepState (st : LexState) (kind : RawKind) (inAsm : Bool) : LexState :=
  { isFirst := false, inAsm := inAsm,
    prevReal := if kind.isCommentOrDirective then st.prevReal else some kind }

/-- "first token on its line": the blanks before the token contain a line feed, or it is the
    first token of the text -/
def nlBeforeOf (st : LexState) (inp : Bytes) : Bool :=
  containsByte 0x0A (inp.take (countLeadingWs inp)) || st.isFirst

theorem lexOne_of_runSub (simd : Bool) (st : LexState) (inp : Bytes) (b : UInt8) (r : Bytes) (o : LexOut)
    (hd : inp.drop (countLeadingWs inp) = b :: r)
    (hr : runSub st ((if st.inAsm then asmLexerMap else lexerMap).getD b.toNat .unknown) b r
        (nlBeforeOf st inp) (fun _ => countTrailingWs inp) simd = some o) :
    lexOne simd st inp =
      some (some (countLeadingWs inp, countLeadingWs inp + o.len, o.kind, stepState st o.kind o.inAsm)) := by
  unfold lexOne
  simp only [hd]
  unfold nlBeforeOf at hr
  rw [hr]
  rfl

theorem idLen_eq (simd : Bool) (l : Bytes) :
    (if simd then identLenSimd (l.length + 1) l else identLen l) = identLen l := by
  cases simd <;> simp [identLenSimd_eq]

/-- the main dispatch table by byte class -/
theorem lexerMap_classes (b : UInt8) :
    (isAlpha b = true → lexerMap.getD b.toNat .unknown = .identifier_or_keyword) ∧
    (isDigit b = true → lexerMap.getD b.toNat .unknown = .dec_number_literal) ∧
    (b ≥ 0x80 → lexerMap.getD b.toNat .unknown = .unicode_identifier) := by
  have hall : ∀ n : Fin 256,
      (isAlpha (UInt8.ofNat n.val) = true →
        lexerMap.getD (UInt8.ofNat n.val).toNat .unknown = .identifier_or_keyword) ∧
      (isDigit (UInt8.ofNat n.val) = true →
        lexerMap.getD (UInt8.ofNat n.val).toNat .unknown = .dec_number_literal) ∧
      (UInt8.ofNat n.val ≥ 0x80 → lexerMap.getD (UInt8.ofNat n.val).toNat .unknown = .unicode_identifier) := by
    decide +kernel
  have := hall ⟨b.toNat, b.toNat_lt⟩
  simpa only [UInt8.ofNat_toNat] using this

/-- bytes dispatched the same way inside and outside `asm` blocks -/
theorem dispatch_fixed (asm : Bool) :
    (if asm then asmLexerMap else lexerMap).getD (0x2F : UInt8).toNat .unknown = .slash ∧
    (if asm then asmLexerMap else lexerMap).getD (0x7B : UInt8).toNat .unknown = .l_brace ∧
    (if asm then asmLexerMap else lexerMap).getD (0x28 : UInt8).toNat .unknown = .l_paren ∧
    (if asm then asmLexerMap else lexerMap).getD (0x27 : UInt8).toNat .unknown = .text_literal ∧
    (if asm then asmLexerMap else lexerMap).getD (0x23 : UInt8).toNat .unknown = .text_literal ∧
    (if asm then asmLexerMap else lexerMap).getD (0x24 : UInt8).toNat .unknown = .hex_number_literal ∧
    (if asm then asmLexerMap else lexerMap).getD (0x25 : UInt8).toNat .unknown = .binary_number_literal ∧
    (if asm then asmLexerMap else lexerMap).getD (0x5F : UInt8).toNat .unknown = .identifier := by
  cases asm <;> decide

/-- a token that starts with a letter (outside `asm`) -/
theorem lexOne_word (simd : Bool) (st : LexState) (inp : Bytes) (b : UInt8) (r : Bytes)
    (hasm : st.inAsm = false) (hd : inp.drop (countLeadingWs inp) = b :: r) (hb : isAlpha b = true) :
    let k : RawKind := if st.prevReal == some (.rOp .oDot) then .rIdentifier
      else wordKind ((b :: r).take (1 + identLen r))
    lexOne simd st inp =
      some (some (countLeadingWs inp, countLeadingWs inp + (1 + identLen r), k,
        stepState st k (k == .rKeyword .kAsm))) := by
  intro k
  apply lexOne_of_runSub simd st inp b r
    { len := 1 + identLen r, kind := k, inAsm := k == .rKeyword .kAsm } hd
  rw [hasm]
  simp only [Bool.false_eq_true, if_false, (lexerMap_classes b).1 hb, runSub, idLen_eq]
  rfl

/-- a token that starts with `_` -/
theorem lexOne_underscore (simd : Bool) (st : LexState) (inp : Bytes) (r : Bytes)
    (hd : inp.drop (countLeadingWs inp) = 0x5F :: r) :
    lexOne simd st inp =
      some (some (countLeadingWs inp, countLeadingWs inp + (1 + identLen r), .rIdentifier,
        stepState st .rIdentifier st.inAsm)) := by
  apply lexOne_of_runSub simd st inp 0x5F r { len := 1 + identLen r, kind := .rIdentifier, inAsm := st.inAsm } hd
  rw [(dispatch_fixed st.inAsm).2.2.2.2.2.2.2]
  simp only [runSub, idLen_eq]

/-- a token that starts with a digit (outside `asm`) -/
theorem lexOne_decimal (simd : Bool) (st : LexState) (inp : Bytes) (b : UInt8) (r : Bytes)
    (hasm : st.inAsm = false) (hd : inp.drop (countLeadingWs inp) = b :: r) (hb : isDigit b = true) :
    lexOne simd st inp =
      some (some (countLeadingWs inp, countLeadingWs inp + (1 + decNumberRest r), .rNumberLiteral .nDecimal,
        stepState st (.rNumberLiteral .nDecimal) false)) := by
  have := lexOne_of_runSub simd st inp b r
    { len := 1 + decNumberRest r, kind := .rNumberLiteral .nDecimal, inAsm := st.inAsm } hd (by
      have hm : (if st.inAsm then asmLexerMap else lexerMap) = lexerMap := by rw [hasm]; rfl
      rw [hm, (lexerMap_classes b).2.1 hb]
      simp only [runSub])
  rw [this, hasm]

/-- a token that starts with `$` -/
theorem lexOne_hex (simd : Bool) (st : LexState) (inp : Bytes) (r : Bytes)
    (hd : inp.drop (countLeadingWs inp) = 0x24 :: r) :
    lexOne simd st inp =
      some (some (countLeadingWs inp, countLeadingWs inp + (1 + countHex r), .rNumberLiteral .nHex,
        stepState st (.rNumberLiteral .nHex) st.inAsm)) := by
  apply lexOne_of_runSub simd st inp 0x24 r { len := 1 + countHex r, kind := .rNumberLiteral .nHex, inAsm := st.inAsm } hd
  rw [(dispatch_fixed st.inAsm).2.2.2.2.2.1]
  simp only [runSub]

/-- a token that starts with `%` -/
theorem lexOne_binary (simd : Bool) (st : LexState) (inp : Bytes) (r : Bytes)
    (hd : inp.drop (countLeadingWs inp) = 0x25 :: r) :
    lexOne simd st inp =
      some (some (countLeadingWs inp, countLeadingWs inp + (1 + countBinary r), .rNumberLiteral .nBinary,
        stepState st (.rNumberLiteral .nBinary) st.inAsm)) := by
  apply lexOne_of_runSub simd st inp 0x25 r
    { len := 1 + countBinary r, kind := .rNumberLiteral .nBinary, inAsm := st.inAsm } hd
  rw [(dispatch_fixed st.inAsm).2.2.2.2.2.2.1]
  simp only [runSub]

/-- a token that starts with `'` or `#` -/
theorem lexOne_text (simd : Bool) (st : LexState) (inp : Bytes) (b : UInt8) (r : Bytes)
    (hd : inp.drop (countLeadingWs inp) = b :: r) (hb : b = 0x27 ∨ b = 0x23) :
    lexOne simd st inp =
      some (some (countLeadingWs inp, countLeadingWs inp + (textLiteral (b :: r)).1,
        .rTextLiteral (textLiteral (b :: r)).2, stepState st (.rTextLiteral (textLiteral (b :: r)).2) st.inAsm)) := by
  apply lexOne_of_runSub simd st inp b r
    { len := (textLiteral (b :: r)).1, kind := .rTextLiteral (textLiteral (b :: r)).2, inAsm := st.inAsm } hd
  have hdis : (if st.inAsm then asmLexerMap else lexerMap).getD b.toNat .unknown = .text_literal := by
    rcases hb with rfl | rfl
    · exact (dispatch_fixed st.inAsm).2.2.2.1
    · exact (dispatch_fixed st.inAsm).2.2.2.2.1
  rw [hdis]
  simp only [runSub]

/-- a token that starts with `//` -/
theorem lexOne_lineComment (simd : Bool) (st : LexState) (inp : Bytes) (r : Bytes)
    (hd : inp.drop (countLeadingWs inp) = 0x2F :: 0x2F :: r) :
    let k : RawKind := .rComment (if nlBeforeOf st inp then .cIndividualLine else .cInlineLine)
    lexOne simd st inp =
      some (some (countLeadingWs inp, countLeadingWs inp + (2 + lineCommentEnd r), k, stepState st k st.inAsm)) := by
  intro k
  apply lexOne_of_runSub simd st inp 0x2F (0x2F :: r) { len := 2 + lineCommentEnd r, kind := k, inAsm := st.inAsm } hd
  rw [(dispatch_fixed st.inAsm).1]
  simp only [runSub]
  rfl

/-- a token that starts with `{` not followed by `$` -/
theorem lexOne_braceComment (simd : Bool) (st : LexState) (inp : Bytes) (r : Bytes)
    (hd : inp.drop (countLeadingWs inp) = 0x7B :: r) (hnd : ∀ t, r ≠ 0x24 :: t) :
    let res := blockComment (countTrailingWs inp) .brace 1 (r.length + 1) (nlBeforeOf st inp) r
    lexOne simd st inp =
      some (some (countLeadingWs inp, countLeadingWs inp + res.1, .rComment res.2,
        stepState st (.rComment res.2) st.inAsm)) := by
  intro res
  apply lexOne_of_runSub simd st inp 0x7B r { len := res.1, kind := .rComment res.2, inAsm := st.inAsm } hd
  rw [(dispatch_fixed st.inAsm).2.1]
  simp only [runSub]
  rfl

/-- a token that starts with `(*` not followed by `$` -/
theorem lexOne_parenComment (simd : Bool) (st : LexState) (inp : Bytes) (r : Bytes)
    (hd : inp.drop (countLeadingWs inp) = 0x28 :: 0x2A :: r) (hnd : ∀ t, r ≠ 0x24 :: t) :
    let res := blockComment (countTrailingWs inp) .parenStar 2 (r.length + 2) (nlBeforeOf st inp) r
    lexOne simd st inp =
      some (some (countLeadingWs inp, countLeadingWs inp + res.1, .rComment res.2,
        stepState st (.rComment res.2) st.inAsm)) := by
  intro res
  apply lexOne_of_runSub simd st inp 0x28 (0x2A :: r) { len := res.1, kind := .rComment res.2, inAsm := st.inAsm } hd
  rw [(dispatch_fixed st.inAsm).2.2.1]
  simp only [runSub]
  rfl

/-! ## byte classes in plain terms -/

theorem isIdentByte_iff (b : UInt8) : isIdentByte b = true ↔
    (0x41 ≤ b ∧ b ≤ 0x5A) ∨ (0x61 ≤ b ∧ b ≤ 0x7A) ∨ (0x30 ≤ b ∧ b ≤ 0x39) ∨ b = 0x5F ∨ 0x80 ≤ b := by
  simp [isIdentByte, isIdentAscii, isAlnum, isAlpha, isUpper, isLower, isDigit, or_assoc]

theorem isDecimalByte_iff (b : UInt8) : isDecimalByte b = true ↔ (0x30 ≤ b ∧ b ≤ 0x39) ∨ b = 0x5F := by
  simp [isDecimalByte, isDigit, or_comm]

theorem isHexByte_iff (b : UInt8) : isHexByte b = true ↔
    (0x30 ≤ b ∧ b ≤ 0x39) ∨ (0x61 ≤ b ∧ b ≤ 0x66) ∨ (0x41 ≤ b ∧ b ≤ 0x46) ∨ b = 0x5F := by
  simp only [isHexByte, isDigit, Bool.or_eq_true, Bool.and_eq_true, beq_iff_eq, decide_eq_true_eq]
  constructor
  · rintro (((h | h) | h) | h)
    · exact Or.inr (Or.inr (Or.inr h))
    · exact Or.inl h
    · exact Or.inr (Or.inl h)
    · exact Or.inr (Or.inr (Or.inl h))
  · rintro (h | h | h | h)
    · exact Or.inl (Or.inl (Or.inr h))
    · exact Or.inl (Or.inr h)
    · exact Or.inr h
    · exact Or.inl (Or.inl (Or.inl h))

theorem isBinaryByte_iff (b : UInt8) : isBinaryByte b = true ↔ b = 0x30 ∨ b = 0x31 ∨ b = 0x5F := by
  simp only [isBinaryByte, Bool.or_eq_true, beq_iff_eq]
  constructor
  · rintro ((h | h) | h)
    · exact Or.inr (Or.inr h)
    · exact Or.inl h
    · exact Or.inr (Or.inl h)
  · rintro (h | h | h)
    · exact Or.inl (Or.inr h)
    · exact Or.inr h
    · exact Or.inl (Or.inl h)

theorem toLower_toUpper (b : UInt8) : toLowerByte (toUpperByte b) = toLowerByte b := by
  have hall : ∀ n : Fin 256, toLowerByte (toUpperByte (UInt8.ofNat n.val)) = toLowerByte (UInt8.ofNat n.val) := by
    decide +kernel
  have := hall ⟨b.toNat, b.toNat_lt⟩
  simpa only [UInt8.ofNat_toNat] using this

theorem asciiLower_upper (w : Bytes) : asciiLower (asciiUpper w) = asciiLower w := by
  unfold asciiLower asciiUpper
  rw [List.map_map]
  apply List.map_congr_left
  intro b _
  exact toLower_toUpper b

theorem wordKind_upper (w : Bytes) : wordKind (asciiUpper w) = wordKind w := by
  rw [← wordKind_lower (asciiUpper w), asciiLower_upper, wordKind_lower]

end Pasfmt
