/-
  Well-formed UTF-8 is kept by the whole closed model of the formatter.

  * general facts: cutting well-formed text at ASCII bytes, cancelling a well-formed prefix, replacing
    ASCII bytes by ASCII bytes (`BSim`);
  * the scanner's tokens are well-formed pieces (`lex_pieces_valid`);
  * every token rule keeps the pieces well-formed (`lowercaseTok`, `commentFormatTok`, `tokenSpacing`,
    `eofNewline`);
  * the string re-indenter `mlsRewrite` keeps well-formed text well-formed, and so does the wrapper stage with
    the search inside;
  * hence the final token state of `formatFull` satisfies `PiecesValid` and its output is well-formed.
-/
import PasfmtModel.Proofs.CursorBoundary
import PasfmtModel.Proofs.LexBoundaries
import PasfmtModel.Model.PipelineFull

namespace Pasfmt.Utf8Pipeline

open Pasfmt

/-! ### 1. general facts -/

/-- dropping an ASCII prefix of well-formed text -/
theorem valid_drop_ascii (a b : Bytes) (ha : AllAscii a) (h : validUtf8 (a ++ b) = true) :
    validUtf8 b = true := by
  induction a with
  | nil => simpa using h
  | cons x r ih =>
    exact ih (fun c hc => ha c (by simp [hc])) (valid_after_ascii x (r ++ b) (ha x (by simp)) h)

/-- dropping an ASCII suffix of well-formed text -/
theorem valid_take_ascii (a b : Bytes) (hb : AllAscii b) (h : validUtf8 (a ++ b) = true) :
    validUtf8 a = true := by
  cases b with
  | nil => simpa using h
  | cons x r =>
    have hget : (a ++ x :: r)[a.length]? = some x := by simp
    have := (validUtf8_split (a ++ x :: r) a.length h (by simp)
      (notContAt_of_ascii _ _ x hget (hb x (by simp)))).1
    simpa using this

/-- cancelling a well-formed prefix of well-formed text -/
theorem valid_cancel_left (a b : Bytes) (ha : validUtf8 a = true) (h : validUtf8 (a ++ b) = true) :
    validUtf8 b = true := by
  induction hlen : a.length using Nat.strongRecOn generalizing a with
  | _ n ih =>
    cases a with
    | nil => simpa using h
    | cons x r =>
      rw [validUtf8_unfold] at ha
      cases hk : firstCharLen (x :: r) with
      | none => rw [hk] at ha; simp at ha
      | some k =>
        rw [hk] at ha
        simp only at ha
        have hc := firstCharLen_head (x :: r) k hk
        have hsplit : (x :: r) ++ b = (x :: r).take k ++ ((x :: r).drop k ++ b) := by
          rw [← List.append_assoc, List.take_append_drop]
        have hfc : firstCharLen ((x :: r) ++ b) = some k := by
          rw [hsplit]; exact hc.stable _
        rw [validUtf8_unfold, hfc] at h
        simp only at h
        rw [List.drop_append_of_le_length hc.le] at h
        exact ih ((x :: r).drop k).length
          (by have := hc.pos; have := hc.le; simp only [List.length_drop]; omega)
          ((x :: r).drop k) ha h rfl

theorem mem_takeWhile_pred (p : UInt8 → Bool) : ∀ (l : Bytes) (b : UInt8), b ∈ l.takeWhile p → p b = true
  | [], _, h => by simp at h
  | x :: r, b, h => by
    rw [List.takeWhile_cons] at h
    by_cases hx : p x = true
    · simp only [hx, if_true, List.mem_cons] at h
      rcases h with rfl | h
      · exact hx
      · exact mem_takeWhile_pred p r b h
    · simp [hx] at h

theorem allAscii_of_pred (p : UInt8 → Bool) (hp : ∀ b, p b = true → b < 0x80) (l : Bytes)
    (h : ∀ b ∈ l, p b = true) : AllAscii l := fun b hb => hp b (h b hb)

/-- removing leading ASCII bytes -/
theorem valid_dropWhile_ascii (p : UInt8 → Bool) (hp : ∀ b, p b = true → b < 0x80) (s : Bytes)
    (h : validUtf8 s = true) : validUtf8 (s.dropWhile p) = true := by
  have hs : s = s.takeWhile p ++ s.dropWhile p := (List.takeWhile_append_dropWhile).symm
  rw [hs] at h
  exact valid_drop_ascii _ _ (allAscii_of_pred p hp _ (fun b hb => mem_takeWhile_pred p _ _ hb)) h

/-- removing trailing ASCII bytes -/
theorem valid_trimEnd_ascii (p : UInt8 → Bool) (hp : ∀ b, p b = true → b < 0x80) (s : Bytes)
    (h : validUtf8 s = true) : validUtf8 (s.reverse.dropWhile p).reverse = true := by
  have hs : s = (s.reverse.dropWhile p).reverse ++ (s.reverse.takeWhile p).reverse := by
    rw [← List.reverse_append, List.takeWhile_append_dropWhile, List.reverse_reverse]
  rw [hs] at h
  refine valid_take_ascii _ _ ?_ h
  intro b hb
  rw [List.mem_reverse] at hb
  exact hp b (mem_takeWhile_pred p _ _ hb)

/-! ### 2. replacing ASCII bytes by ASCII bytes -/

/-- the two bytes are equal, or both are ASCII -/
def ByteSim (b b' : UInt8) : Prop := (b < 0x80 ∧ b' < 0x80) ∨ b = b'

/-- texts of the same length that differ only in ASCII positions -/
inductive BSim : Bytes → Bytes → Prop
  | nil : BSim [] []
  | cons {b b' : UInt8} {l l' : Bytes} : ByteSim b b' → BSim l l' → BSim (b :: l) (b' :: l')

theorem BSim.refl : ∀ l : Bytes, BSim l l
  | [] => .nil
  | _ :: r => .cons (Or.inr rfl) (BSim.refl r)

theorem BSim.append {a a' b b' : Bytes} (h1 : BSim a a') (h2 : BSim b b') : BSim (a ++ b) (a' ++ b') := by
  induction h1 with
  | nil => exact h2
  | cons hb _ ih => exact .cons hb ih

theorem BSim.map (f : UInt8 → UInt8) (hf : ∀ b, ByteSim b (f b)) : ∀ l : Bytes, BSim l (l.map f)
  | [] => .nil
  | b :: r => .cons (hf b) (BSim.map f hf r)

theorem BSim.drop {l l' : Bytes} (h : BSim l l') (k : Nat) : BSim (l.drop k) (l'.drop k) := by
  induction h generalizing k with
  | nil => simpa using BSim.nil
  | cons hb hl ih =>
    cases k with
    | zero => exact .cons hb hl
    | succ j => simpa using ih j

theorem BSim.length_eq {l l' : Bytes} (h : BSim l l') : l.length = l'.length := by
  induction h with
  | nil => rfl
  | cons _ _ ih => simp [ih]

/-- the byte classes `firstCharLen` looks at are all false on ASCII bytes -/
theorem ascii_classes (b : UInt8) (h : b < 0x80) :
    isCont b = false ∧ (0xA0 ≤ b && b ≤ 0xBF) = false ∧ (0x80 ≤ b && b ≤ 0x9F) = false ∧
    (0x90 ≤ b && b ≤ 0xBF) = false ∧ (0x80 ≤ b && b ≤ 0x8F) = false := by
  have hall : ∀ n : Fin 256, UInt8.ofNat n.val < 0x80 →
      isCont (UInt8.ofNat n.val) = false ∧
      (0xA0 ≤ UInt8.ofNat n.val && UInt8.ofNat n.val ≤ 0xBF) = false ∧
      (0x80 ≤ UInt8.ofNat n.val && UInt8.ofNat n.val ≤ 0x9F) = false ∧
      (0x90 ≤ UInt8.ofNat n.val && UInt8.ofNat n.val ≤ 0xBF) = false ∧
      (0x80 ≤ UInt8.ofNat n.val && UInt8.ofNat n.val ≤ 0x8F) = false := by decide +kernel
  have := hall ⟨b.toNat, b.toNat_lt⟩
  simp only [UInt8.ofNat_toNat] at this
  exact this h

theorem ByteSim.classes {b b' : UInt8} (h : ByteSim b b') :
    isCont b = isCont b' ∧ (0xA0 ≤ b && b ≤ 0xBF) = (0xA0 ≤ b' && b' ≤ 0xBF) ∧
    (0x80 ≤ b && b ≤ 0x9F) = (0x80 ≤ b' && b' ≤ 0x9F) ∧
    (0x90 ≤ b && b ≤ 0xBF) = (0x90 ≤ b' && b' ≤ 0xBF) ∧
    (0x80 ≤ b && b ≤ 0x8F) = (0x80 ≤ b' && b' ≤ 0x8F) := by
  rcases h with ⟨h1, h2⟩ | rfl
  · obtain ⟨a1, a2, a3, a4, a5⟩ := ascii_classes b h1
    obtain ⟨c1, c2, c3, c4, c5⟩ := ascii_classes b' h2
    rw [a1, a2, a3, a4, a5, c1, c2, c3, c4, c5]
    exact ⟨rfl, rfl, rfl, rfl, rfl⟩
  · exact ⟨rfl, rfl, rfl, rfl, rfl⟩

theorem firstCharLen_bsim {l l' : Bytes} (h : BSim l l') : firstCharLen l = firstCharLen l' := by
  cases h with
  | nil => rfl
  | @cons b0 b0' r r' hb hl =>
    rcases hb with ⟨h1, h2⟩ | rfl
    · simp [firstCharLen, h1, h2]
    · unfold firstCharLen
      by_cases h0 : b0 < 0x80
      · simp only [h0, if_true]
      · simp only [h0, if_false]
        cases hl with
        | nil => rfl
        | @cons b1 b1' r1 r1' hb1 hl1 =>
          obtain ⟨e1, e2, e3, e4, e5⟩ := hb1.classes
          cases hl1 with
          | nil => simp only [e1]
          | @cons b2 b2' r2 r2' hb2 hl2 =>
            obtain ⟨f1, _, _, _, _⟩ := hb2.classes
            cases hl2 with
            | nil => simp only [e1, e2, e3, f1]
            | @cons b3 b3' r3 r3' hb3 hl3 =>
              obtain ⟨g1, _, _, _, _⟩ := hb3.classes
              simp only [e1, e2, e3, e4, e5, f1, g1]

/-- well-formedness does not depend on which ASCII bytes stand at the ASCII positions -/
theorem validUtf8_bsim {l l' : Bytes} (h : BSim l l') : validUtf8 l = validUtf8 l' := by
  induction hlen : l.length using Nat.strongRecOn generalizing l l' with
  | _ n ih =>
    rw [validUtf8_unfold l, validUtf8_unfold l', ← firstCharLen_bsim h]
    cases hk : firstCharLen l with
    | none =>
      simp only
      cases h with
      | nil => rfl
      | cons _ _ => rfl
    | some k =>
      simp only
      have hb := firstCharLen_bounds l k hk
      exact ih (l.drop k).length (by simp only [List.length_drop]; omega) (h.drop k) rfl

/-! ### 3. the scanner and the token rules -/

/-- text and leading whitespace of a token are well-formed -/
def TokValid (t : Tok) : Prop := ValidUtf8 t.content ∧ ValidUtf8 t.ws

/-- every token of the state has well-formed text and well-formed leading whitespace -/
def AllValid (ft : FT) : Prop := ∀ t ∈ ft, TokValid t.tok

/-- the scanner cuts well-formed input into well-formed pieces -/
theorem lex_pieces_valid (s : Bytes) (raw : List RawTok) (hv : ValidUtf8 s) (h : lex s = some raw) :
    ∀ t ∈ raw, ValidUtf8 t.ws ∧ ValidUtf8 t.content :=
  lexWith_char_boundaries false s raw hv h

theorem setContent_valid (t : FTok) (c : Bytes) (ht : TokValid t.tok) (hc : ValidUtf8 c) :
    TokValid (t.setContent c).tok := by
  unfold FTok.setContent
  split
  · exact ht
  · exact ⟨hc, validUtf8_nil⟩

theorem upper_lower_ascii (b : UInt8) :
    (isUpper b = true → b < 0x80 ∧ b + 0x20 < 0x80) ∧ (isLower b = true → b < 0x80 ∧ b - 0x20 < 0x80) := by
  have hall : ∀ n : Fin 256,
      (isUpper (UInt8.ofNat n.val) = true → UInt8.ofNat n.val < 0x80 ∧ UInt8.ofNat n.val + 0x20 < 0x80) ∧
      (isLower (UInt8.ofNat n.val) = true → UInt8.ofNat n.val < 0x80 ∧ UInt8.ofNat n.val - 0x20 < 0x80) := by
    decide +kernel
  have := hall ⟨b.toNat, b.toNat_lt⟩
  simpa only [UInt8.ofNat_toNat] using this

theorem toLower_sim (b : UInt8) : ByteSim b (toLowerByte b) := by
  unfold toLowerByte
  split
  · rename_i h; exact Or.inl ((upper_lower_ascii b).1 h)
  · exact Or.inr rfl

theorem toUpper_sim (b : UInt8) : ByteSim b (toUpperByte b) := by
  unfold toUpperByte
  split
  · rename_i h; exact Or.inl ((upper_lower_ascii b).2 h)
  · exact Or.inr rfl

/-- ASCII lower-casing changes ASCII letters only: well-formedness is unchanged -/
theorem asciiLower_valid (c : Bytes) : validUtf8 (asciiLower c) = validUtf8 c :=
  (validUtf8_bsim (BSim.map _ toLower_sim c)).symm

theorem asciiUpper_valid (c : Bytes) : validUtf8 (asciiUpper c) = validUtf8 c :=
  (validUtf8_bsim (BSim.map _ toUpper_sim c)).symm

/-- `LowercaseKeywords` keeps a token well-formed -/
theorem lowercaseTok_valid (t : FTok) (ht : TokValid t.tok) : TokValid (lowercaseTok t).tok := by
  unfold lowercaseTok
  split
  · exact setContent_valid t _ ht (by unfold ValidUtf8; rw [asciiLower_valid]; exact ht.1)
  · exact ht

theorem isAsciiWs_ascii (b : UInt8) (h : isAsciiWs b = true) : b < 0x80 := by
  unfold isAsciiWs at h
  simp only [Bool.or_eq_true, beq_iff_eq] at h
  rcases h with (((rfl | rfl) | rfl) | rfl) | rfl <;> decide

/-- `trim_ascii_end` keeps text well-formed -/
theorem trimAsciiEnd_valid (c : Bytes) (h : validUtf8 c = true) : validUtf8 (trimAsciiEnd c) = true :=
  valid_trimEnd_ascii isAsciiWs isAsciiWs_ascii c h

theorem lineCommentParts_spec (c pre comment : Bytes) (h : lineCommentParts c = some (pre, comment)) :
    c = pre ++ comment ∧ AllAscii pre := by
  unfold lineCommentParts at h
  split at h
  · simp only [Option.some.injEq, Prod.mk.injEq] at h
    obtain ⟨rfl, rfl⟩ := h
    refine ⟨rfl, ?_⟩
    intro b hb; simp at hb; subst hb; decide
  · simp only [Option.some.injEq, Prod.mk.injEq] at h
    obtain ⟨rfl, rfl⟩ := h
    refine ⟨rfl, ?_⟩
    intro b hb; simp at hb; subst hb; decide
  · cases h

/-- the line-comment rule (one space inserted behind the slashes, ASCII whitespace trimmed at the end) keeps text
    well-formed -/
theorem formatLineComment_valid (U : Bytes → Bool) (c c' : Bytes) (hv : validUtf8 c = true)
    (h : formatLineComment U c = some c') : validUtf8 c' = true := by
  unfold formatLineComment at h
  split at h
  · cases h
  · rename_i pre comment hp
    obtain ⟨hc, hpre⟩ := lineCommentParts_spec c pre comment hp
    have hnew : ∀ x, lineCommentSpaced U pre comment = some x → validUtf8 x = true := by
      intro x hx
      unfold lineCommentSpaced at hx
      split at hx
      · split at hx
        · simp only [Option.some.injEq] at hx
          subst hx
          rw [hc] at hv
          exact validUtf8_append _ _
            (validUtf8_append _ _ (validUtf8_of_ascii _ hpre)
              (validUtf8_of_ascii _ (by intro b hb; simp at hb; subst hb; decide)))
            (valid_drop_ascii pre _ hpre hv)
        · cases hx
      · cases hx
    simp only at h
    split at h
    · simp only [Option.some.injEq] at h
      subst h
      apply trimAsciiEnd_valid
      cases hx : lineCommentSpaced U pre comment with
      | none => simpa using hv
      | some x => simpa using hnew x hx
    · exact hnew c' h

/-- the compiler-directive rule (upper-casing of a span) keeps text well-formed -/
theorem formatCompilerDirective_valid (c c' : Bytes) (hv : validUtf8 c = true)
    (h : formatCompilerDirective c = some c') : validUtf8 c' = true := by
  unfold formatCompilerDirective at h
  simp only at h
  split at h
  · cases h
  · rename_i pre stripped hs
    have hc : c = pre ++ stripped := by
      split at hs
      · simp only [Option.some.injEq, Prod.mk.injEq] at hs
        obtain ⟨rfl, rfl⟩ := hs; rfl
      · simp only [Option.some.injEq, Prod.mk.injEq] at hs
        obtain ⟨rfl, rfl⟩ := hs; rfl
      · cases hs
    split at h
    · cases h
    · rename_i n hn
      split at h
      · simp only [Option.some.injEq] at h
        subst h
        have hb : BSim c (pre ++ asciiUpper (stripped.take n) ++ stripped.drop n) := by
          have : c = pre ++ stripped.take n ++ stripped.drop n := by
            rw [List.append_assoc, List.take_append_drop]; exact hc
          rw [this]
          exact (BSim.append (BSim.refl pre) (BSim.map _ toUpper_sim _)).append (BSim.refl _)
        rw [← validUtf8_bsim hb]; exact hv
      · cases h

/-- `CommentFormatter` keeps a token well-formed -/
theorem commentFormatTok_valid (U : Bytes → Bool) (t : FTok) (ht : TokValid t.tok) :
    TokValid (commentFormatTok U t).tok := by
  unfold commentFormatTok
  split
  · split
    · rename_i c hc; exact setContent_valid t c ht (formatCompilerDirective_valid _ c ht.1 hc)
    · exact ht
  · split
    · rename_i c hc; exact setContent_valid t c ht (formatCompilerDirective_valid _ c ht.1 hc)
    · exact ht
  · split
    · rename_i c hc; exact setContent_valid t c ht (formatLineComment_valid U _ c ht.1 hc)
    · exact ht
  · split
    · rename_i c hc; exact setContent_valid t c ht (formatLineComment_valid U _ c ht.1 hc)
    · exact ht
  · exact ht

theorem AllValid.map (f : FTok → FTok) (hf : ∀ t, TokValid t.tok → TokValid (f t).tok) (ft : FT)
    (h : AllValid ft) : AllValid (ft.map f) := by
  intro t ht
  obtain ⟨u, hu, rfl⟩ := List.mem_map.1 ht
  exact hf u (h u hu)

theorem AllValid.zipIdx_map (f : FTok × Nat → FTok) (hf : ∀ p, (f p).tok = p.1.tok) (ft : FT)
    (h : AllValid ft) : AllValid (ft.zipIdx.map f) := by
  intro t ht
  obtain ⟨p, hp, rfl⟩ := List.mem_map.1 ht
  obtain ⟨u, j⟩ := p
  rw [hf]
  exact h u (List.mem_of_getElem? (List.mem_zipIdx_iff_getElem?.1 hp))

/-- `TokenSpacing` changes counters only -/
theorem tokenSpacing_valid (ft : FT) (h : AllValid ft) : AllValid (tokenSpacing ft) := by
  unfold tokenSpacing
  simp only
  apply AllValid.zipIdx_map _ _ ft h
  intro p; rfl

/-- `EofNewline` changes counters only -/
theorem eofNewline_valid (lines : List Line) (ft : FT) (h : AllValid ft) : AllValid (eofNewline lines ft) := by
  unfold eofNewline
  split
  · exact AllValid.zipIdx_map _ (fun p => by simp only; split <;> rfl) ft h
  · exact h

theorem retype_valid (raw : List RawTok) (kinds : List Kind)
    (h : ∀ t ∈ raw, ValidUtf8 t.ws ∧ ValidUtf8 t.content) : ∀ t ∈ retype raw kinds, TokValid t := by
  induction raw generalizing kinds with
  | nil => intro t ht; simp [retype] at ht
  | cons x r ih =>
    have hx := h x (by simp)
    have hr : ∀ t ∈ r, ValidUtf8 t.ws ∧ ValidUtf8 t.content := fun t ht => h t (by simp [ht])
    intro t ht
    cases kinds with
    | nil =>
      rw [retype, List.mem_cons] at ht
      rcases ht with rfl | ht
      · exact ⟨hx.2, hx.1⟩
      · exact ih [] hr t ht
    | cons k ks =>
      rw [retype, List.mem_cons] at ht
      rcases ht with rfl | ht
      · exact ⟨hx.2, hx.1⟩
      · exact ih ks hr t ht

theorem ftNew_valid (toks : List Tok) (m : Nat → Bool) (h : ∀ t ∈ toks, TokValid t) : AllValid (FT.new toks m) := by
  intro t ht
  unfold FT.new at ht
  obtain ⟨p, hp, rfl⟩ := List.mem_map.1 ht
  obtain ⟨u, j⟩ := p
  exact h u (List.mem_of_getElem? (List.mem_zipIdx_iff_getElem?.1 hp))

/-- the token state handed to the wrapper stage consists of well-formed pieces -/
theorem preWrap_valid (O : Oracles) (raw : List RawTok)
    (h : ∀ t ∈ raw, ValidUtf8 t.ws ∧ ValidUtf8 t.content) : AllValid (preWrap O raw).2.2 := by
  unfold preWrap
  simp only
  apply eofNewline_valid
  unfold commentFormatter lowercaseKeywords
  apply AllValid.map _ (commentFormatTok_valid O.alnum)
  apply AllValid.map _ lowercaseTok_valid
  apply tokenSpacing_valid
  exact ftNew_valid _ _ (retype_valid raw _ h)

/-! ### 4. the string re-indenter -/

theorem isNlCr_ascii (b : UInt8) (h : isNlCr b = true) : b < 0x80 := by
  unfold isNlCr at h
  simp only [Bool.or_eq_true, beq_iff_eq] at h
  rcases h with rfl | rfl <;> decide

theorem trimNlCr_valid (s : Bytes) (h : validUtf8 s = true) : validUtf8 (trimNlCr s) = true := by
  unfold trimNlCr
  exact valid_trimEnd_ascii isNlCr isNlCr_ascii _ (valid_dropWhile_ascii isNlCr isNlCr_ascii s h)

/-- the pieces `lines_custom` cuts (behind CR, LF or CR LF) are well-formed -/
theorem splitCustomGo_valid (skip : Bool) (cur rest : Bytes) (h : validUtf8 (cur.reverse ++ rest) = true) :
    ∀ p ∈ splitCustomGo skip cur rest, validUtf8 p = true := by
  induction rest generalizing skip cur with
  | nil =>
    intro p hp
    unfold splitCustomGo at hp
    split at hp
    · simp at hp
    · simp only [List.mem_singleton] at hp
      subst hp; simpa using h
  | cons c r ih =>
    intro p hp
    unfold splitCustomGo at hp
    have hpush : validUtf8 ((c :: cur).reverse ++ r) = true := by simpa using h
    split at hp
    · exact ih false (c :: cur) hpush p hp
    · split at hp
      · rename_i hc
        rw [List.mem_cons] at hp
        have hca := isNlCr_ascii c hc
        have hget : (cur.reverse ++ c :: r)[cur.reverse.length]? = some c := by simp
        have hsp := validUtf8_split _ cur.reverse.length h (by simp) (notContAt_of_ascii _ _ c hget hca)
        rw [List.take_left, List.drop_left] at hsp
        rcases hp with rfl | hp
        · rw [List.reverse_cons]
          exact validUtf8_append _ _ hsp.1
            (validUtf8_of_ascii _ (by intro b hb; simp at hb; subst hb; exact hca))
        · exact ih _ [] (by simpa using valid_after_ascii c r hca hsp.2) p hp
      · exact ih false (c :: cur) hpush p hp

theorem linesCustom_valid (s : Bytes) (h : validUtf8 s = true) : ∀ l ∈ linesCustom s, validUtf8 l = true := by
  intro l hl
  unfold linesCustom at hl
  obtain ⟨p, hp, rfl⟩ := List.mem_map.1 hl
  exact trimNlCr_valid p (splitCustomGo_valid false [] s (by simpa using h) p hp)

/-- a run of blanks (bytes up to 0x20 and whole U+3000 = `E3 80 80`) is well-formed, whatever follows it: a
    partial `E3 80` is not counted as a blank -/
theorem leadingWs_valid (l : Bytes) : validUtf8 (l.take (countLeadingWs l)) = true := by
  induction l using countLeadingWs.induct with
  | case1 => simpa [countLeadingWs] using validUtf8_nil
  | case2 r ih =>
    rw [countLeadingWs]
    have ht : (0xE3 :: 0x80 :: 0x80 :: r).take (countLeadingWs r + 3)
        = 0xE3 :: 0x80 :: 0x80 :: r.take (countLeadingWs r) := by simp [List.take_succ_cons]
    rw [ht, validUtf8_unfold]
    have hf : firstCharLen (0xE3 :: 0x80 :: 0x80 :: r.take (countLeadingWs r)) = some 3 := by
      simp [firstCharLen, isCont]
    rw [hf]
    simpa using ih
  | case3 b r hne hle ih =>
    have : countLeadingWs (b :: r) = countLeadingWs r + 1 := by
      rw [countLeadingWs]
      · simp [hle]
      · intro r' h; exact hne r' h
    rw [this]
    have hb : b < 0x80 := by
      have hall : ∀ n : Fin 256, UInt8.ofNat n.val ≤ 0x20 → UInt8.ofNat n.val < 0x80 := by decide +kernel
      have := hall ⟨b.toNat, b.toNat_lt⟩
      simp only [UInt8.ofNat_toNat] at this
      exact this (by simpa using hle)
    rw [List.take_succ_cons]
    exact valid_cons_ascii b _ hb ih
  | case4 b r hne hle =>
    have : countLeadingWs (b :: r) = 0 := by
      rw [countLeadingWs]
      · simp [hle]
      · intro r' h; exact hne r' h
    rw [this]; simpa using validUtf8_nil

theorem rewriteLines_valid (S : Settings) (hS : AsciiSettings S) (ind cont : Nat) (base : Bytes)
    (hb : validUtf8 base = true) (lines : List Bytes) (hl : ∀ l ∈ lines, validUtf8 l = true) (out : Bytes)
    (h : rewriteLines S ind cont base lines = some out) : validUtf8 out = true := by
  induction lines generalizing out with
  | nil =>
    simp only [rewriteLines, Option.some.injEq] at h
    subst h; exact validUtf8_nil
  | cons line rest ih =>
    have hrest : ∀ l ∈ rest, validUtf8 l = true := fun l hm => hl l (by simp [hm])
    have hline := hl line (by simp)
    unfold rewriteLines at h
    split at h
    · rename_i hpre
      simp only at h
      split at h
      · cases h
      · rename_i tail ht
        simp only [Option.some.injEq] at h
        subst h
        refine validUtf8_append _ _ (validUtf8_append _ _ (validUtf8_of_ascii _ hS.1) ?_) (ih hrest tail ht)
        split
        · exact validUtf8_nil
        · refine validUtf8_append _ _ (validUtf8_of_ascii _
            (allAscii_append _ _ (allAscii_replicateBytes _ _ hS.2.1) (allAscii_replicateBytes _ _ hS.2.2))) ?_
          obtain ⟨t, ht'⟩ := List.isPrefixOf_iff_prefix.1 hpre
          rw [← ht', List.drop_left]
          rw [← ht'] at hline
          exact valid_cancel_left base t hb hline
    · split at h
      · cases hr : rewriteLines S ind cont base rest with
        | none => rw [hr] at h; cases h
        | some tail =>
          rw [hr] at h
          simp only [Option.map_some, Option.some.injEq] at h
          subst h
          exact validUtf8_append _ _ (validUtf8_of_ascii _ hS.1) (ih hrest tail hr)
      · cases h

theorem tryRewriteString_valid (S : Settings) (hS : AsciiSettings S) (ind cont : Nat) (base orig out : Bytes)
    (hb : validUtf8 base = true) (hv : validUtf8 orig = true)
    (h : tryRewriteString S ind cont base orig = some out) : validUtf8 out = true := by
  have hl := linesCustom_valid orig hv
  unfold tryRewriteString at h
  split at h
  · simp only [Option.some.injEq] at h
    subst h; exact validUtf8_nil
  · rename_i first rest hfr
    rw [hfr] at hl
    cases hr : rewriteLines S ind cont base rest with
    | none => rw [hr] at h; cases h
    | some tail =>
      rw [hr] at h
      simp only [Option.map_some, Option.some.injEq] at h
      subst h
      exact validUtf8_append _ _ (hl first (by simp))
        (rewriteLines_valid S hS ind cont base hb rest (fun l hm => hl l (by simp [hm])) tail hr)

/-- **the string re-indenter keeps well-formed text well-formed**: it cuts the literal behind CR / LF, strips
    from every line a run of whole blanks and writes ASCII line endings and indentation -/
theorem mlsRewrite_valid (S : Settings) (hS : AsciiSettings S) (c : Bytes) (ind cont : Nat) (c' : Bytes)
    (hv : ValidUtf8 c) (h : mlsRewrite S c ind cont = some c') : ValidUtf8 c' := by
  unfold mlsRewrite at h
  simp only at h
  split at h
  · cases h
  · split at h
    · rename_i x hx
      split at h
      · simp only [Option.some.injEq] at h
        subst h
        exact tryRewriteString_valid S hS ind cont _ c x (leadingWs_valid _) hv hx
      · cases h
    · cases h

/-! ### 5. the wrapper stage with the search inside -/

theorem AllValid.set {ft : FT} (h : AllValid ft) (i : Nat) (x : FTok) (hx : TokValid x.tok) :
    AllValid (ft.set i x) := by
  intro t ht
  rcases List.mem_or_eq_of_mem_set ht with h1 | rfl
  · exact h t h1
  · exact hx

theorem setFmt_valid (ft ft' : FT) (i : Nat) (g : FmtData → FmtData) (h : AllValid ft)
    (h1 : setFmt ft i g = some ft') : AllValid ft' := by
  unfold setFmt at h1
  split at h1
  · rename_i t ht
    simp only [Option.some.injEq] at h1
    subst h1
    exact h.set i _ (h t (List.mem_of_getElem? ht))
  · cases h1

mutual
theorem applySol_valid (lines : List Line) (ft ft' : FT) (s : Sol) (li : Nat) (h : AllValid ft)
    (h1 : applySol lines ft s li = some ft') : AllValid ft' := by
  cases s with
  | mk ind cont decs =>
    unfold applySol at h1
    split at h1
    · cases h1
    · exact applyDecs_valid lines ind cont _ 0 ft ft' decs h h1

theorem applyDecs_valid (lines : List Line) (ind cont : Nat) (toks : List Nat) (i : Nat) (ft ft' : FT)
    (decs : List (Dec × List (Nat × Sol))) (h : AllValid ft)
    (h1 : applyDecs lines ind cont toks i ft decs = some ft') : AllValid ft' := by
  cases decs with
  | nil =>
    unfold applyDecs at h1
    simp only [Option.some.injEq] at h1
    subst h1; exact h
  | cons dk rest =>
    obtain ⟨d, children⟩ := dk
    unfold applyDecs at h1
    split at h1
    · cases h1
    · split at h1
      · cases h1
      · rename_i fta ha
        split at h1
        · cases h1
        · rename_i ftb hb
          exact applyDecs_valid lines ind cont toks (i + 1) ftb ft' rest
            (applyChildren_valid lines fta ftb children (setFmt_valid ft fta _ _ h ha) hb) h1

theorem applyChildren_valid (lines : List Line) (ft ft' : FT) (ks : List (Nat × Sol)) (h : AllValid ft)
    (h1 : applyChildren lines ft ks = some ft') : AllValid ft' := by
  cases ks with
  | nil =>
    unfold applyChildren at h1
    simp only [Option.some.injEq] at h1
    subst h1; exact h
  | cons k rest =>
    obtain ⟨li, s⟩ := k
    unfold applyChildren at h1
    split at h1
    · cases h1
    · rename_i fta ha
      exact applyChildren_valid lines fta ft' rest (applySol_valid lines ft fta s li h ha) h1
end

theorem applyLinesS_valid (phase : Nat) (lines : List Line) (is : List Nat) (st st1 : SearchState)
    (ft ft1 : FT) (acc sols : List (Nat × Nat × Sol)) (h : AllValid ft)
    (h1 : applyLinesS phase lines is st ft acc = some (ft1, st1, sols)) : AllValid ft1 := by
  induction is generalizing st ft acc with
  | nil =>
    unfold applyLinesS at h1
    simp only [Option.some.injEq, Prod.mk.injEq] at h1
    obtain ⟨rfl, _, _⟩ := h1; exact h
  | cons i rest ih =>
    unfold applyLinesS at h1
    split at h1
    · exact ih _ ft acc h h1
    · split at h1
      · cases h1
      · rename_i fta ha
        exact ih _ fta _ (applySol_valid lines ft fta _ i h ha) h1

theorem mlsLine_valid (S : Settings) (hS : AsciiSettings S) (toks : List Nat) (ft ft1 : FT) (ch : Bool)
    (h : AllValid ft) (h1 : mlsLine S toks ft = some (ft1, ch)) : AllValid ft1 := by
  induction toks generalizing ft ft1 ch with
  | nil =>
    unfold mlsLine at h1
    simp only [Option.some.injEq, Prod.mk.injEq] at h1
    obtain ⟨rfl, _⟩ := h1; exact h
  | cons idx rest ih =>
    unfold mlsLine at h1
    split at h1
    · cases h1
    · rename_i t ht
      simp only at h1
      have htv := h t (List.mem_of_getElem? ht)
      have key : ∀ r : Option Bytes, (∀ c, r = some c → ValidUtf8 c) →
          AllValid (match r with | some c => ft.set idx (t.setContent c) | none => ft) := by
        intro r hr
        cases r with
        | none => exact h
        | some c => exact h.set idx _ (setContent_valid t c htv (hr c rfl))
      split at h1
      · cases h1
      · rename_i ft2 ch2 h2
        simp only [Option.some.injEq, Prod.mk.injEq] at h1
        obtain ⟨rfl, _⟩ := h1
        refine ih _ ft2 ch2 (key _ ?_) h2
        intro c hc
        split at hc
        · exact mlsRewrite_valid S hS _ _ _ c htv.1 hc
        · cases hc

theorem mlsPass1_valid (S : Settings) (hS : AsciiSettings S) (lines : List Line) (ls : List (Line × Nat))
    (ft ft1 : FT) (acc out : List Nat) (h : AllValid ft)
    (h1 : mlsPass1 S lines ls ft acc = some (ft1, out)) : AllValid ft1 := by
  induction ls generalizing ft acc with
  | nil =>
    unfold mlsPass1 at h1
    simp only [Option.some.injEq, Prod.mk.injEq] at h1
    obtain ⟨rfl, _⟩ := h1; exact h
  | cons li rest ih =>
    obtain ⟨l, i⟩ := li
    unfold mlsPass1 at h1
    split at h1
    · cases h1
    · rename_i fta changed ha
      have ra := mlsLine_valid S hS l.tokens ft fta changed h ha
      split at h1
      · split at h1
        · cases h1
        · exact ih fta _ ra h1
      · exact ih fta _ ra h1

theorem mlsPass2_valid (S : Settings) (hS : AsciiSettings S) (ls : List Line) (ft ft1 : FT)
    (h : AllValid ft) (h1 : mlsPass2 S ls ft = some ft1) : AllValid ft1 := by
  induction ls generalizing ft with
  | nil =>
    unfold mlsPass2 at h1
    simp only [Option.some.injEq] at h1
    subst h1; exact h
  | cons l rest ih =>
    unfold mlsPass2 at h1
    split at h1
    · cases h1
    · rename_i fta ch ha
      exact ih fta (mlsLine_valid S hS l.tokens ft fta ch h ha) h1

theorem zero_valid (ft : FT) (h : AllValid ft) : AllValid (zeroLineStartSpaces ft) := by
  unfold zeroLineStartSpaces
  apply AllValid.map _ _ ft h
  intro t ht
  split
  · exact ht
  · exact ht

/-- **the wrapper stage with the search inside keeps every piece well-formed**, whatever the search returns -/
theorem wrapStageFull_valid (cfg : Config) (lines : List Line) (ft ftz : FT) (sols : List (Nat × Nat × Sol))
    (h : AllValid ft) (h1 : wrapStageFull cfg lines ft = some (ftz, sols)) : AllValid ftz := by
  have hS := config_settings_ascii cfg
  unfold wrapStageFull at h1
  simp only at h1
  split at h1
  · cases h1
  · rename_i fta sta solsa ha
    have ra := applyLinesS_valid 0 lines _ _ sta ft fta [] solsa h ha
    split at h1
    · simp only [Option.some.injEq, Prod.mk.injEq] at h1
      obtain ⟨rfl, _⟩ := h1
      exact zero_valid _ ra
    · split at h1
      · cases h1
      · rename_i ftb toReflow hb
        have rb := mlsPass1_valid cfg.settings hS lines _ fta ftb [] toReflow ra hb
        split at h1
        · cases h1
        · rename_i ftc stc solsc hc
          have rc := applyLinesS_valid 1 lines _ _ stc ftb ftc solsa solsc rb hc
          split at h1
          · cases h1
          · rename_i ftd hd
            have rd := mlsPass2_valid cfg.settings hS lines ftc ftd rc hd
            simp only [Option.some.injEq, Prod.mk.injEq] at h1
            obtain ⟨rfl, _⟩ := h1
            exact zero_valid _ rd

/-! ### 6. the whole formatter -/

theorem AllValid.piecesValid {ft : FT} (h : AllValid ft) : PiecesValid ft :=
  fun t ht => ⟨(h t ht).1, fun _ => (h t ht).2⟩

/-- on scanned tokens that are well-formed pieces, the closed model's output is the reconstruction of a token
    state of well-formed pieces -/
theorem formatTokensFull_pieces_valid (cfg : Config) (alnum : Bytes → Bool) (raw : List RawTok) (out : Bytes)
    (hraw : ∀ t ∈ raw, ValidUtf8 t.ws ∧ ValidUtf8 t.content)
    (h : formatTokensFull cfg alnum raw = some out) :
    ∃ ftz, out = reconstruct cfg.settings ftz ∧ AllValid ftz := by
  unfold formatTokensFull at h
  split at h
  · cases h
  · rename_i po hpo
    simp only at h
    split at h
    · cases h
    · rename_i ftz sols hw
      simp only [Option.some.injEq] at h
      exact ⟨ftz, h.symm, wrapStageFull_valid cfg _ _ ftz sols (preWrap_valid _ raw hraw) hw⟩

/-- **well-formed input gives a final token state of well-formed pieces** -/
theorem formatFull_pieces_valid (cfg : Config) (alnum : Bytes → Bool) (s out : Bytes) (hv : ValidUtf8 s)
    (h : formatFull cfg alnum s = some out) :
    ∃ ftz, out = reconstruct cfg.settings ftz ∧ PiecesValid ftz := by
  unfold formatFull at h
  split at h
  · cases h
  · rename_i raw hl
    obtain ⟨ftz, ho, hvz⟩ := formatTokensFull_pieces_valid cfg alnum raw out (lex_pieces_valid s raw hv hl) h
    exact ⟨ftz, ho, hvz.piecesValid⟩

/-- **well-formed input gives well-formed output** -/
theorem formatFull_output_valid_utf8 (cfg : Config) (alnum : Bytes → Bool) (s out : Bytes) (hv : ValidUtf8 s)
    (h : formatFull cfg alnum s = some out) : ValidUtf8 out := by
  obtain ⟨ftz, rfl, hp⟩ := formatFull_pieces_valid cfg alnum s out hv h
  exact reconGo_valid cfg.settings false ftz (config_settings_ascii cfg) hp

/-- the scanned tokens and the final token state of the closed model: what `formatFull` reconstructs its output
    from, and what cursor tracking (`trackCursors`) reads -/
def formatFullState (cfg : Config) (alnum : Bytes → Bool) (s : Bytes) : Option (List RawTok × FT) :=
  match lex s with
  | none => none
  | some raw =>
    match parseAndConsolidate raw with
    | none => none
    | some po =>
      let O : Oracles := { parser := fun _ => po, wrap := fun _ _ ft => ft, alnum := alnum }
      match wrapStageFull cfg (preWrap O raw).2.1 (preWrap O raw).2.2 with
      | none => none
      | some (ft2, _) => some (raw, ft2)

/-- `formatFull` is the reconstruction of that state -/
theorem formatFull_eq_state (cfg : Config) (alnum : Bytes → Bool) (s : Bytes) :
    formatFull cfg alnum s = (formatFullState cfg alnum s).map (fun p => reconstruct cfg.settings p.2) := by
  unfold formatFull formatFullState
  cases lex s with
  | none => rfl
  | some raw =>
    simp only
    unfold formatTokensFull
    cases parseAndConsolidate raw with
    | none => rfl
    | some po =>
      simp only
      cases wrapStageFull cfg
        (preWrap { parser := fun _ => po, wrap := fun _ _ ft => ft, alnum := alnum } raw).2.1
        (preWrap { parser := fun _ => po, wrap := fun _ _ ft => ft, alnum := alnum } raw).2.2 with
      | none => rfl
      | some r => rfl

theorem formatFullState_some_of_formatFull (cfg : Config) (alnum : Bytes → Bool) (s out : Bytes)
    (h : formatFull cfg alnum s = some out) :
    ∃ raw ftz, formatFullState cfg alnum s = some (raw, ftz) ∧ out = reconstruct cfg.settings ftz := by
  rw [formatFull_eq_state] at h
  cases hs : formatFullState cfg alnum s with
  | none => rw [hs] at h; cases h
  | some p =>
    rw [hs] at h
    simp only [Option.map_some, Option.some.injEq] at h
    exact ⟨p.1, p.2, rfl, h.symm⟩

/-- for well-formed input: the first component is the scanner's result, the output is the reconstruction of the
    second, and the second consists of well-formed pieces -/
theorem formatFullState_spec (cfg : Config) (alnum : Bytes → Bool) (s : Bytes) (raw : List RawTok) (ftz : FT)
    (hv : ValidUtf8 s) (h : formatFullState cfg alnum s = some (raw, ftz)) :
    lex s = some raw ∧ formatFull cfg alnum s = some (reconstruct cfg.settings ftz) ∧ AllValid ftz := by
  have hf : formatFull cfg alnum s = some (reconstruct cfg.settings ftz) := by
    rw [formatFull_eq_state, h]; rfl
  unfold formatFullState at h
  split at h
  · cases h
  · rename_i raw' hl
    split at h
    · cases h
    · rename_i po hpo
      simp only at h
      split at h
      · cases h
      · rename_i ft2 sols hw
        simp only [Option.some.injEq, Prod.mk.injEq] at h
        obtain ⟨rfl, rfl⟩ := h
        exact ⟨hl, hf, wrapStageFull_valid cfg _ _ ft2 sols
          (preWrap_valid _ raw' (lex_pieces_valid s raw' hv hl)) hw⟩

end Pasfmt.Utf8Pipeline
