/-
  The closed model of the whole formatter (`Model/PipelineFull.lean`) is an instance of the parametrised pipeline
  (`format cfg O`) for concrete components; the frame of the wrapper stage with the search inside follows as for
  `wrapStage` (the search only supplies solutions).  Hence the pipeline theorems hold for it outright.
-/
import PasfmtModel.Model.PipelineFull
import PasfmtModel.Proofs.WrapStageProps

namespace Pasfmt

theorem applyLinesS_rel (S : Settings) (phase : Nat) (lines : List Line) (is : List Nat) (st st' : SearchState)
    (ft ft' : FT) (acc acc' : List (Nat × Nat × Sol))
    (h : applyLinesS phase lines is st ft acc = some (ft', st', acc')) : All2 (StageRel S) ft ft' := by
  induction is generalizing st ft acc with
  | nil => simp [applyLinesS] at h; obtain ⟨rfl, _, _⟩ := h; exact All2.refl' (StageRel.refl S) ft
  | cons i rest ih =>
    unfold applyLinesS at h
    split at h
    · exact ih _ _ _ h
    · split at h
      · simp at h
      · rename_i s st1 hs ft1 h1
        exact all2_trans_stage (applySol_rel S lines ft ft1 _ i h1) (ih _ _ _ h)

/-- the wrapper stage with the model of the search inside keeps kinds, ignored flags and ignored tokens, keeps or
    drops leading whitespace and changes text only through the re-indenter -/
theorem wrapStageFull_rel (cfg : Config) (lines : List Line) (ft ft' : FT) (sols : List (Nat × Nat × Sol))
    (h : wrapStageFull cfg lines ft = some (ft', sols)) : All2 (StageRel cfg.settings) ft ft' := by
  have hS := settings_blank cfg
  unfold wrapStageFull at h
  simp only at h
  split at h
  · simp at h
  · rename_i ft1 st1 sols1 h1
    have r1 := applyLinesS_rel cfg.settings _ _ _ _ _ _ _ _ _ h1
    split at h
    · simp at h; obtain ⟨rfl, _⟩ := h
      exact all2_trans_stage r1 (zero_rel _ _)
    · split at h
      · simp at h
      · rename_i ft2 toReflow h2
        have r2 := mlsPass1_rel cfg.settings hS _ _ _ _ _ _ h2
        split at h
        · simp at h
        · rename_i ft3 st3 sols2 h3
          have r3 := applyLinesS_rel cfg.settings _ _ _ _ _ _ _ _ _ h3
          split at h
          · simp at h
          · rename_i ft4 h4
            have r4 := mlsPass2_rel cfg.settings hS _ _ _ h4
            simp at h; obtain ⟨rfl, _⟩ := h
            exact all2_trans_stage (all2_trans_stage (all2_trans_stage (all2_trans_stage r1 r2) r3) r4) (zero_rel _ _)

/-- the wrapper component of the closed model; the identity where the stage gives no answer -/
def wrapFull : Config → List Line → FT → FT :=
  fun cfg lines ft => match wrapStageFull cfg lines ft with | some (ft', _) => ft' | none => ft

theorem wrapFull_rel (cfg : Config) (lines : List Line) (ft : FT) : All2 (StageRel cfg.settings) ft (wrapFull cfg lines ft) := by
  unfold wrapFull
  split
  · rename_i ft' sols h; exact wrapStageFull_rel cfg lines ft ft' sols h
  · exact All2.refl' (StageRel.refl _) ft

/-- the components of the closed model, as an instance of the parametrised pipeline -/
def fullOracles (alnum : Bytes → Bool) (po : ParserOut) : Oracles :=
  { parser := fun _ => po, wrap := wrapFull, alnum := alnum }

theorem wrapFrame_full (alnum : Bytes → Bool) (po : ParserOut) : WrapFrame (fullOracles alnum po) := by
  intro cfg lines ft
  exact (wrapFull_rel cfg lines ft).imp (fun t t' h => by
    obtain ⟨_, _, w, _, s⟩ := h
    refine ⟨?_, s⟩
    intro hg
    rcases w with e | e
    · rw [e]; exact hg
    · rw [e]; exact Gap.nil)

theorem wrapKeepsIgnored_full (alnum : Bytes → Bool) (po : ParserOut) : WrapKeepsIgnored (fullOracles alnum po) := by
  intro cfg lines ft
  exact (wrapFull_rel cfg lines ft).imp (fun t t' h => by
    obtain ⟨_, i, _, g, _⟩ := h
    exact ⟨i, fun hi => by rw [g hi]; exact ⟨rfl, rfl⟩⟩)

/-- **the closed model is the parametrised pipeline at its own components**: whenever it answers, its answer is
    `formatTokens` for the oracles made of the parser model's result and the stage with the search inside -/
theorem formatTokensFull_eq (cfg : Config) (alnum : Bytes → Bool) (raw : List RawTok) (out : Bytes)
    (h : formatTokensFull cfg alnum raw = some out) :
    ∃ po, parseAndConsolidate raw = some po ∧ formatTokens cfg (fullOracles alnum po) raw = out := by
  unfold formatTokensFull at h
  split at h
  · simp at h
  · rename_i po hpo
    refine ⟨po, hpo, ?_⟩
    simp only at h
    split at h
    · simp at h
    · rename_i ft2 sols hw
      simp at h
      subst h
      unfold formatTokens preWrap fullOracles wrapFull
      simp only
      unfold preWrap at hw
      simp only at hw
      rw [hw]

/-- after the stage with the search inside no token that starts a line carries spaces -/
theorem wrapStageFull_no_spaces_at_line_start (cfg : Config) (lines : List Line) (ft ft' : FT) (sols : List (Nat × Nat × Sol))
    (h : wrapStageFull cfg lines ft = some (ft', sols)) : ∀ t ∈ ft', t.fmt.nl > 0 → t.fmt.sp = 0 := by
  have key : ∀ x : FT, ∀ t ∈ zeroLineStartSpaces x, t.fmt.nl > 0 → t.fmt.sp = 0 := by
    intro x t ht hn
    unfold zeroLineStartSpaces at ht
    obtain ⟨u, _, rfl⟩ := List.mem_map.1 ht
    split
    · rfl
    · rename_i hne
      split at hn
      · exact absurd ‹_› hne
      · exact absurd hn hne
  unfold wrapStageFull at h
  simp only at h
  split at h
  · simp at h
  · split at h
    · simp at h; obtain ⟨rfl, _⟩ := h; exact key _
    · split at h
      · simp at h
      · split at h
        · simp at h
        · split at h
          · simp at h
          · simp at h; obtain ⟨rfl, _⟩ := h; exact key _

end Pasfmt
