import PasfmtModel.Model.Pipeline
import PasfmtModel.Proofs.RulesSim
import PasfmtModel.Proofs.LexShape

namespace Pasfmt

/-- pointwise relation between two lists of equal length -/
inductive All2 {α β : Type} (R : α → β → Prop) : List α → List β → Prop
  | nil : All2 R [] []
  | cons {a b as bs} : R a b → All2 R as bs → All2 R (a :: as) (b :: bs)

theorem All2.flatMap_eq {α β : Type} {R : α → β → Prop} {f : α → Bytes} {g : β → Bytes}
    {as : List α} {bs : List β} (h : All2 R as bs) (hfg : ∀ a b, R a b → f a = g b) :
    as.flatMap f = bs.flatMap g := by
  induction h with
  | nil => rfl
  | cons hab _ ih => simp only [List.flatMap_cons, hfg _ _ hab, ih]

theorem All2.imp {α β : Type} {R S : α → β → Prop} {as : List α} {bs : List β}
    (h : All2 R as bs) (hi : ∀ a b, R a b → S a b) : All2 S as bs := by
  induction h with
  | nil => exact .nil
  | cons hab _ ih => exact .cons (hi _ _ hab) ih

theorem All2.trans {α β γ : Type} {R : α → β → Prop} {S : β → γ → Prop} {T : α → γ → Prop}
    {as : List α} {bs : List β} {cs : List γ}
    (h1 : All2 R as bs) (h2 : All2 S bs cs) (ht : ∀ a b c, R a b → S b c → T a c) : All2 T as cs := by
  induction h1 generalizing cs with
  | nil => cases h2; exact .nil
  | cons hab _ ih =>
    cases h2 with
    | cons hbc h2' => exact .cons (ht _ _ _ hab hbc) (ih h2')

theorem All2.map_right {α β γ : Type} {R : α → β → Prop} {S : α → γ → Prop} {as : List α} {bs : List β}
    (f : β → γ) (h : All2 R as bs) (hf : ∀ a b, R a b → S a (f b)) : All2 S as (bs.map f) := by
  induction h with
  | nil => exact .nil
  | cons hab _ ih => exact .cons (hf _ _ hab) ih

/-- mapping with the index (as `zipIdx.map` does) -/
theorem All2.zipIdx_map_right {α β γ : Type} {R : α → β → Prop} {S : α → γ → Prop} {as : List α} {bs : List β}
    (f : β × Nat → γ) (k : Nat) (h : All2 R as bs) (hf : ∀ a b i, R a b → S a (f (b, i))) :
    All2 S as ((bs.zipIdx k).map f) := by
  induction h generalizing k with
  | nil => exact .nil
  | cons hab _ ih =>
    rw [List.zipIdx_cons, List.map_cons]
    exact .cons (hf _ _ _ hab) (ih (k + 1))

theorem All2.refl_map {α β : Type} {R : α → β → Prop} (as : List α) (f : α → β) (hf : ∀ a, R a (f a)) :
    All2 R as (as.map f) := by
  induction as with
  | nil => exact .nil
  | cons a r ih => exact .cons (hf a) ih

/-- what C01 needs of a formatted token relative to the scanned token it came from -/
def TokRel (r : RawTok) (t : FTok) : Prop := Gap t.tok.ws ∧ Sim r.content t.tok.content

/-- what C01 needs of one wrapper-stage token step -/
def WrapRel (t t' : FTok) : Prop := (Gap t.tok.ws → Gap t'.tok.ws) ∧ Sim t.tok.content t'.tok.content

/-- frame clause of `WrapContract` used by C01: the wrapper keeps the token vector and may only
    re-indent text (blank-only changes; checked on every run on the stage's before/after state) -/
def WrapFrame (O : Oracles) : Prop := ∀ cfg lines ft, All2 WrapRel ft (O.wrap cfg lines ft)

theorem retype_rel (raw : List RawTok) (kinds : List Kind) (hgap : ∀ r ∈ raw, Gap r.ws) :
    All2 (fun (r : RawTok) (t : Tok) => Gap t.ws ∧ t.content = r.content) raw (retype raw kinds) := by
  induction raw generalizing kinds with
  | nil => exact .nil
  | cons r rs ih =>
    cases kinds with
    | nil =>
      rw [retype]
      exact .cons ⟨hgap r (by simp), rfl⟩ (ih [] (fun x hx => hgap x (by simp [hx])))
    | cons k ks =>
      rw [retype]
      exact .cons ⟨hgap r (by simp), rfl⟩ (ih ks (fun x hx => hgap x (by simp [hx])))

theorem setContent_rel (r : RawTok) (t : FTok) (c : Bytes) (h : TokRel r t) (hs : Sim t.tok.content c) :
    TokRel r (t.setContent c) := by
  unfold FTok.setContent
  split
  · exact h
  · exact ⟨Gap.nil, h.2.trans hs⟩

theorem tokenSpacing_rel (raw : List RawTok) (ft : FT) (h : All2 TokRel raw ft) :
    All2 TokRel raw (tokenSpacing ft) := by
  unfold tokenSpacing
  exact All2.zipIdx_map_right _ 0 h (fun r t i h => h)

theorem lowercase_rel (raw : List RawTok) (ft : FT) (h : All2 TokRel raw ft) :
    All2 TokRel raw (lowercaseKeywords ft) := by
  unfold lowercaseKeywords
  refine All2.map_right _ h ?_
  intro r t h
  unfold lowercaseTok
  split
  · exact setContent_rel r t _ h (sim_lower _)
  · exact h

theorem commentFormatter_rel (U : Bytes → Bool) (raw : List RawTok) (ft : FT) (h : All2 TokRel raw ft) :
    All2 TokRel raw (commentFormatter U ft) := by
  unfold commentFormatter
  refine All2.map_right _ h ?_
  intro r t h
  unfold commentFormatTok
  split
  · split
    · rename_i c hc; exact setContent_rel r t _ h (sim_formatCompilerDirective _ _ hc)
    · exact h
  · split
    · rename_i c hc; exact setContent_rel r t _ h (sim_formatCompilerDirective _ _ hc)
    · exact h
  · split
    · rename_i c hc; exact setContent_rel r t _ h (sim_formatLineComment _ _ _ hc)
    · exact h
  · split
    · rename_i c hc; exact setContent_rel r t _ h (sim_formatLineComment _ _ _ hc)
    · exact h
  · exact h

theorem eofNewline_rel (lines : List Line) (raw : List RawTok) (ft : FT) (h : All2 TokRel raw ft) :
    All2 TokRel raw (eofNewline lines ft) := by
  unfold eofNewline
  split
  · refine All2.zipIdx_map_right _ 0 h ?_
    intro r t i h
    simp only
    split
    · exact h
    · exact h
  · exact h

theorem new_rel (raw : List RawTok) (kinds : List Kind) (f : Nat → Bool) (hgap : ∀ r ∈ raw, Gap r.ws) :
    All2 TokRel raw (FT.new (retype raw kinds) f) := by
  unfold FT.new
  have := retype_rel raw kinds hgap
  refine All2.zipIdx_map_right _ 0 this ?_
  intro r t i ⟨hg, hc⟩
  exact ⟨hg, by show Sim r.content t.content; rw [hc]; exact Sim.refl _⟩

theorem preWrap_rel (O : Oracles) (raw : List RawTok) (hgap : ∀ r ∈ raw, Gap r.ws) :
    All2 TokRel raw (preWrap O raw).2.2 := by
  unfold preWrap
  simp only
  exact eofNewline_rel _ _ _ (commentFormatter_rel _ _ _ (lowercase_rel _ _ (tokenSpacing_rel _ _
    (new_rel raw _ _ hgap))))

/-! ### reconstruction -/

theorem settings_gap (c : Config) :
    Gap c.settings.nlStr ∧ Gap c.settings.indStr ∧ Gap c.settings.contStr := by
  unfold Config.settings
  have hnl : Gap (if c.crlf = true then [0x0D, 0x0A] else [0x0A] : Bytes) := by
    split
    · exact Gap.of_allLe20 (by intro b hb; simp at hb; rcases hb with rfl | rfl <;> decide)
    · exact Gap.of_allLe20 (by intro b hb; simp at hb; subst hb; decide)
  simp only
  split
  · exact ⟨hnl, Gap.replicate (by decide) _, Gap.replicate (by decide) _⟩
  · exact ⟨hnl, Gap.replicate (by decide) _, Gap.replicate (by decide) _⟩

theorem gapOf_gap (S : Settings) (hS : Gap S.nlStr ∧ Gap S.indStr ∧ Gap S.contStr) (t : FTok) (mb : Bool)
    (hws : Gap t.tok.ws) : Gap (gapOf S t mb) := by
  unfold gapOf
  simp only
  split
  · apply Gap.append _ hws
    split
    · exact hS.1
    · exact Gap.nil
  · exact Gap.append (Gap.append (Gap.append (Gap.replicateBytes hS.1 _) (Gap.replicateBytes hS.2.1 _))
      (Gap.replicateBytes hS.2.2 _)) (Gap.replicate (by decide) _)

theorem reconGo_strip (S : Settings) (hS : Gap S.nlStr ∧ Gap S.indStr ∧ Gap S.contStr) (ft : FT) (mb : Bool)
    (h : ∀ t ∈ ft, Gap t.tok.ws ∧ nd t.tok.content = true) :
    stripBlank (reconGo S mb ft) = ft.flatMap (fun t => stripBlank t.tok.content) := by
  induction ft generalizing mb with
  | nil => rfl
  | cons t r ih =>
    rw [reconGo, List.flatMap_cons, List.append_assoc]
    have ht := h t (by simp)
    rw [gapOf_gap S hS t mb ht.1, nd_closed _ ht.2, ih _ (fun x hx => h x (by simp [hx]))]

theorem flatText_strip (raw : List RawTok) (h : ∀ r ∈ raw, Gap r.ws ∧ nd r.content = true) :
    stripBlank (flatText raw) = raw.flatMap (fun r => stripBlank r.content) := by
  induction raw with
  | nil => rfl
  | cons r rs ih =>
    unfold flatText at ih ⊢
    rw [List.flatMap_cons, List.flatMap_cons, RawTok.text, List.append_assoc]
    have hr := h r (by simp)
    rw [hr.1, nd_closed _ hr.2, ih (fun x hx => h x (by simp [hx]))]

theorem asciiLower_flatMap {α : Type} (l : List α) (f : α → Bytes) :
    asciiLower (l.flatMap f) = l.flatMap (fun a => asciiLower (f a)) := by
  induction l with
  | nil => rfl
  | cons a r ih => rw [List.flatMap_cons, List.flatMap_cons, asciiLower_append, ih]

theorem All2.right_forall {α β : Type} {R : α → β → Prop} {P : α → Prop} {Q : β → Prop} {as : List α} {bs : List β}
    (h : All2 R as bs) (hp : ∀ a ∈ as, P a) (hq : ∀ a b, R a b → P a → Q b) : ∀ b ∈ bs, Q b := by
  induction h with
  | nil => intro b hb; simp at hb
  | cons hab _ ih =>
    intro b hb
    rcases List.mem_cons.1 hb with rfl | hb'
    · exact hq _ _ hab (hp _ (by simp))
    · exact ih (fun a ha => hp a (by simp [ha])) b hb'

theorem All2.strengthen_left {α β : Type} {R : α → β → Prop} {P : α → Prop} {as : List α} {bs : List β}
    (h : All2 R as bs) (hp : ∀ a ∈ as, P a) : All2 (fun a b => P a ∧ R a b) as bs := by
  induction h with
  | nil => exact .nil
  | cons hab _ ih => exact .cons ⟨hp _ (by simp), hab⟩ (ih (fun a ha => hp a (by simp [ha])))

/-- Core of C01 on token level. -/
theorem formatTokens_foldStrip (cfg : Config) (O : Oracles) (raw : List RawTok)
    (hW : WrapFrame O)
    (hraw : ∀ r ∈ raw, Gap r.ws ∧ nd r.content = true) :
    foldStrip (formatTokens cfg O raw) = foldStrip (flatText raw) := by
  unfold formatTokens
  simp only
  have hpre := preWrap_rel O raw (fun r hr => (hraw r hr).1)
  have hw := hW cfg (preWrap O raw).2.1 (preWrap O raw).2.2
  have hall : All2 TokRel raw (O.wrap cfg (preWrap O raw).2.1 (preWrap O raw).2.2) :=
    All2.trans hpre hw (fun r t t' h1 h2 => ⟨h2.1 h1.1, h1.2.trans h2.2⟩)
  have hft : ∀ t ∈ O.wrap cfg (preWrap O raw).2.1 (preWrap O raw).2.2, Gap t.tok.ws ∧ nd t.tok.content = true :=
    All2.right_forall (P := fun r => Gap r.ws ∧ nd r.content = true) hall hraw
      (fun r t h hp => ⟨h.1, (h.2 hp.2).1⟩)
  unfold foldStrip reconstruct
  rw [reconGo_strip _ (settings_gap cfg) _ _ hft, flatText_strip raw hraw, asciiLower_flatMap, asciiLower_flatMap]
  symm
  -- pointwise
  have : All2 (fun (r : RawTok) (t : FTok) => nd r.content = true ∧ TokRel r t) raw
      (O.wrap cfg (preWrap O raw).2.1 (preWrap O raw).2.2) :=
    All2.strengthen_left hall (fun r hr => (hraw r hr).2)
  exact All2.flatMap_eq this (fun r t h => ((h.2.2 h.1).2).symm)

end Pasfmt
