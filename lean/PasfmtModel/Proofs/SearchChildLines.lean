/-
  Where the search places CHILD lines (for C05): every child solution hanging off a decision of a solution returned by
  `find_optimal_solution` starts with the whitespace "the parent solution's starting whitespace (or none at all, when the
  children continue the parent's line), plus the child line's own level, minus at most one level", and its first
  decision is "break, no continuation" or "continue" as the chosen `ChildLineOption` says - at every nesting depth,
  whether the child solutions were computed or taken from the `child_line_cache`.

  Invariants: `CacheOk` (every cache entry is a list of such child solutions for the option in its key), `NodeOk`
  (all decisions on the path of a node), threaded through every function of the search.
-/
import PasfmtModel.Proofs.SearchFirstToken

namespace Pasfmt

/-! ### what a well-placed child solution is -/

/-- `child_starting_ws` of `find_optimal_child_lines_solution`: the whitespace an option hands to its child lines -/
def ChildLineOption.startingWs : ChildLineOption → ChildWhitespace
  | .continueAll => { whitespace := LineWhitespace.zero, deindent := 0 }
  | .breakAll ws | .continueThenBreak ws => ws

/-- does the `p`-th child line of this option start with a break? -/
def ChildLineOption.breaksAt : ChildLineOption → Nat → Bool
  | .continueAll, _ => false
  | .breakAll _, _ => true
  | .continueThenBreak _, p => p != 0

/-- the starting whitespace of a child line of level `level` -/
def childWs (cws : ChildWhitespace) (level : Nat) : LineWhitespace :=
  { cws.whitespace with indentations := (cws.whitespace.indentations + level) - cws.deindent }

/-- the `p`-th child solution of an option: its starting whitespace and its first decision -/
def ChildSolOk (O : Olf) (option : ChildLineOption) (p : Nat) (x : Nat × FormattingSolution) : Prop :=
  x.2.startingWs = childWs option.startingWs (O.lines[x.1]!).level ∧
  ((O.lines[x.1]!).tokens[0]?.isSome →
    (x.2.decisions.head?).map (·.decision) =
      some (if option.breaksAt p then rootDec O (O.lines[x.1]!) .brk else .cont))

/-- how the whitespace of an option comes from the starting whitespace `W` of the parent solution: no whitespace at all
    (`ContinueAll`), or `W`'s indentations, at least `W`'s continuations, and a de-indentation of at most one level -/
def OptionFrom (W : LineWhitespace) (option : ChildLineOption) : Prop :=
  option = .continueAll ∨
    (option.startingWs.whitespace.indentations = W.indentations ∧
      W.continuations ≤ option.startingWs.whitespace.continuations ∧ option.startingWs.deindent ≤ 1)

/-- all child solutions in the tree of a solution are well placed -/
inductive TreeOk (O : Olf) : FormattingSolution → Prop
  | mk (ws : LineWhitespace) (decs : List TokenDecision) (pen len : Nat)
      (h : ∀ d ∈ decs, ∃ option : ChildLineOption, OptionFrom ws option ∧
          ∀ p x, d.childSolutions[p]? = some x → ChildSolOk O option p x)
      (hrec : ∀ d ∈ decs, ∀ x ∈ d.childSolutions, TreeOk O x.2) :
      TreeOk O (.mk ws decs pen len)

/-- a list of child solutions of one option -/
def ChildListOk (O : Olf) (option : ChildLineOption) (sols : List (Nat × FormattingSolution)) : Prop :=
  (∀ p x, sols[p]? = some x → ChildSolOk O option p x) ∧ ∀ x ∈ sols, TreeOk O x.2

/-- the child solutions of one decision of a solution starting with whitespace `W` -/
def DecOk (O : Olf) (W : LineWhitespace) (d : TokenDecision) : Prop :=
  ∃ option : ChildLineOption, OptionFrom W option ∧ ChildListOk O option d.childSolutions

theorem treeOk_iff (O : Olf) (sol : FormattingSolution) :
    TreeOk O sol ↔ ∀ d ∈ sol.decisions, DecOk O sol.startingWs d := by
  constructor
  · intro h
    cases h with
    | mk ws decs pen len h hrec =>
      intro d hd
      obtain ⟨o, h1, h2⟩ := h d hd
      exact ⟨o, h1, h2, hrec d hd⟩
  · intro h
    cases sol with
    | mk ws decs pen len =>
      refine TreeOk.mk ws decs pen len (fun d hd => ?_) (fun d hd => ?_)
      · obtain ⟨o, h1, h2, _⟩ := h d hd
        exact ⟨o, h1, h2⟩
      · obtain ⟨o, h1, h2, h3⟩ := h d hd
        exact h3

theorem ChildListOk.nil (O : Olf) (option : ChildLineOption) : ChildListOk O option [] := by
  exact ⟨fun p x h => by simp at h, fun x h => by simp at h⟩

theorem DecOk.of_nil (O : Olf) (W : LineWhitespace) (d : TokenDecision) (h : d.childSolutions = []) : DecOk O W d :=
  ⟨.continueAll, Or.inl rfl, by rw [h]; exact ChildListOk.nil O _⟩

/-- every entry of the `child_line_cache` is a well-placed list of child solutions for the option in its key -/
def CacheOk (O : Olf) (cache : ChildLineCache) : Prop :=
  ∀ (key : ChildLineInitialConditions) sols, cache[key]? = some sols → ChildListOk O key.childLineOption sols

/-- a solver of child lines returns what it was asked for (`findOptimalSolution_key`) -/
def SolverKey (O : Olf) (solve : Solver) : Prop :=
  ∀ cache ws li fd sol cache', solve cache ws li fd = (.ok sol, cache') →
    sol.startingWs = ws ∧
      ((O.lines[li]!).tokens[0]?.isSome → (sol.decisions.head?).map (·.decision) = some (rootDec O (O.lines[li]!) fd))

/-- a solver of child lines keeps the cache well-formed and returns well-placed trees -/
def SolverOk (O : Olf) (solve : Solver) : Prop :=
  ∀ cache ws li fd, CacheOk O cache →
    CacheOk O (solve cache ws li fd).2 ∧ ∀ sol, (solve cache ws li fd).1 = .ok sol → TreeOk O sol

theorem rootDec_cont (O : Olf) (line : LineA) (a : Nat) (b : Bool) : rootDec O line (.cont a b) = .cont := rfl

theorem solveChildLines_ok (O : Olf) (solve : Solver) (hK : SolverKey O solve) (hT : SolverOk O solve)
    (option : ChildLineOption) :
    ∀ (ls : List Nat) (idx : Nat) (cache : ChildLineCache) (lll : Nat) (acc : List (Nat × FormattingSolution))
      (r : Option (List (Nat × FormattingSolution))) (cache' : ChildLineCache),
      CacheOk O cache → acc.length = idx → ChildListOk O option acc.reverse →
      solveChildLines O solve option option.startingWs ls idx cache lll acc = (r, cache') →
      CacheOk O cache' ∧ ∀ sols, r = some sols → ChildListOk O option sols := by
  intro ls
  induction ls with
  | nil =>
    intro idx cache lll acc r cache' hc hlen hacc h
    simp only [solveChildLines, Prod.mk.injEq] at h
    obtain ⟨rfl, rfl⟩ := h
    exact ⟨hc, fun sols hs => by cases hs; exact hacc⟩
  | cons childLine rest ih =>
    intro idx cache lll acc r cache' hc hlen hacc h
    unfold solveChildLines at h
    extract_lets line src cws fd at h
    have hok := hT cache cws childLine fd hc
    split at h
    · rename_i e c1 hs
      simp only [Prod.mk.injEq] at h
      obtain ⟨rfl, rfl⟩ := h
      rw [hs] at hok
      exact ⟨hok.1, fun sols hs => by cases hs⟩
    · rename_i solution c1 hs
      rw [hs] at hok
      obtain ⟨hk1, hk2⟩ := hK _ _ _ _ _ _ hs
      refine ih _ _ _ _ _ _ hok.1 (by simp [hlen]) ⟨?_, ?_⟩ h
      · intro p x hx
        rw [List.reverse_cons, List.getElem?_append] at hx
        split at hx
        · exact hacc.1 p x hx
        · rename_i hp
          simp only [List.length_reverse] at hp hx
          have hp0 : p = idx := by
            rcases Nat.lt_or_ge (p - acc.length) 1 with h1 | h1
            · omega
            · rw [List.getElem?_eq_none (by simpa using h1)] at hx; cases hx
          subst hp0
          rw [hlen, Nat.sub_self] at hx
          simp only [List.getElem?_cons_zero, Option.some.injEq] at hx
          subst hx
          refine ⟨hk1, fun hne => ?_⟩
          rw [hk2 hne]
          congr 1
          show rootDec O O.lines[childLine]! fd = _
          simp only [fd]
          cases option with
          | continueAll => rfl
          | breakAll ws => rfl
          | continueThenBreak ws =>
            simp only [ChildLineOption.breaksAt]
            by_cases h0 : p = 0
            · simp [h0, rootDec_cont]
            · simp [h0]
      · intro x hx
        simp only [List.reverse_cons, List.mem_append, List.mem_reverse, List.mem_singleton] at hx
        rcases hx with hx | rfl
        · exact hacc.2 x (by simpa using hx)
        · exact hok.2 _ rfl

theorem andThenM_spec {α β σ : Type} (Inv : σ → Prop) (Q : α → β → Prop) (p : Potentials α)
    (f : σ → α → Option β × σ)
    (hf : ∀ s a, a ∈ p.toList → Inv s → Inv (f s a).2 ∧ ∀ b, (f s a).1 = some b → Q a b) (s : σ) (hs : Inv s) :
    Inv (p.andThenM f s).2 ∧ ∀ b ∈ (p.andThenM f s).1.toList, ∃ a ∈ p.toList, Q a b := by
  cases p with
  | none => exact ⟨hs, fun b hb => by simp [Potentials.andThenM, Potentials.toList] at hb⟩
  | one a =>
    obtain ⟨h1, h2⟩ := hf s a (by simp [Potentials.toList]) hs
    cases hr : f s a with
    | mk ob s' =>
      rw [hr] at h1 h2
      cases ob with
      | none =>
        simp only [Potentials.andThenM, hr]
        exact ⟨h1, fun b hb => by simp [Potentials.toList] at hb⟩
      | some b =>
        simp only [Potentials.andThenM, hr]
        refine ⟨h1, fun b' hb => ?_⟩
        simp only [Potentials.toList, List.mem_singleton] at hb
        subst hb
        exact ⟨a, by simp [Potentials.toList], h2 _ rfl⟩
  | two a1 a2 =>
    obtain ⟨h1, h2⟩ := hf s a1 (by simp [Potentials.toList]) hs
    cases hr1 : f s a1 with
    | mk ob1 s1 =>
      rw [hr1] at h1 h2
      obtain ⟨h3, h4⟩ := hf s1 a2 (by simp [Potentials.toList]) h1
      cases hr2 : f s1 a2 with
      | mk ob2 s2 =>
        rw [hr2] at h3 h4
        cases ob1 with
        | none =>
          cases ob2 with
          | none =>
            simp only [Potentials.andThenM, hr1, hr2]
            exact ⟨h3, fun b hb => by simp [Potentials.toList] at hb⟩
          | some b2 =>
            simp only [Potentials.andThenM, hr1, hr2]
            refine ⟨h3, fun b' hb => ?_⟩
            simp only [Potentials.toList, List.mem_singleton] at hb
            subst hb
            exact ⟨a2, by simp [Potentials.toList], h4 _ rfl⟩
        | some b1 =>
          cases ob2 with
          | none =>
            simp only [Potentials.andThenM, hr1, hr2]
            refine ⟨h3, fun b' hb => ?_⟩
            simp only [Potentials.toList, List.mem_singleton] at hb
            subst hb
            exact ⟨a1, by simp [Potentials.toList], h2 _ rfl⟩
          | some b2 =>
            simp only [Potentials.andThenM, hr1, hr2]
            refine ⟨h3, fun b' hb => ?_⟩
            simp only [Potentials.toList, List.mem_cons, List.not_mem_nil, or_false] at hb
            rcases hb with rfl | rfl
            · exact ⟨a1, by simp [Potentials.toList], h2 _ rfl⟩
            · exact ⟨a2, by simp [Potentials.toList], h4 _ rfl⟩

theorem opts_ite {W : LineWhitespace} {c : Prop} [Decidable c] {a b : Potentials ChildLineOption}
    (ha : ∀ o ∈ a.toList, OptionFrom W o) (hb : ∀ o ∈ b.toList, OptionFrom W o) :
    ∀ o ∈ (if c then a else b).toList, OptionFrom W o := by
  split <;> assumption

theorem findOptimalChildLinesSolution_ok (O : Olf) (solve : Solver) (hK : SolverKey O solve) (hT : SolverOk O solve)
    (cache : ChildLineCache) (line : Nat × LineA) (nli : Nat) (W : LineWhitespace) (decision : DecisionRef)
    (stack : SpecificContextStack) (node : FormattingNode) (tll pc : Nat) (hc : CacheOk O cache) :
    CacheOk O (O.findOptimalChildLinesSolution solve cache line nli W decision stack node tll pc).2 ∧
    ∀ sols ∈ (O.findOptimalChildLinesSolution solve cache line nli W decision stack node tll pc).1.toList,
      ∃ option, OptionFrom W option ∧ ChildListOk O option sols := by
  unfold Olf.findOptimalChildLinesSolution
  extract_lets lineParent parentBaseWs parentIndentedWs brokenOrChild broken
  split
  · refine ⟨hc, fun sols hs => ?_⟩
    simp only [Potentials.toList, List.mem_singleton] at hs
    subst hs
    exact ⟨.continueAll, Or.inl rfl, ChildListOk.nil O _⟩
  · rename_i lineChildren hlc
    extract_lets startingContinuations childStartingWs getFirstChildToken parentTokenType first
    split
    · refine ⟨hc, fun sols hs => ?_⟩
      simp only [Potentials.toList, List.mem_singleton] at hs
      subst hs
      exact ⟨.continueAll, Or.inl rfl, ChildListOk.nil O _⟩
    · rename_i firstChild hfc
      extract_lets mustBreakFirstChild startingOptions
      have hopts : ∀ o ∈ startingOptions.toList, OptionFrom W o := by
        have hA : OptionFrom W .continueAll := Or.inl rfl
        have hB1 : OptionFrom W (.breakAll childStartingWs) := Or.inr ⟨by simp [ChildLineOption.startingWs, childStartingWs, LineWhitespace.add], by simp [ChildLineOption.startingWs, childStartingWs, LineWhitespace.add], by simp [ChildLineOption.startingWs, childStartingWs]⟩
        have hB2 : OptionFrom W (.breakAll parentBaseWs) := Or.inr ⟨rfl, Nat.le_refl _, Nat.le_refl _⟩
        have hB3 : OptionFrom W (.breakAll parentIndentedWs) := Or.inr ⟨rfl, Nat.le_refl _, Nat.zero_le _⟩
        have hC2 : OptionFrom W (.continueThenBreak parentBaseWs) := Or.inr ⟨rfl, Nat.le_refl _, Nat.le_refl _⟩
        clear_value childStartingWs parentBaseWs parentIndentedWs mustBreakFirstChild first parentTokenType broken
        simp only [startingOptions]
        repeat' with_reducible apply opts_ite
        all_goals first
          | (intro o ho; simp only [Potentials.toList, List.mem_cons, List.not_mem_nil, or_false] at ho <;>
             first
               | (rcases ho with rfl | rfl <;> assumption)
               | (subst ho; assumption)
               | exact ho.elim)
          | (repeat' split
             all_goals (intro o ho; simp only [Potentials.toList, List.mem_cons, List.not_mem_nil, or_false] at ho <;>
                        first
                          | (rcases ho with rfl | rfl <;> assumption)
                          | (subst ho; assumption)
                          | exact ho.elim))
      clear_value startingOptions
      have := andThenM_spec (CacheOk O) (fun o sols => OptionFrom W o ∧ ChildListOk O o sols) startingOptions
        (fun cache option =>
            have childStartingWs :=
              match option with
              | ChildLineOption.continueAll => { whitespace := LineWhitespace.zero, deindent := 0 }
              | ChildLineOption.breakAll ws => ws
              | ChildLineOption.continueThenBreak ws => ws;
            have cacheKey : ChildLineInitialConditions :=
              { lastLineLength := tll, parentLine := lineParent.fst, parentToken := lineParent.snd,
                childLineOption := option };
            match Std.HashMap.get? cache cacheKey with
            | some sol => (some sol, cache)
            | none =>
              match solveChildLines O solve option childStartingWs lineChildren.lineIndices.toList 0 cache tll [] with
              | (none, cache) => (none, cache)
              | (some childSolutions, cache) => (some childSolutions, Std.HashMap.insert cache cacheKey childSolutions))
        ?_ cache hc
      · refine ⟨this.1, fun sols hs => ?_⟩
        obtain ⟨o, _, h1, h2⟩ := this.2 sols hs
        exact ⟨o, h1, h2⟩
      · intro c o ho hcO
        dsimp only
        split
        · rename_i sol hg
          refine ⟨hcO, fun b hb => ?_⟩
          simp only [Option.some.injEq] at hb
          subst hb
          rw [Std.HashMap.get?_eq_getElem?] at hg
          exact ⟨hopts o ho, hcO _ _ hg⟩
        · split
          · rename_i c1 hs
            have : CacheOk O c1 ∧ ∀ sols, (none : Option (List (Nat × FormattingSolution))) = some sols → ChildListOk O o sols := by
              cases o <;> exact solveChildLines_ok O solve hK hT _ lineChildren.lineIndices.toList 0 c tll [] _ _ hcO rfl (ChildListOk.nil O _) hs
            exact ⟨this.1, fun b hb => by cases hb⟩
          · rename_i cs c1 hs
            have : CacheOk O c1 ∧ ∀ sols, some cs = some sols → ChildListOk O o sols := by
              cases o <;> exact solveChildLines_ok O solve hK hT _ lineChildren.lineIndices.toList 0 c tll [] _ _ hcO rfl (ChildListOk.nil O _) hs
            refine ⟨?_, fun b hb => ?_⟩
            · intro key sols hk
              rw [Std.HashMap.getElem?_insert] at hk
              split at hk
              · rename_i he
                have he' := eq_of_beq he
                simp only [Option.some.injEq] at hk
                subst hk
                rw [← he']
                exact this.2 _ rfl
              · exact this.1 _ _ hk
            · simp only [Option.some.injEq] at hb
              subst hb
              exact ⟨hopts o ho, this.2 _ rfl⟩

/-! ### the nodes of the search -/

/-- all decisions on the path of a node have well-placed child solutions -/
def NodeOk (O : Olf) (W : LineWhitespace) (n : FormattingNode) : Prop :=
  n.startingWs = W ∧ ∀ d ∈ n.decision.walkParentsData, DecOk O W d

/-- the starting whitespace and the decision path of a node -/
def FormattingNode.sd (n : FormattingNode) : LineWhitespace × DecisionRef := (n.startingWs, n.decision)

theorem sd_modifyData (n : FormattingNode) (i : Nat) (f : FormattingContextState → FormattingContextState) :
    (n.modifyData i f).sd = n.sd := by
  cases n; rfl

theorem NodeOk.of_sd {O : Olf} {W : LineWhitespace} {a b : FormattingNode} (h : a.sd = b.sd) (hb : NodeOk O W b) :
    NodeOk O W a := by
  have h1 : a.startingWs = b.startingWs := congrArg Prod.fst h
  have h2 : a.decision = b.decision := congrArg Prod.snd h
  unfold NodeOk; rw [h1, h2]; exact hb

/-- the solver of the child lines of a search environment does what `find_optimal_solution` does -/
def EnvOk (E : SearchEnv) : Prop := SolverKey E.O E.solveChild ∧ SolverOk E.O E.solveChild

theorem getPotentialSolution_ok (E : SearchEnv) (hE : EnvOk E) (W : LineWhitespace) (cache : ChildLineCache)
    (n : FormattingNode) (contexts : SpecificContextStack) (rd : RawDecision) (req : DR)
    (hc : CacheOk E.O cache) (hn : NodeOk E.O W n) :
    CacheOk E.O (E.getPotentialSolution cache n contexts rd req).2 ∧
    ∀ x ∈ (E.getPotentialSolution cache n contexts rd req).1.toList, NodeOk E.O W x := by
  unfold SearchEnv.getPotentialSolution
  extract_lets lineIndex n1 cc dec tll n2 gnn
  have h1 : n1.sd = n.sd := blind_updateContexts FormattingNode.sd sd_modifyData _ _ _ _
  have h2 : n2.sd = n.sd := h1
  have hn2 : NodeOk E.O W n2 := NodeOk.of_sd h2 hn
  have hg : ∀ cs, DecOk E.O W { requirement := req, decision := dec, lastLineLength := tll, childSolutions := cs } →
      NodeOk E.O W (gnn n2 cs) := by
    intro cs hd
    have h3 : (updateContextsFromChildSolutions contexts n2 cs).sd = n2.sd :=
      blind_updateContextsFromChildSolutions FormattingNode.sd sd_modifyData _ _ _
    have h4 : (updateContextsFromChildSolutions contexts n2 cs).startingWs = n2.startingWs := congrArg Prod.fst h3
    have h5 : (updateContextsFromChildSolutions contexts n2 cs).decision = n2.decision := congrArg Prod.snd h3
    refine ⟨h4.trans hn2.1, ?_⟩
    show ∀ d ∈ ((updateContextsFromChildSolutions contexts n2 cs).decision.addSuccessor _).walkParentsData, _
    rw [h5]
    intro d hd'
    simp only [DecisionRef.addSuccessor, DecisionRef.walkParentsData, List.mem_cons] at hd'
    rcases hd' with rfl | hd'
    · exact hd
    · exact hn2.2 d (by simp only [DecisionRef.walkParentsData, List.mem_cons]; exact hd')
  have hf := findOptimalChildLinesSolution_ok E.O E.solveChild hE.1 hE.2 cache E.line n2.nextLineIndex n2.startingWs
    n2.decision contexts n2 tll cc hc
  generalize E.O.findOptimalChildLinesSolution _ _ _ _ _ _ _ _ _ _ = r at hf ⊢
  rw [hn2.1] at hf
  obtain ⟨cls, c⟩ := r
  refine ⟨hf.1, ?_⟩
  cases cls with
  | none => intro x hx; simp [Potentials.toList] at hx
  | one a =>
    intro x hx; simp [Potentials.toList] at hx; subst hx
    exact hg a (hf.2 a (by simp [Potentials.toList]))
  | two a b =>
    intro x hx; simp [Potentials.toList] at hx
    rcases hx with rfl | rfl
    · exact hg a (hf.2 a (by simp [Potentials.toList]))
    · exact hg b (hf.2 b (by simp [Potentials.toList]))
theorem indiffLoop_ok (E : SearchEnv) (hE : EnvOk E) (W : LineWhitespace) :
    ∀ (fuel : Nat) (cache : ChildLineCache) (bp : Array Nat) (node : FormattingNode)
      (indiff : Option (FormattingNode × SpecificContextStack)),
      CacheOk E.O cache → NodeOk E.O W node → (∀ p, indiff = some p → NodeOk E.O W p.1) →
      (E.indiffLoop fuel cache bp node indiff).1.All (NodeOk E.O W) ∧
      CacheOk E.O (E.indiffLoop fuel cache bp node indiff).2.1 := by
  intro fuel
  induction fuel with
  | zero => intro cache bp node indiff hc hn hi; exact ⟨trivial, hc⟩
  | succ f ih =>
    intro cache bp node indiff hc hn hi
    have hg := getPotentialSolution_ok E hE W
    -- two calls of `get_potential_solution` in a row (break, then continue) from the same node
    have hpair : ∀ (c : ChildLineCache) (n : FormattingNode) (st : SpecificContextStack) (req : DR)
        (pre : List FormattingNode), CacheOk E.O c → NodeOk E.O W n → (∀ x ∈ pre, NodeOk E.O W x) →
        (∀ x ∈ pre ++ (E.getPotentialSolution c n st .brk req).1.toList ++
          (E.getPotentialSolution (E.getPotentialSolution c n st .brk req).2 n st .cont req).1.toList, NodeOk E.O W x) ∧
        CacheOk E.O (E.getPotentialSolution (E.getPotentialSolution c n st .brk req).2 n st .cont req).2 := by
      intro c n st req pre hcc hnn hpre
      obtain ⟨a1, a2⟩ := hg c n st .brk req hcc hnn
      obtain ⟨b1, b2⟩ := hg _ n st .cont req a1 hnn
      refine ⟨fun x hx => ?_, b1⟩
      simp only [List.mem_append] at hx
      rcases hx with (hx | hx) | hx
      · exact hpre x hx
      · exact a2 x hx
      · exact b2 x hx
    unfold SearchEnv.indiffLoop
    extract_lets lineIndex contexts ltl lcl lll tooLong requirement getSolutions continueWith indifferenceLine
    have hcw : ∀ c il l, CacheOk E.O c → (∀ p, il = some p → NodeOk E.O W p.1) → (∀ x ∈ l, NodeOk E.O W x) →
        (continueWith c il l).1.All (NodeOk E.O W) ∧ CacheOk E.O (continueWith c il l).2.1 := by
      intro c il l hcc hil hl
      simp only [continueWith]
      split
      · exact ih _ _ _ _ hcc (hl _ (by simp)) hil
      · split
        · rename_i indiff' stack
          have hk : NodeOk E.O W indiff' := hil _ rfl
          exact hpair c indiff' stack requirement l hcc hk hl
        · exact ⟨hl, hcc⟩
    clear_value tooLong requirement lineIndex contexts
    split
    · rename_i indiff' stack hif
      have hk : NodeOk E.O W indiff' := by
        split at hif
        · exact hi _ hif
        · cases hif
      extract_lets stack'
      have := hpair cache indiff' stack' .indifferent [] hc hk (by simp)
      simpa [IndiffOutcome.All] using this
    · split
      · exact ⟨hn, hc⟩
      · split
        · -- invalid
          split
          · rename_i indiff' stack _
            have hk : NodeOk E.O W indiff' := hi _ rfl
            have := hpair cache indiff' stack .invalid [] hc hk (by simp)
            simpa [getSolutions, IndiffOutcome.All] using this
          · exact ⟨trivial, hc⟩
        · -- mustBreak
          obtain ⟨a1, a2⟩ := hg cache node contexts .brk .mustBreak hc hn
          have hfold : ∀ (l : List FormattingNode) (acc : List FormattingNode × Array Nat), (∀ x ∈ l, NodeOk E.O W x) →
              (∀ x ∈ acc.1, NodeOk E.O W x) → ∀ x ∈ (l.foldl (fun (acc : List FormattingNode × Array Nat) (node : FormattingNode) =>
                if node.penalty < acc.2[lineIndex]! then (acc.1 ++ [node], acc.2.set! lineIndex node.penalty)
                else acc) acc).1, NodeOk E.O W x := by
            intro l
            induction l with
            | nil => intro acc _ ha; exact ha
            | cons y r ihl =>
              intro acc hl ha
              rw [List.foldl_cons]
              apply ihl _ (fun x hx => hl x (by simp [hx]))
              split
              · intro x hx
                simp only [List.mem_append, List.mem_singleton] at hx
                rcases hx with hx | rfl
                · exact ha x hx
                · exact hl _ (by simp)
              · exact ha
          have := hfold (getSolutions cache RawDecision.brk node contexts).1.toList ([], bp) a2 (by simp)
          exact ⟨this, a1⟩
        · obtain ⟨a1, a2⟩ := hg cache node contexts .cont .mustNotBreak hc hn
          exact hcw _ _ _ a1 hi a2
        · obtain ⟨a1, a2⟩ := hg cache node contexts .cont .indifferent hc hn
          refine hcw _ _ _ a1 ?_ a2
          intro p hp
          simp only [indifferenceLine] at hp
          split at hp
          · cases hp; exact hn
          · exact hi _ hp
theorem successorLoop_ok (E : SearchEnv) (hE : EnvOk E) (W : LineWhitespace) :
    ∀ (fuel : Nat) (heap : NodeHeap) (cache : ChildLineCache) (bp : Array Nat) (node : FormattingNode),
      HAll (NodeOk E.O W) heap → CacheOk E.O cache → NodeOk E.O W node →
      HAll (NodeOk E.O W) (E.successorLoop fuel heap cache bp node).1 ∧
      CacheOk E.O (E.successorLoop fuel heap cache bp node).2.1 := by
  intro fuel
  induction fuel with
  | zero => intro heap cache bp node H hc hn; exact ⟨H, hc⟩
  | succ f ih =>
    intro heap cache bp node H hc hn
    unfold SearchEnv.successorLoop
    have hi := indiffLoop_ok E hE W (E.line.2.tokens.size + 2) cache bp node none hc hn (by simp)
    split
    · rename_i n' c' bp' heq
      rw [heq] at hi
      exact ⟨heapPush_all _ _ H hi.1, hi.2⟩
    · rename_i c' bp' heq
      rw [heq] at hi
      exact ⟨H, hi.2⟩
    · rename_i single c' bp' heq
      rw [heq] at hi
      exact ih _ _ _ _ H hi.2 (hi.1 single (by simp))
    · rename_i l c' bp' _ heq
      rw [heq] at hi
      exact ⟨heapExtend_all _ _ H hi.1, hi.2⟩

theorem nodeHeapLoop_ok (E : SearchEnv) (hE : EnvOk E) (W : LineWhitespace) :
    ∀ (fuel : Nat) (heap : NodeHeap) (cache : ChildLineCache) (bp : Array Nat) (it : Nat),
      HAll (NodeOk E.O W) heap → CacheOk E.O cache →
      CacheOk E.O (E.nodeHeapLoop fuel heap cache bp it).2 ∧
      ∀ sol, (E.nodeHeapLoop fuel heap cache bp it).1 = .ok sol →
        ∃ node : FormattingNode, NodeOk E.O W node ∧ sol = node.intoSolution := by
  intro fuel
  induction fuel with
  | zero => intro heap cache bp it H hc; exact ⟨hc, fun sol h => by simp [SearchEnv.nodeHeapLoop] at h⟩
  | succ f ih =>
    intro heap cache bp it H hc
    unfold SearchEnv.nodeHeapLoop
    split
    · exact ⟨hc, fun sol h => by simp at h⟩
    · rename_i node heap' hp
      obtain ⟨hn, H'⟩ := heapPop_all heap H node heap' hp
      split
      · exact ⟨hc, fun sol h => by simp at h⟩
      · simp only []
        split
        · refine ⟨hc, fun sol h => ?_⟩
          simp only [Except.ok.injEq] at h
          exact ⟨node, hn, h.symm⟩
        · split
          · exact ih _ _ _ _ H' hc
          · have := successorLoop_ok E hE W (E.line.2.tokens.size + 2) heap' cache bp node H' hc hn
            exact ih _ _ _ _ this.1 this.2

theorem NodeOk.intoSolution {O : Olf} {W : LineWhitespace} {n : FormattingNode} (h : NodeOk O W n) :
    TreeOk O n.intoSolution := by
  rw [treeOk_iff]
  intro d hd
  have hd' : d ∈ n.decision.walkParentsData := by
    simpa [FormattingNode.intoSolution, FormattingSolution.decisions] using hd
  have : n.intoSolution.startingWs = W := h.1
  rw [this]
  exact h.2 d hd'
theorem sd_ite {c : Prop} [Decidable c] {a b : FormattingNode} {k : LineWhitespace × DecisionRef}
    (ha : a.sd = k) (hb : b.sd = k) : (if c then a else b).sd = k := by
  split <;> assumption

theorem findOptimalSolutionWith_ok (O : Olf) (solve : Solver) (hK : SolverKey O solve) (hT : SolverOk O solve)
    (cache : ChildLineCache) (ws : LineWhitespace) (lineIdx : Nat) (fd : FirstDecision) (hc : CacheOk O cache) :
    CacheOk O (O.findOptimalSolutionWith solve cache ws lineIdx fd).2 ∧
    ∀ sol, (O.findOptimalSolutionWith solve cache ws lineIdx fd).1 = .ok sol → TreeOk O sol := by
  unfold Olf.findOptimalSolutionWith
  extract_lets lineA line fc E bp inv ics
  have hE : EnvOk E := ⟨hK, hT⟩
  split
  · refine ⟨hc, fun sol h => ?_⟩
    simp only [Except.ok.injEq] at h
    subst h
    rw [treeOk_iff]
    intro d hd
    simp [FormattingSolution.decisions] at hd
  · rename_i t0 ht0
    extract_lets tl sb cl
    split
    rename_i newLine req lll bcb hq
    split
    · exact ⟨hc, fun sol h => by simp at h⟩
    · extract_lets root node0 node src1 src2 withChildren
      have hnode : node.sd = (ws, root) := by
        simp only [node]
        apply sd_ite
        · rw [sd_modifyData]; rfl
        · rfl
      have hws : node.startingWs = ws := congrArg Prod.fst hnode
      have hdec : node.decision = root := congrArg Prod.snd hnode
      have hf := findOptimalChildLinesSolution_ok O solve hK hT cache line 0 node.startingWs root ics node lll 0 hc
      generalize O.findOptimalChildLinesSolution _ _ _ _ _ _ _ _ _ _ = r at hf ⊢
      rw [hws] at hf
      obtain ⟨childSols, cache1⟩ := r
      have hwc : ∀ cs ∈ childSols.toList, NodeOk O ws (withChildren cs) := by
        intro cs hcs
        refine ⟨hws, ?_⟩
        intro d hd
        have : d = { decision := newLine, requirement := req, childSolutions := cs, lastLineLength := lll } := by
          simp only [withChildren, src1, src2, hdec, DecisionRef.walkParentsData] at hd
          simpa [root] using hd
        subst this
        exact hf.2 cs hcs
      clear_value withChildren node
      have fin : ∀ initial : List FormattingNode, (∀ x ∈ initial, NodeOk O ws x) →
          CacheOk O (E.nodeHeapLoop (O.iterationMax + 3) (heapExtend #[] initial) cache1 bp 0).2 ∧
          ∀ sol, (E.nodeHeapLoop (O.iterationMax + 3) (heapExtend #[] initial) cache1 bp 0).1 = .ok sol → TreeOk O sol := by
        intro initial hinit
        have hheap : HAll (NodeOk O ws) (heapExtend #[] initial) :=
          heapExtend_all #[] initial (fun i hi => absurd hi (Nat.not_lt_zero i)) hinit
        have := nodeHeapLoop_ok E hE ws (O.iterationMax + 3) _ cache1 bp 0 hheap hf.1
        refine ⟨this.1, fun sol h => ?_⟩
        obtain ⟨nd, h1, rfl⟩ := this.2 sol h
        exact h1.intoSolution
      cases childSols with
      | none => exact fin [] (by simp)
      | one a =>
        refine fin [withChildren a] ?_
        intro x hx; simp only [List.mem_singleton] at hx; subst hx; exact hwc _ (by simp [Potentials.toList])
      | two a b =>
        refine fin [withChildren b, withChildren b] ?_
        intro x hx; simp only [List.mem_cons, List.not_mem_nil, or_false, or_self] at hx; subst hx
        exact hwc _ (by simp [Potentials.toList])

/-- `find_optimal_solution`, at every depth of the recursion over child lines: it returns what it was asked for -/
theorem findOptimalSolution_solverKey (O : Olf) (fuel : Nat) : SolverKey O (O.findOptimalSolution fuel) :=
  fun cache ws li fd sol cache' h => findOptimalSolution_key O fuel cache ws li fd sol cache' h

/-- `find_optimal_solution` keeps the cache well-formed and returns well-placed trees -/
theorem findOptimalSolution_ok (O : Olf) : ∀ fuel : Nat, SolverOk O (O.findOptimalSolution fuel)
  | 0 => fun cache ws li fd hc => ⟨hc, fun sol h => by simp [Olf.findOptimalSolution] at h⟩
  | fuel + 1 => fun cache ws li fd hc => by
    unfold Olf.findOptimalSolution
    exact findOptimalSolutionWith_ok O _ (findOptimalSolution_solverKey O fuel) (findOptimalSolution_ok O fuel)
      cache ws li fd hc

/-- `format_line`: all child solutions in the tree of the solution it returns are well placed, and the cache stays
    well-formed -/
theorem format_line_children (O : Olf) (cache : ChildLineCache) (lineIdx : Nat) (hc : CacheOk O cache) :
    CacheOk O (O.formatLine cache lineIdx).2 ∧ ∀ sol, (O.formatLine cache lineIdx).1 = some sol → TreeOk O sol := by
  unfold Olf.formatLine
  split
  · exact ⟨hc, fun sol h => by simp at h⟩
  · rename_i line hl
    split
    · exact ⟨hc, fun sol h => by simp at h⟩
    · extract_lets fd
      have := findOptimalSolution_ok O (O.lines.size + 1) cache { indentations := line.level, continuations := 0 } lineIdx fd hc
      split
      · rename_i s c hs
        rw [hs] at this
        refine ⟨this.1, fun sol h => ?_⟩
        simp only [Option.some.injEq] at h
        subst h
        exact this.2 _ rfl
      · rename_i e c hs
        rw [hs] at this
        exact ⟨this.1, fun sol h => by simp at h⟩

theorem cacheOk_empty (O : Olf) : CacheOk O {} := by
  intro key sols h
  simp at h

/-! ### the same statements for another view of the tokens (same lines, same token types) -/

/-- two formatter states that the placement of child lines cannot tell apart: same lines, same token types -/
def SameView (O O' : Olf) : Prop := O'.lines = O.lines ∧ ∀ i, O'.getTokenType i = O.getTokenType i

theorem SameView.refl (O : Olf) : SameView O O := ⟨rfl, fun _ => rfl⟩
theorem SameView.symm {O O' : Olf} (h : SameView O O') : SameView O' O := ⟨h.1.symm, fun i => (h.2 i).symm⟩
theorem SameView.trans {O O' O'' : Olf} (h : SameView O O') (h' : SameView O' O'') : SameView O O'' :=
  ⟨h'.1.trans h.1, fun i => (h'.2 i).trans (h.2 i)⟩

theorem getFormattingInvariant_congr {O O' : Olf} (h : SameView O O') (li : Nat) (line : LineA) :
    O'.getFormattingInvariant li line = O.getFormattingInvariant li line := by
  unfold Olf.getFormattingInvariant Olf.getPrevTokenTypeForLineIndex Olf.getTokenTypeForLineIndex
  simp only [h.2]

theorem rootDec_congr {O O' : Olf} (h : SameView O O') (line : LineA) (fd : FirstDecision) :
    rootDec O' line fd = rootDec O line fd := by
  unfold rootDec
  rw [getFormattingInvariant_congr h]

theorem ChildSolOk.congr {O O' : Olf} (h : SameView O O') {option : ChildLineOption} {p : Nat}
    {x : Nat × FormattingSolution} (hx : ChildSolOk O option p x) : ChildSolOk O' option p x := by
  unfold ChildSolOk at hx ⊢
  rw [h.1, rootDec_congr h]
  exact hx

theorem TreeOk.congr {O O' : Olf} (h : SameView O O') {sol : FormattingSolution} (hs : TreeOk O sol) : TreeOk O' sol := by
  induction hs with
  | mk ws decs pen len h1 hrec ih =>
    refine TreeOk.mk ws decs pen len (fun d hd => ?_) ih
    obtain ⟨o, a, b⟩ := h1 d hd
    exact ⟨o, a, fun p x hx => (b p x hx).congr h⟩

theorem CacheOk.congr {O O' : Olf} (h : SameView O O') {cache : ChildLineCache} (hc : CacheOk O cache) :
    CacheOk O' cache := by
  intro key sols hk
  obtain ⟨a, b⟩ := hc key sols hk
  exact ⟨fun p x hx => (a p x hx).congr h, fun x hx => (b x hx).congr h⟩
/-! ### the wrapper stage -/

/-- the formatter state `format_line` runs in: the state of the stage and the live tokens -/
def stageOlf (st : SearchState) (ft : FT) : Olf :=
  { cfg := st.cfg, iterationMax := 20000, formattedTokens := (ft.map FTok.sview).toArray,
    lines := st.lines, lineChildren := st.lineChildren, tokenTypes := st.tokenTypes, tokenLengths := st.tokenLengths }

theorem searchSolve_eq (st : SearchState) (ft : FT) (i : Nat) :
    searchSolve st ft i =
      (((stageOlf st ft).formatLine st.childLineCache i).1.map (·.toSol (st.lines.size + 1)),
        { st with childLineCache := ((stageOlf st ft).formatLine st.childLineCache i).2 }) := rfl

theorem stageOlf_getTokenType (st : SearchState) (ft : FT) (i : Nat) : (stageOlf st ft).getTokenType i = kindAt ft i := by
  unfold Olf.getTokenType kindAt stageOlf
  simp only [List.getElem?_toArray, List.getElem?_map]
  cases ft[i]? <;> rfl

theorem stageOlf_sameView (st st' : SearchState) (ft ft' : FT) (hl : st'.lines = st.lines)
    (hk : ∀ j, kindAt ft' j = kindAt ft j) : SameView (stageOlf st ft) (stageOlf st' ft') :=
  ⟨hl, fun i => by rw [stageOlf_getTokenType, stageOlf_getTokenType, hk]⟩

/-- an applied solution `(phase, line, solution)` is the image of a search solution that starts with the line's level
    and whose child solutions are all well placed -/
def SolOk (O : Olf) (x : Nat × Nat × Sol) : Prop :=
  ∃ sol : FormattingSolution, x.2.2 = sol.toSol (O.lines.size + 1) ∧ TreeOk O sol ∧
    sol.startingWs = { indentations := (O.lines[x.2.1]!).level, continuations := 0 }

theorem applyLinesS_children (phase : Nat) (lines : List Line) (O0 : Olf) (is : List Nat) (st st1 : SearchState)
    (ft ft1 : FT) (acc sols : List (Nat × Nat × Sol))
    (h : applyLinesS phase lines is st ft acc = some (ft1, st1, sols))
    (hv : SameView O0 (stageOlf st ft)) (hc : CacheOk O0 st.childLineCache) (hacc : ∀ x ∈ acc, SolOk O0 x) :
    SameView O0 (stageOlf st1 ft1) ∧ CacheOk O0 st1.childLineCache ∧ ∀ x ∈ sols, SolOk O0 x := by
  induction is generalizing st ft acc with
  | nil => simp [applyLinesS] at h; obtain ⟨rfl, rfl, rfl⟩ := h; exact ⟨hv, hc, hacc⟩
  | cons i rest ih =>
    unfold applyLinesS at h
    have hfl := format_line_children (stageOlf st ft) st.childLineCache i (hc.congr hv)
    rw [searchSolve_eq] at h
    split at h
    · rename_i st' hs
      simp only [Prod.mk.injEq] at hs
      obtain ⟨_, rfl⟩ := hs
      exact ih _ _ _ h hv (hfl.1.congr hv.symm) hacc
    · rename_i s st' hs
      simp only [Prod.mk.injEq] at hs
      obtain ⟨hs1, rfl⟩ := hs
      split at h
      · simp at h
      · rename_i ft' ha
        have hv' : SameView O0 (stageOlf { st with childLineCache := ((stageOlf st ft).formatLine st.childLineCache i).2 } ft') :=
          hv.trans (stageOlf_sameView _ _ _ _ rfl (fun j => applySol_kindAt lines ft ft' s i ha j))
        refine ih _ _ _ h hv' (hfl.1.congr hv.symm) ?_
        intro x hx
        simp only [List.mem_append, List.mem_singleton] at hx
        rcases hx with hx | rfl
        · exact hacc x hx
        · cases hsol : ((stageOlf st ft).formatLine st.childLineCache i).1 with
          | none => rw [hsol] at hs1; simp at hs1
          | some sol =>
            rw [hsol] at hs1
            simp only [Option.map_some, Option.some.injEq] at hs1
            refine ⟨sol, ?_, (hfl.2 sol hsol).congr hv.symm, ?_⟩
            · show s = sol.toSol (O0.lines.size + 1)
              rw [← hs1, ← hv.1]; rfl
            · show sol.startingWs = { indentations := (O0.lines[i]!).level, continuations := 0 }
              rw [← hv.1]
              cases hl : (stageOlf st ft).lines[i]? with
              | none =>
                exfalso
                have : (stageOlf st ft).formatLine st.childLineCache i = (none, st.childLineCache) := by
                  unfold Olf.formatLine; rw [hl]
                rw [this] at hsol; cases hsol
              | some line =>
                have h1 := format_line_starting_ws (stageOlf st ft) st.childLineCache _ i line sol hl
                  (Prod.ext hsol rfl)
                rw [h1, getElem!_of_getElem? _ _ _ hl]

/-- THE WRAPPER STAGE, SEARCH INCLUDED: every solution the stage applies - first wrapping and re-wrapping - is the image
    of a search solution that starts with the line's level and no continuation, and in whose tree every child solution
    is well placed (`TreeOk`): starting whitespace derived from its parent solution's, its own line's level and the
    option chosen for it; first decision "break, no continuation" or "continue" as that option says -/
theorem wrapStageFull_children (cfg : Config) (lines : List Line) (ft ftz : FT) (sols : List (Nat × Nat × Sol))
    (h : wrapStageFull cfg lines ft = some (ftz, sols)) :
    ∀ x ∈ sols, SolOk (stageOlf (searchInit cfg lines ft) ft) x := by
  unfold wrapStageFull at h
  simp only [] at h
  split at h
  · simp at h
  · rename_i ft1 st1 sols1 h1
    obtain ⟨a1, b1, c1⟩ := applyLinesS_children 0 lines (stageOlf (searchInit cfg lines ft) ft) _ _ _ _ _ _ _ h1
      (SameView.refl _) (cacheOk_empty _) (by simp)
    split at h
    · simp only [Option.some.injEq, Prod.mk.injEq] at h
      obtain ⟨_, rfl⟩ := h
      exact c1
    · split at h
      · simp at h
      · rename_i ft2 toReflow h2
        split at h
        · simp at h
        · rename_i ft3 st3 sols2 h3
          split at h
          · simp at h
          · simp only [Option.some.injEq, Prod.mk.injEq] at h
            obtain ⟨_, rfl⟩ := h
            have hv2 : SameView (stageOlf (searchInit cfg lines ft) ft) (stageOlf st1 ft2) :=
              a1.trans (stageOlf_sameView _ _ _ _ rfl (fun j => (mlsPass1_at _ _ _ _ _ _ _ h2 j).1))
            exact (applyLinesS_children 1 lines _ _ _ _ _ _ _ _ h3 hv2 b1 c1).2.2
/-! ### reading the statement -/

/-- what `TreeOk` says about one child solution: there is an option, derived from the starting whitespace of the
    parent solution, such that the child solution is the `p`-th one of that option; and the same holds inside it -/
theorem TreeOk.child {O : Olf} {sol : FormattingSolution} (h : TreeOk O sol) {d : TokenDecision} (hd : d ∈ sol.decisions)
    {p : Nat} {x : Nat × FormattingSolution} (hx : d.childSolutions[p]? = some x) :
    ∃ option, OptionFrom sol.startingWs option ∧ ChildSolOk O option p x ∧ TreeOk O x.2 := by
  obtain ⟨o, h1, h2, h3⟩ := (treeOk_iff O sol).mp h d hd
  exact ⟨o, h1, h2 p x hx, h3 x (List.mem_of_getElem? hx)⟩

/-- the indentation of a child line, in numbers: either the children continue the parent's line (`ContinueAll`: the
    child solution starts with its own level and no continuation, and its first decision is "continue"), or the child
    solution starts with the parent solution's indentations plus its own level minus `k ≤ 1` levels, and with at least
    the parent solution's continuations -/
theorem child_starting_ws {O : Olf} {W : LineWhitespace} {option : ChildLineOption} {p : Nat}
    {x : Nat × FormattingSolution} (ho : OptionFrom W option) (hx : ChildSolOk O option p x) :
    (option = .continueAll ∧
        x.2.startingWs = { indentations := (O.lines[x.1]!).level, continuations := 0 }) ∨
      (∃ k, k ≤ 1 ∧ x.2.startingWs.indentations = W.indentations + (O.lines[x.1]!).level - k ∧
        W.continuations ≤ x.2.startingWs.continuations) := by
  rcases ho with rfl | ⟨h1, h2, h3⟩
  · left
    refine ⟨rfl, ?_⟩
    rw [hx.1]
    simp [childWs, ChildLineOption.startingWs, LineWhitespace.zero]
  · right
    refine ⟨option.startingWs.deindent, h3, ?_, ?_⟩
    · rw [hx.1]; simp [childWs, h1]
    · rw [hx.1]; exact h2

/-! ### `begin_style = always_wrap` -/

/-- the `starting_options` of `find_optimal_child_lines_solution` (the same text as in Model/Search.lean; that it is
    the same is `findOptimalChildLinesSolution_eq`, by `rfl`) -/
def startingOptionsOf (O : Olf) (lineChildren : LineChildren) (firstChild : LineA) (startingWs : LineWhitespace)
    (startingContinuations : Nat) (stack : SpecificContextStack) (node : FormattingNode) : Potentials ChildLineOption :=
  let childStartingWs : ChildWhitespace :=
    { whitespace := startingWs.add { indentations := 0, continuations := startingContinuations }, deindent := 0 }
  let getFirstChildToken : Unit → Option TokenType := fun _ =>
    ((lineChildren.lineIndices[0]?.bind fun lineIndex => O.lines[lineIndex]?).bind fun line => line.tokens[0]?).bind
      fun tokenIndex => O.getTokenType tokenIndex
  let parentBaseWs : ChildWhitespace := { whitespace := startingWs, deindent := 1 }
  let parentIndentedWs : ChildWhitespace := { whitespace := startingWs, deindent := 0 }
  let mustBreakFirstChild := O.getFormattingInvariant 0 firstChild == some .mustBreak
  let parentTokenType := O.getTokenType lineChildren.parentToken
  let brokenOrChild := fun (p : FormattingContext × FormattingContextState) => p.2.isBroken || p.2.isChildBroken
  if isKw parentTokenType (fun | .kBegin | .kProcedure | .kFunction => true | _ => false) then
    match (getLastContext stack node fun | .commaElem | .assignRHS => true | _ => false).bind
        (fun (_, data) => data.breakAnonymousRoutine) with
    | some false => if lineChildren.descendantCount ≤ 1 then .one .continueAll else .none
    | _ => .one (.breakAll childStartingWs)
  else if isOp parentTokenType (· == .oLParen) then
    if !(lineChildren.lineIndices.any fun index =>
        match O.lines[index]? with
        | some l => l.ltype == .lCaseHeader
        | none => false) then
      .two (.breakAll childStartingWs) .continueAll
    else
      .one (.breakAll childStartingWs)
  else if isKw parentTokenType (· == .kElse) then
    let first := getFirstChildToken ()
    if isKw first (· == .kIf) then
      if mustBreakFirstChild then .one (.breakAll parentIndentedWs)
      else .one (.continueThenBreak parentBaseWs)
    else if isKw first (· == .kBegin) then
      if O.breakBeforeBegin || mustBreakFirstChild then .one (.breakAll parentBaseWs)
      else .one (.continueThenBreak parentBaseWs)
    else .one (.breakAll childStartingWs)
  else if isKw parentTokenType (fun | .kThen | .kDo => true | _ => false) then
    let broken := (getLastContext stack node fun | .controlFlow | .forLoop => true | _ => false).map brokenOrChild
    let first := getFirstChildToken ()
    if broken == some false && isKw first (· == .kBegin) then
      if O.breakBeforeBegin || mustBreakFirstChild then .one (.breakAll parentBaseWs)
      else .two (.breakAll parentBaseWs) (.continueThenBreak parentBaseWs)
    else if isKw first (· == .kBegin) then .one (.breakAll parentBaseWs)
    else .one (.breakAll parentIndentedWs)
  else if isOp parentTokenType (· == .oColon) then
    let first := getFirstChildToken ()
    if isKw first (· == .kBegin) then
      if O.breakBeforeBegin || mustBreakFirstChild then .one (.breakAll parentBaseWs)
      else .two (.breakAll parentBaseWs) (.continueThenBreak parentBaseWs)
    else if isOp first (· == .oSemicolon) && lineChildren.descendantCount == 1 && !mustBreakFirstChild then
      .one .continueAll
    else if lineChildren.descendantCount == 1 then
      .two .continueAll (.breakAll parentIndentedWs)
    else .one (.breakAll parentIndentedWs)
  else
    if (getLastContext stack node ctAny).map brokenOrChild == some true then .one (.breakAll childStartingWs)
    else .none

/-- the part of `find_optimal_child_lines_solution` after the starting options: look each option up in the cache or
    solve its child lines and remember them -/
def childLinesOfOptions (O : Olf) (solveChild : Solver) (cache : ChildLineCache) (lineParent : Nat × Nat)
    (lineChildren : LineChildren) (tokenLineLength : Nat) (startingOptions : Potentials ChildLineOption) :
    Potentials (List (Nat × FormattingSolution)) × ChildLineCache :=
  startingOptions.andThenM (fun (cache : ChildLineCache) option =>
    let childStartingWs : ChildWhitespace :=
      match option with
      | .continueAll => { whitespace := LineWhitespace.zero, deindent := 0 }
      | .breakAll ws | .continueThenBreak ws => ws
    let cacheKey : ChildLineInitialConditions :=
      { lastLineLength := tokenLineLength, parentLine := lineParent.1, parentToken := lineParent.2,
        childLineOption := option }
    match cache.get? cacheKey with
    | some sol => (some sol, cache)
    | none =>
      match solveChildLines O solveChild option childStartingWs lineChildren.lineIndices.toList 0 cache tokenLineLength [] with
      | (none, cache) => (none, cache)
      | (some childSolutions, cache) => (some childSolutions, cache.insert cacheKey childSolutions)) cache

theorem findOptimalChildLinesSolution_eq (O : Olf) (solveChild : Solver) (cache : ChildLineCache) (line : Nat × LineA)
    (nextLineIndex : Nat) (startingWs : LineWhitespace) (decision : DecisionRef) (stack : SpecificContextStack)
    (node : FormattingNode) (tokenLineLength parentContinuations : Nat) :
    O.findOptimalChildLinesSolution solveChild cache line nextLineIndex startingWs decision stack node tokenLineLength
        parentContinuations =
      match O.lineChildren.get? (line.1, line.2.tokens[nextLineIndex]!) with
      | none => (.one [], cache)
      | some lineChildren =>
        match lineChildren.lineIndices[0]?.bind fun idx => O.lines[idx]? with
        | none => (.one [], cache)
        | some firstChild =>
          childLinesOfOptions O solveChild cache (line.1, line.2.tokens[nextLineIndex]!) lineChildren tokenLineLength
            (startingOptionsOf O lineChildren firstChild startingWs
              ((findContinuationsForTokenIndex lineChildren.parentToken line.2.tokens nextLineIndex decision).getD
                parentContinuations) stack node) := by
  rfl
theorem childLinesOfOptions_ok (O : Olf) (solve : Solver) (hK : SolverKey O solve) (hT : SolverOk O solve)
    (Q : ChildLineOption → Prop) (cache : ChildLineCache) (lineParent : Nat × Nat) (lineChildren : LineChildren)
    (tll : Nat) (opts : Potentials ChildLineOption) (hopts : ∀ o ∈ opts.toList, Q o) (hc : CacheOk O cache) :
    CacheOk O (childLinesOfOptions O solve cache lineParent lineChildren tll opts).2 ∧
    ∀ sols ∈ (childLinesOfOptions O solve cache lineParent lineChildren tll opts).1.toList,
      ∃ option, Q option ∧ ChildListOk O option sols := by
  unfold childLinesOfOptions
  have := andThenM_spec (CacheOk O) (fun o sols => Q o ∧ ChildListOk O o sols) opts
    (fun (cache : ChildLineCache) option =>
      let childStartingWs : ChildWhitespace :=
        match option with
        | .continueAll => { whitespace := LineWhitespace.zero, deindent := 0 }
        | .breakAll ws | .continueThenBreak ws => ws
      let cacheKey : ChildLineInitialConditions :=
        { lastLineLength := tll, parentLine := lineParent.1, parentToken := lineParent.2,
          childLineOption := option }
      match cache.get? cacheKey with
      | some sol => (some sol, cache)
      | none =>
        match solveChildLines O solve option childStartingWs lineChildren.lineIndices.toList 0 cache tll [] with
        | (none, cache) => (none, cache)
        | (some childSolutions, cache) => (some childSolutions, cache.insert cacheKey childSolutions))
    ?_ cache hc
  · refine ⟨this.1, fun sols hs => ?_⟩
    obtain ⟨o, _, h1, h2⟩ := this.2 sols hs
    exact ⟨o, h1, h2⟩
  · intro c o ho hcO
    dsimp only
    split
    · rename_i sol hg
      refine ⟨hcO, fun b hb => ?_⟩
      simp only [Option.some.injEq] at hb
      subst hb
      rw [Std.HashMap.get?_eq_getElem?] at hg
      exact ⟨hopts o ho, hcO _ _ hg⟩
    · split
      · rename_i c1 hs
        have : CacheOk O c1 ∧ ∀ sols, (none : Option (List (Nat × FormattingSolution))) = some sols → ChildListOk O o sols := by
          cases o <;> exact solveChildLines_ok O solve hK hT _ lineChildren.lineIndices.toList 0 c tll [] _ _ hcO rfl (ChildListOk.nil O _) hs
        exact ⟨this.1, fun b hb => by cases hb⟩
      · rename_i cs c1 hs
        have : CacheOk O c1 ∧ ∀ sols, some cs = some sols → ChildListOk O o sols := by
          cases o <;> exact solveChildLines_ok O solve hK hT _ lineChildren.lineIndices.toList 0 c tll [] _ _ hcO rfl (ChildListOk.nil O _) hs
        refine ⟨?_, fun b hb => ?_⟩
        · intro key sols hk
          rw [Std.HashMap.getElem?_insert] at hk
          split at hk
          · rename_i he
            have he' := eq_of_beq he
            simp only [Option.some.injEq] at hk
            subst hk
            rw [← he']
            exact this.2 _ rfl
          · exact this.1 _ _ hk
        · simp only [Option.some.injEq] at hb
          subst hb
          exact ⟨hopts o ho, this.2 _ rfl⟩

/-- the type of the first token of the first child line -/
def firstChildTokenType (O : Olf) (lineChildren : LineChildren) : Option TokenType :=
  ((lineChildren.lineIndices[0]?.bind fun lineIndex => O.lines[lineIndex]?).bind fun line => line.tokens[0]?).bind
    fun tokenIndex => O.getTokenType tokenIndex

/-- `begin_style = always_wrap`: for child lines that hang off `else`, `then`, `do` or the colon of a case arm and
    start with `begin`, the only starting option is "break before every child line, at the parent line's
    indentation" -/
theorem startingOptionsOf_begin_always_wrap (O : Olf) (lineChildren : LineChildren) (firstChild : LineA)
    (W : LineWhitespace) (sc : Nat) (stack : SpecificContextStack) (node : FormattingNode)
    (hbb : O.breakBeforeBegin = true)
    (hpt : O.getTokenType lineChildren.parentToken = some (.tKeyword .kElse) ∨
      O.getTokenType lineChildren.parentToken = some (.tKeyword .kThen) ∨
      O.getTokenType lineChildren.parentToken = some (.tKeyword .kDo) ∨
      O.getTokenType lineChildren.parentToken = some (.tOp .oColon))
    (hfirst : firstChildTokenType O lineChildren = some (.tKeyword .kBegin)) :
    ∀ o ∈ (startingOptionsOf O lineChildren firstChild W sc stack node).toList,
      o = .breakAll { whitespace := W, deindent := 1 } := by
  unfold firstChildTokenType at hfirst
  unfold startingOptionsOf
  simp only [hfirst, hbb]
  rcases hpt with h | h | h | h
  · simp [h, isKw, isOp, Potentials.toList]
  · simp only [h, isKw, isOp]
    simp only [Bool.false_eq_true, if_false, if_true, beq_self_eq_true, Bool.and_true, Bool.true_or]
    split <;> simp [Potentials.toList]
  · simp only [h, isKw, isOp]
    simp only [Bool.false_eq_true, if_false, if_true, beq_self_eq_true, Bool.and_true, Bool.true_or]
    split <;> simp [Potentials.toList]
  · simp [h, isKw, isOp, Potentials.toList]
/-- `begin_style = always_wrap` (the clause "`begin` goes on its own line", at the point where the search decides it;
    partial: not carried through to the solution the search returns, which would need the invariant `NodeOk` to
    remember which token a decision belongs to): when child lines hang off `else`, `then`, `do` or the colon of a case
    arm and the first of them starts with `begin`, every list of child solutions `find_optimal_child_lines_solution`
    offers - computed or cached - is one of the option "break before every child line, at the parent line's
    indentation": the `begin` line starts with `W`'s indentations plus its own level minus one level and `W`'s
    continuations, and its first decision is a break with no continuation (unless it must not be broken off its
    predecessor) -/
theorem begin_always_wrap_partial (O : Olf) (solve : Solver) (hK : SolverKey O solve) (hT : SolverOk O solve)
    (cache : ChildLineCache) (line : Nat × LineA) (nli : Nat) (W : LineWhitespace) (decision : DecisionRef)
    (stack : SpecificContextStack) (node : FormattingNode) (tll pc : Nat) (hc : CacheOk O cache)
    (hbb : O.breakBeforeBegin = true) (lineChildren : LineChildren)
    (hlc : O.lineChildren.get? (line.1, line.2.tokens[nli]!) = some lineChildren)
    (hpt : O.getTokenType lineChildren.parentToken = some (.tKeyword .kElse) ∨
      O.getTokenType lineChildren.parentToken = some (.tKeyword .kThen) ∨
      O.getTokenType lineChildren.parentToken = some (.tKeyword .kDo) ∨
      O.getTokenType lineChildren.parentToken = some (.tOp .oColon))
    (hfirst : firstChildTokenType O lineChildren = some (.tKeyword .kBegin)) :
    ∀ sols ∈ (O.findOptimalChildLinesSolution solve cache line nli W decision stack node tll pc).1.toList,
      ChildListOk O (.breakAll { whitespace := W, deindent := 1 }) sols ∧
      ∀ x, sols[0]? = some x →
        x.2.startingWs = { indentations := W.indentations + (O.lines[x.1]!).level - 1,
                           continuations := W.continuations } ∧
        ((O.lines[x.1]!).tokens[0]?.isSome →
          (x.2.decisions.head?).map (·.decision) = some (rootDec O (O.lines[x.1]!) .brk)) := by
  have key : ∀ sols ∈ (O.findOptimalChildLinesSolution solve cache line nli W decision stack node tll pc).1.toList,
      ChildListOk O (.breakAll { whitespace := W, deindent := 1 }) sols := by
    rw [findOptimalChildLinesSolution_eq]
    simp only [hlc]
    split
    · intro sols hs
      simp only [Potentials.toList, List.mem_singleton] at hs
      subst hs
      exact ChildListOk.nil O _
    · rename_i firstChild hfc
      intro sols hs
      obtain ⟨o, rfl, h2⟩ := (childLinesOfOptions_ok O solve hK hT
        (fun o => o = .breakAll { whitespace := W, deindent := 1 }) cache _ lineChildren tll _
        (startingOptionsOf_begin_always_wrap O lineChildren firstChild W _ stack node hbb hpt hfirst) hc).2 sols hs
      exact h2
  intro sols hs
  refine ⟨key sols hs, fun x hx => ?_⟩
  obtain ⟨h1, h2⟩ := (key sols hs).1 0 x hx
  refine ⟨?_, ?_⟩
  · rw [h1]; rfl
  · intro hne
    rw [h2 hne]; rfl

end Pasfmt
