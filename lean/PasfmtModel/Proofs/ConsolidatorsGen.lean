/-
  The generics consolidator only retypes `<` / `>` tokens (to the generic chevrons); it never changes the
  number of tokens or any other kind, and its inner scan always advances.
-/
import PasfmtModel.Model.Consolidators

namespace Pasfmt

/-- the only change a kind may undergo -/
def ChevRel (x y : Kind) : Prop :=
  x = y ∨ (∃ c, x = .tOp (.oLessThan c) ∧ y = .tOp (.oLessThan .chGeneric)) ∨
    (∃ c, x = .tOp (.oGreaterThan c) ∧ y = .tOp (.oGreaterThan .chGeneric))

theorem ChevRel.refl (x : Kind) : ChevRel x x := Or.inl rfl

theorem ChevRel.trans {x y z : Kind} (h1 : ChevRel x y) (h2 : ChevRel y z) : ChevRel x z := by
  rcases h1 with rfl | ⟨c, rfl, rfl⟩ | ⟨c, rfl, rfl⟩
  · exact h2
  · rcases h2 with rfl | ⟨c', h, rfl⟩ | ⟨c', h, rfl⟩
    · exact Or.inr (Or.inl ⟨c, rfl, rfl⟩)
    · exact Or.inr (Or.inl ⟨c, rfl, rfl⟩)
    · cases h
  · rcases h2 with rfl | ⟨c', h, rfl⟩ | ⟨c', h, rfl⟩
    · exact Or.inr (Or.inr ⟨c, rfl, rfl⟩)
    · cases h
    · exact Or.inr (Or.inr ⟨c, rfl, rfl⟩)

def ArrRel (a b : Array Kind) : Prop :=
  a.size = b.size ∧ ∀ i (h1 : i < a.size) (h2 : i < b.size), ChevRel a[i] b[i]

theorem ArrRel.refl (a : Array Kind) : ArrRel a a := ⟨rfl, fun _ _ _ => ChevRel.refl _⟩

theorem ArrRel.trans {a b c : Array Kind} (h1 : ArrRel a b) (h2 : ArrRel b c) : ArrRel a c :=
  ⟨h1.1.trans h2.1, fun i p q => (h1.2 i p (by have := h1.1; omega)).trans (h2.2 i (by have := h1.1; omega) q)⟩

theorem lt_of_getElem?_some {a : Array Kind} {j : Nat} {x : Kind} (h : a[j]? = some x) : j < a.size := by
  rcases Nat.lt_or_ge j a.size with hl | hl
  · exact hl
  · have : a[j]? = none := by simp; omega
    rw [this] at h; cases h

theorem getElem_of_getElem?_some {a : Array Kind} {j : Nat} {x : Kind} (h : a[j]? = some x) (hl : j < a.size) : a[j] = x := by
  simp [Array.getElem?_eq_getElem hl] at h; exact h

/-- every open entry of the stack points at a `<` -/
def StackInv (s : GState) : Prop :=
  ∀ p ∈ s.stack, ∃ c, s.kinds[p.openIdx]? = some (.tOp (.oLessThan c))

theorem popBrack_sub (b : Nat) (st : List TPState) : ∀ p ∈ (popBrack b st).1, p ∈ st := by
  induction st with
  | nil => simp [popBrack]
  | cons x r ih =>
    intro p hp
    unfold popBrack at hp
    split at hp
    · exact hp
    · exact List.mem_cons_of_mem _ (ih p hp)

theorem setLt_rel (a : Array Kind) (j : Nat) (c : ChevronKind) (h : a[j]? = some (.tOp (.oLessThan c))) :
    ArrRel a (a.setIfInBounds j (.tOp (.oLessThan .chGeneric))) := by
  refine ⟨by simp, ?_⟩
  intro i h1 h2
  by_cases e : j = i
  · subst e
    have hv : (a.setIfInBounds j (.tOp (.oLessThan .chGeneric)))[j] = .tOp (.oLessThan .chGeneric) := by simp
    rw [hv]
    exact Or.inr (Or.inl ⟨c, getElem_of_getElem?_some h h1, rfl⟩)
  · rw [Array.getElem_setIfInBounds_ne (h := e)]
    exact ChevRel.refl _

theorem setGt_rel (a : Array Kind) (j : Nat) (c : ChevronKind) (h : a[j]? = some (.tOp (.oGreaterThan c))) :
    ArrRel a (a.setIfInBounds j (.tOp (.oGreaterThan .chGeneric))) := by
  refine ⟨by simp, ?_⟩
  intro i h1 h2
  by_cases e : j = i
  · subst e
    have hv : (a.setIfInBounds j (.tOp (.oGreaterThan .chGeneric)))[j] = .tOp (.oGreaterThan .chGeneric) := by simp
    rw [hv]
    exact Or.inr (Or.inr ⟨c, getElem_of_getElem?_some h h1, rfl⟩)
  · rw [Array.getElem_setIfInBounds_ne (h := e)]
    exact ChevRel.refl _

/-- a `<` stays a `<` under the relation -/
theorem ArrRel.keepsLt {a b : Array Kind} (h : ArrRel a b) {j : Nat} {c : ChevronKind}
    (hj : a[j]? = some (.tOp (.oLessThan c))) : ∃ c', b[j]? = some (.tOp (.oLessThan c')) := by
  have hlt : j < a.size := lt_of_getElem?_some hj
  have hlt' : j < b.size := by have := h.1; omega
  have e1 : a[j] = .tOp (.oLessThan c) := getElem_of_getElem?_some hj hlt
  rcases h.2 j hlt hlt' with e | ⟨c2, _, e⟩ | ⟨c2, e0, _⟩
  · exact ⟨c, by rw [Array.getElem?_eq_getElem hlt', ← e, e1]⟩
  · exact ⟨.chGeneric, by rw [Array.getElem?_eq_getElem hlt', e]⟩
  · rw [e1] at e0; cases e0

theorem gStep_spec (s : GState) (i : Nat) (hinv : StackInv s) :
    ArrRel s.kinds (gStep s i).2.kinds ∧ StackInv (gStep s i).2 := by
  have base : ArrRel s.kinds s.kinds ∧ StackInv s := ⟨ArrRel.refl _, hinv⟩
  have lift : ∀ (tt : Option Kind) (s' : GState), ArrRel s.kinds s'.kinds → StackInv s' →
      ArrRel s.kinds (gUpd tt s').2.kinds ∧ StackInv (gUpd tt s').2 := by
    intro tt s' h1 h2
    have hk : (gUpd tt s').2.kinds = s'.kinds ∧ (gUpd tt s').2.stack = s'.stack := by
      unfold gUpd
      cases tt with
      | none => exact ⟨rfl, rfl⟩
      | some t => by_cases h : t.isCommentOrDirective <;> simp [h]
    obtain ⟨k, st⟩ := hk
    refine ⟨by rw [k]; exact h1, ?_⟩
    intro p hp
    rw [st] at hp
    rw [k]
    exact h2 p hp
  unfold gStep
  simp only
  split
  · -- `<`: push
    rename_i c hc
    apply lift
    · exact ArrRel.refl _
    · intro p hp
      rcases List.mem_cons.1 hp with e | e
      · subst e; exact ⟨c, hc⟩
      · exact hinv p e
  · (apply lift; exact ArrRel.refl _; exact hinv)
  · (apply lift; exact ArrRel.refl _; exact hinv)
  · (apply lift; exact ArrRel.refl _; exact hinv)
  · (apply lift; exact ArrRel.refl _; exact hinv)
  · (apply lift; exact ArrRel.refl _; exact hinv)
  · (apply lift; exact ArrRel.refl _; exact hinv)
  · (apply lift; exact ArrRel.refl _; exact hinv)
  · (apply lift; exact ArrRel.refl _; exact hinv)
  · -- `>`
    rename_i c hc
    split
    · exact base
    · split
      · exact base
      · rename_i closed rest hst
        have hclosed : ∃ c0, s.kinds[closed.openIdx]? = some (.tOp (.oLessThan c0)) := hinv closed (by rw [hst]; simp)
        obtain ⟨c0, hc0⟩ := hclosed
        have r1 := setLt_rel s.kinds closed.openIdx c0 hc0
        have hne : closed.openIdx ≠ i := by
          intro e; rw [e] at hc0; rw [hc] at hc0; cases hc0
        have hc1 : (s.kinds.setIfInBounds closed.openIdx (.tOp (.oLessThan .chGeneric)))[i]? = some (.tOp (.oGreaterThan c)) := by
          rw [Array.getElem?_setIfInBounds_ne hne]; exact hc
        have r2 := setGt_rel _ i c hc1
        have r := r1.trans r2
        apply lift
        · exact r
        · intro p hp
          have hp' : p ∈ s.stack := by rw [hst]; exact List.mem_cons_of_mem _ hp
          obtain ⟨cp, hcp⟩ := hinv p hp'
          exact r.keepsLt hcp
  · split
    · (apply lift; exact ArrRel.refl _; exact hinv)
    · exact base
  · split
    · apply lift
      · exact ArrRel.refl _
      · intro p hp
        exact hinv p (popBrack_sub _ _ p hp)
    · exact base
  · split
    · (apply lift; exact ArrRel.refl _; exact hinv)
    · split
      · (apply lift; exact ArrRel.refl _; exact hinv)
      · exact base
  all_goals first
    | exact base
    | (split
       · (apply lift; exact ArrRel.refl _; exact hinv)
       · exact base)


theorem gInner_spec (n : Nat) (s : GState) (i : Nat) (hinv : StackInv s) :
    ArrRel s.kinds (gInner n s i).1.kinds ∧ StackInv (gInner n s i).1 ∧ i ≤ (gInner n s i).2 := by
  fun_induction gInner n s i with
  | case1 s i h => exact ⟨ArrRel.refl _, hinv, Nat.le_refl _⟩
  | case2 s i h hlt s' hstep =>
    have := gStep_spec s i hinv
    rw [hstep] at this
    exact ⟨this.1, this.2, Nat.le_refl _⟩
  | case3 s i h hlt s' hstep ih =>
    have h1 := gStep_spec s i hinv
    rw [hstep] at h1
    obtain ⟨a, b, c⟩ := ih h1.2
    exact ⟨h1.1.trans a, b, by omega⟩
  | case4 s i h hlt => exact ⟨ArrRel.refl _, hinv, Nat.le_refl _⟩

/-- the scan that follows a `<` ends strictly after it: the `max` in `gOuter` is the identity -/
theorem gInner_ge (n : Nat) (s : GState) (i : Nat) (hinv : StackInv s) : i ≤ (gInner n s i).2 :=
  (gInner_spec n s i hinv).2.2

theorem gOuter_spec (n : Nat) (kinds : Array Kind) (i : Nat) : ArrRel kinds (gOuter n kinds i) := by
  fun_induction gOuter n kinds i with
  | case1 kinds i hlt c hk s0 s j hin ih =>
    have hinv : StackInv s0 := by
      intro p hp
      simp [s0] at hp
      subst hp
      exact ⟨c, hk⟩
    have := gInner_spec n s0 (i + 1) hinv
    rw [hin] at this
    exact this.1.trans ih
  | case2 kinds i hlt hne ih => exact ih
  | case3 kinds i hlt => exact ArrRel.refl _

/-- `DistinguishGenericTypeParamsConsolidator` keeps the number of tokens and only retypes `<`/`>` as generic chevrons -/
theorem genericsConsolidate_frame (kinds : List Kind) :
    (genericsConsolidate kinds).length = kinds.length ∧
    ∀ i (h1 : i < kinds.length) (h2 : i < (genericsConsolidate kinds).length),
      ChevRel kinds[i] (genericsConsolidate kinds)[i] := by
  have h := gOuter_spec kinds.length kinds.toArray 0
  unfold genericsConsolidate
  refine ⟨by simpa using h.1.symm, ?_⟩
  intro i h1 h2
  have := h.2 i (by simpa using h1) (by simpa using h2)
  simpa using this

end Pasfmt
