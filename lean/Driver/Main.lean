import PasfmtModel.Model.Driver

def main (args : List String) : IO Unit := Pasfmt.driverMain args
