#!/usr/bin/env python3
"""Writes MANIFEST.json from tools/props.py and the static texts below."""
import json, os, sys
ROOT = os.path.dirname(os.path.dirname(os.path.abspath(__file__)))
sys.path.insert(0, os.path.join(ROOT, "tools"))
from props import PROPS
from manifest_texts import TEXTS, NOT_APPLICABLE, HOOK_COMMITS

checks = []
for pid in sorted(PROPS):
    t = TEXTS[pid]
    checks.append({
        "property_id": pid,
        "quick_cmd": f"./check {pid} --tier quick",
        "thorough_cmd": f"./check {pid} --tier thorough",
        "evidence_file": f"/verif/evidence/{pid}.json",
        "replay_cmd_template": f"./check {pid} --replay {{path}}",
        "engine": "lean-model+correspondence",
        "level_claimed": {"category": PROPS[pid]["level"], "text": t["text"], "design_ref": t["design_ref"]},
        "level_note": t["note"],
        "technique": t["technique"],
    })
all_ids = ["C%02d" % i for i in range(1, 20)]
na = [{"property_id": p, "reason": NOT_APPLICABLE.get(p, "not yet claimed: model/theorems for this property are still being built (see DESIGN.md section 11)")}
      for p in all_ids if p not in PROPS]
m = {
    "version": 1,
    "setup_cmd": "./check --setup",
    "hooks": {
        "guard": "--cfg pasfmt_verif",
        "enable": "harness/.cargo/config.toml sets rustflags = [\"--cfg\", \"pasfmt_verif\"]; the harness crate has path dependencies on /repo/core, /repo/front-end, /repo/orchestrator and is rebuilt from the working tree by every check",
        "baseline_off_cmd": "cd /repo && cargo test --workspace --no-fail-fast --offline",
        "source_commits": HOOK_COMMITS,
        "add_only": True,
    },
    "engines": [{
        "name": "lean-model+correspondence",
        "path": "/verif/check",
        "serves_properties": sorted(PROPS),
        "kind_free_text": "Lean 4 theorems about a hand-written executable model (lean/PasfmtModel), tables regenerated from the Rust source by tools/extract.py on every run, model tied to the code by differential execution (Rust harness -> line protocol -> compiled Lean driver)",
    }],
    "checks": checks,
    "not_applicable": na,
    "notes": "Single entry point ./check <id> --tier quick|thorough. Evidence in evidence/<id>.json, replays in replays/<id>/, known findings in known_findings.json.",
}
with open(os.path.join(ROOT, "MANIFEST.json"), "w") as f:
    json.dump(m, f, indent=1)
print("MANIFEST.json written:", len(checks), "checks,", len(na), "not claimed")
