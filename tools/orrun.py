#!/usr/bin/env python3
import json,collections,subprocess,sys
seed=sys.argv[1] if len(sys.argv)>1 else "3"
count=sys.argv[2] if len(sys.argv)>2 else "1800"
oracles=sys.argv[3] if len(sys.argv)>3 else "c02,c03,c07,c08,c09,c10,c11,c12,c14,c15"
fams=sys.argv[4] if len(sys.argv)>4 else "seeds_sample,grammar,layout,soup,bytes,mutate"
subprocess.run(["/verif/harness/target/debug/pasfmt-verif-harness","emit","--stream","fmt","--seed",seed,"--count",count,"--out","/tmp/pv_or","--oracles",oracles,"--families",fams],stdout=subprocess.DEVNULL,stderr=subprocess.DEVNULL)
s=json.load(open('/tmp/pv_or/summary.json'))
c=collections.Counter(); ex={}
import re
for f in s['failures']:
    key=re.sub(r'\d+','N',f['what'])[:90]
    c[key]+=1
    ex.setdefault(key,f)
for k,v in c.most_common():
    f=ex[k]
    print(v,k)
    print('     ',f['family'],f['cfg'],f.get('cursors'),repr(bytes.fromhex(f['input_hex'] if f['input_hex']!='-' else '').decode()[:300]))
print(s['wall_s'], s['cases'])
