#!/usr/bin/env python3
"""Binary-level correspondence for C16-C19: runs the built pasfmt binary on temporary trees and
writes, in the same layout as the Rust harness' `emit` (cases.in / cases.exp / cases.meta /
summary.json), the records for the Lean driver (model inputs) and what the binary did (expected).

usage: iocheck.py <c16|c17|c18|c19> --seed N --count N --out DIR --bin PATH --harness PATH
"""
import json
import os
import random
import shutil
import subprocess
import sys
import tempfile
import time

ROOT = os.path.dirname(os.path.dirname(os.path.abspath(__file__)))


def hx(b):
    return b.hex() if b else "-"


ENCODINGS = {
    # name for -C encoding= : (python codec, sample text within the well-defined common subset)
    "utf-8": ("utf-8", "héllo 日本 Привет 😀"),
    "windows-1252": ("cp1252", "héllo àéîõü ß"),
    "iso-8859-2": ("iso8859_2", "Łódź žluťoučký"),
    "windows-1251": ("cp1251", "Привет мир"),
    "shift_jis": ("cp932", "日本語 テスト"),
    "gbk": ("gbk", "中文 测试"),
    "big5": ("big5", "中文 測試"),
    "euc-kr": ("cp949", "한국어 시험"),
    # a stateful 7-bit encoding (every byte is ASCII, the text is not), and further families
    "iso-2022-jp": ("iso2022_jp", "日本語 テスト"),
    "euc-jp": ("euc_jp", "日本語 テスト"),
    "gb18030": ("gb18030", "中文 测试 €"),
    "windows-1250": ("cp1250", "Łódź žluťoučký"),
    "koi8-r": ("koi8_r", "Привет мир"),
}
MALFORMED = {
    "utf-8": b"a := \xc3\x28;",
    "windows-1252": None,  # every byte decodes in WHATWG windows-1252
    "iso-8859-2": None,
    "windows-1251": None,
    "shift_jis": b"a := '\x81';\x81",
    "gbk": b"a := \xff;",
    "big5": b"a := \xff;",
    "euc-kr": b"a := \xff;",
    "iso-2022-jp": b"a := \x80;",
    "euc-jp": b"a := \xff;",
    "gb18030": b"a := \xff;",
    "windows-1250": None,
    "koi8-r": None,
}

PROGRAMS = [
    "a:=1;",
    "begin  x :=   1 ;y:=2;end;",
    "procedure Foo;\nbegin\n  Bar(1,2,3);\nend;\n",
    "if a then b:=1 else c:=2;",
    "a := 1;\n",
    "begin\nend;\n",
    "x := 'NON'; // NON\n",
    "type TFoo = class\nprivate\nFX: Integer;\npublic\nprocedure P;\nend;",
    "begin\n  // NON\n  Foo(NONID);\nend.\n",
    "",
    "   ",
    "unit U; interface implementation end.",
    "BEGIN END",
    "a := b + c * (d - e) / f;      \n\n\n\nz := 1;",
]


def load_seeds():
    p = os.path.join(ROOT, "corpus", "seeds.txt")
    try:
        return open(p, encoding="utf-8").read().split("\n!####SEED####!\n")
    except OSError:
        return []


class Ctx:
    def __init__(self, args):
        self.bin = args["bin"]
        self.harness = args["harness"]
        self.rng = random.Random(int(args["seed"]))
        self.count = int(args["count"])
        self.out = args["out"]
        self.seeds = load_seeds()
        self.fin = []
        self.fexp = []
        self.fmeta = []
        self.failures = []
        self.stats = {}
        self.samples = []
        self.distinct = set()
        self.tmp = tempfile.mkdtemp(prefix="pv_io_")

    def bump(self, k, n=1):
        self.stats[k] = self.stats.get(k, 0) + n

    def text(self, sample):
        r = self.rng
        base = r.choice(PROGRAMS) if r.random() < 0.6 or not self.seeds else r.choice(self.seeds)
        words = sample.split()
        ident = next((w for w in words if w.isidentifier()), "Foo")
        base = base.replace("NONID", ident).replace("NON", sample)
        # text outside ASCII is what distinguishes the encodings: most cases carry some
        if r.random() < (0.3 if sample.isascii() else 0.7):
            base += "\n// " + sample + "\n"
        if r.random() < 0.2:
            base = base + "\n" + "x := 'pad';\n" * r.randint(1, 200)
        # line terminators of the file: CRLF everywhere, CRLF on some lines only, and a last line without terminator, so
        # that the formatted result can differ from the content in terminators only (even with the same byte length)
        k = r.random()
        if k < 0.15:
            base = base.replace("\n", "\r\n")
        elif k < 0.3:
            base = "".join((ln + ("\r\n" if r.random() < 0.5 else "\n")) for ln in base.split("\n")[:-1]) + base.split("\n")[-1]
        if r.random() < 0.15:
            base = base.rstrip("\r\n")
        if r.random() < 0.05:
            base = r.choice(["a;\r\nb;", "a;\nb;\r\n\n", "unit foo;\n\ninterface\r\n\nimplementation\n\nend."])
        return base

    def fmt_many(self, items):
        """items: list of (cfgproto, text) -> list of formatted text (None on panic)"""
        inp = "".join("%s\t%s\n" % (c, hx(t.encode("utf-8"))) for c, t in items)
        p = subprocess.run([self.harness, "formatmany"], input=inp.encode(), stdout=subprocess.PIPE, stderr=subprocess.DEVNULL)
        out = []
        for line in p.stdout.decode().split("\n")[: len(items)]:
            if line in ("panic", "bad", ""):
                out.append(None)
            else:
                out.append(bytes.fromhex(line if line != "-" else "").decode("utf-8"))
        while len(out) < len(items):
            out.append(None)
        return out

    def run(self, argv, cwd=None, stdin=None, env=None):
        e = dict(os.environ)
        e.pop("RUST_LOG", None)
        if env:
            e.update(env)
        p = subprocess.run([self.bin] + argv, cwd=cwd, input=stdin, stdout=subprocess.PIPE, stderr=subprocess.PIPE, env=e, timeout=120)
        return p.returncode, p.stdout, p.stderr

    def emit(self, in_line, exp_line, meta, nontrivial_key=None):
        self.fin.append(in_line)
        self.fexp.append(exp_line)
        self.fmeta.append(meta)
        if nontrivial_key is not None:
            self.distinct.add(nontrivial_key)

    def finish(self, stream):
        os.makedirs(self.out, exist_ok=True)
        with open(os.path.join(self.out, "cases.in"), "w") as f:
            f.write("".join(x + "\n" for x in self.fin))
        with open(os.path.join(self.out, "cases.exp"), "w") as f:
            f.write("".join(x + "\n" for x in self.fexp))
        with open(os.path.join(self.out, "cases.meta"), "w") as f:
            f.write("".join(x + "\n" for x in self.fmeta))
        summ = {"stream": stream, "seed": 0, "cases": len(self.fin), "distinct_nontrivial": len(self.distinct), "wall_s": 0,
                "stats": self.stats, "failures": self.failures, "samples": self.samples[:5]}
        with open(os.path.join(self.out, "summary.json"), "w") as f:
            json.dump(summ, f)
        shutil.rmtree(self.tmp, ignore_errors=True)
        print(json.dumps(summ)[:300])


def enc_args(name):
    return ["-C", "encoding=" + name]


def table(pairs):
    return " ".join("%s:%s" % (hx(a), hx(b) if b is not None else "none") for a, b in pairs) or "-"


def io_case(ctx, i, focus):
    """one file x one mode; returns nothing, emits a record"""
    r = ctx.rng
    encname = r.choice(list(ENCODINGS)) if focus == "c17" or r.random() < 0.6 else "utf-8"
    codec, sample = ENCODINGS[encname]
    bom_kind = r.choice(["none", "none", "utf8", "utf16le", "utf16be"]) if focus == "c17" or r.random() < 0.3 else "none"
    text = ctx.text(sample)
    # blanks written as U+3000 (ideographic space, a blank for the scanner; common as indentation in CJK sources):
    # the formatter removes them, and in a stateful encoding each costs far more bytes than the blank that replaces
    # it, so the file can shrink in bytes while its text does not get shorter
    can_u3000 = True
    try:
        "\u3000".encode(codec)
    except UnicodeEncodeError:
        can_u3000 = False
    # (not for the stateful ISO-2022-JP in the random texts: Python's codec, which supplies the expected bytes, and
    # encoding_rs differ on where they switch character sets around runs of U+3000 in longer texts; the deterministic
    # shrink probe covers that encoding with texts on which both agree)
    if can_u3000 and encname != "iso-2022-jp" and r.random() < (0.3 if not sample.isascii() else 0.1):
        k = r.choice(["indent", "gaps", "short"])
        if k == "indent":
            text = "\n".join(("\u3000" * r.randint(1, 3) + ln.lstrip(" ")) if ln.startswith(" ") or r.random() < 0.3 else ln for ln in text.split("\n"))
        elif k == "gaps":
            text = text.replace(" := ", ":=\u3000", 2).replace(", ", ",\u3000", 2)
        else:
            text = r.choice(["a:=\u3000b;", "begin\n\u3000Foo;\n\u3000Bar;\n\u3000a:=b;\n\u3000c:=d;\nend;\n", "x\u3000:=\u30001;\n"])
        ctx.bump("text_with_U+3000_blanks")
    if bom_kind != "none" and r.random() < 0.15:
        # U+FEFF as the first character of the text itself (after the byte-order mark): it is content, not a second mark
        text = "\ufeff" + text
        ctx.bump("text_starts_with_U+FEFF")
    malformed = False
    if bom_kind == "utf8":
        bom, eff = b"\xef\xbb\xbf", "utf8"
        body = text.encode("utf-8")
    elif bom_kind == "utf16le":
        bom, eff = b"\xff\xfe", "utf16le"
        body = text.encode("utf-16-le")
    elif bom_kind == "utf16be":
        bom, eff = b"\xfe\xff", "utf16be"
        body = text.encode("utf-16-be")
    else:
        bom = b""
        eff = "utf8" if encname == "utf-8" else "other"
        try:
            body = text.encode(codec)
        except UnicodeEncodeError:
            text = "a := 1; // " + sample
            body = text.encode(codec)
    if r.random() < (0.25 if focus == "c17" else 0.08):
        malformed = True
        if bom_kind in ("utf16le", "utf16be"):
            body = body + (b"\x00" if r.random() < 0.5 else (b"\x00\xd8" if bom_kind == "utf16le" else b"\xd8\x00"))
        elif bom_kind == "utf8" or encname == "utf-8":
            body = MALFORMED["utf-8"]
        elif MALFORMED.get(encname):
            body = MALFORMED[encname]
        else:
            malformed = False
    if encname == "shift_jis" and bom_kind == "none" and not malformed and r.random() < 0.5:
        # non-canonical double-byte sequence FA 54 (decodes to U+FFE2, which encodes as 81 CA): targeted case for
        # the RoundTrip hypothesis of files_eq_stdout
        text = "a := 1; // \uffe2\n"
        body = b"a := 1; // \xfa\x54\n"
    content = bom + body
    mode = r.choice(["files", "files", "stdout", "check"])
    pathform = r.choice(["file", "dir", "glob", "files_from"])
    cfgproto = "w=120,b=0,m=1,t=0,tw=2,ci=2,crlf=0"
    # what the decoder yields (python side, only for the legacy codecs' tables)
    dec_text = None
    if not malformed:
        dec_text = text
    formatted = ctx.fmt_many([(cfgproto, dec_text)])[0] if dec_text is not None else None
    if dec_text is not None and formatted is None:
        return  # formatter panicked on this text: C04's business
    # run the binary
    d = os.path.join(ctx.tmp, "c%d" % i)
    os.makedirs(os.path.join(d, "sub"))
    # file names: mostly plain, sometimes with characters that path handling could trip over (only `*` makes an
    # argument a glob pattern; brackets, question marks, blanks, non-ASCII and upper-case extensions are literal)
    fname = r.choice(["unit1.pas"] * 6 + ["Unit1[1].pas", "a b.pas", "x?.pas", "unit(1).pas", "\u00fcnit\u65e5.pas",
                                          "{u}.pas", "U'1.pas", "-dash.pas", "un#it.pas", "unit1.PAS" if False else "unit..pas"])
    rel = "sub/" + fname
    fpath = os.path.join(d, "sub", fname)
    if r.random() < 0.15:
        # the entry is a symbolic link to a source file kept elsewhere (shared units): every path form reaches the file
        # through the link
        os.makedirs(os.path.join(d, "real"))
        with open(os.path.join(d, "real", fname), "wb") as f:
            f.write(content)
        os.symlink(os.path.join("..", "real", fname), fpath)
        ctx.bump("symlinked_entry")
    else:
        with open(fpath, "wb") as f:
            f.write(content)
    ctx.bump("fname:" + ("plain" if fname == "unit1.pas" else "unusual"))
    if pathform == "file":
        pargs, shown = ["--", rel] if fname.startswith("-") else [rel], rel
    elif pathform == "dir":
        pargs, shown = ["sub"], rel
    elif pathform == "glob":
        pargs, shown = ["sub/*.pas"], rel
    else:
        # the list is newline separated; lists written on Windows end their lines with CRLF, the last line may lack
        # its terminator
        term = r.choice(["\n", "\n", "\r\n", "\r\n", ""])
        with open(os.path.join(d, "list.txt"), "wb") as f:
            f.write((rel + term).encode("utf-8"))
        ctx.bump("list_term:" + {"\n": "lf", "\r\n": "crlf", "": "none"}[term])
        pargs, shown = ["--files-from", "list.txt"], rel
    base = ["-C", "line_ending=lf"] + enc_args(encname)
    rc, so, se = ctx.run(base + ["--mode", mode] + pargs, cwd=d)
    after = open(fpath, "rb").read()
    rc_in, so_in, _ = ctx.run(base, cwd=d, stdin=content)
    rc_chk, _, _ = ctx.run(base + ["--mode", "check"], cwd=d, stdin=content)
    ctx.bump("mode:" + mode)
    ctx.bump("enc:" + encname)
    ctx.bump("bom:" + bom_kind)
    ctx.bump("path:" + pathform)
    ctx.bump("malformed", int(malformed))
    if formatted is not None:
        ctx.bump("result_shorter", int(len(formatted) < len(dec_text)))
        ctx.bump("result_longer", int(len(formatted) > len(dec_text)))
        ctx.bump("result_equal_text", int(formatted == dec_text))
    # tables for the model
    fmt_t = [(dec_text.encode("utf-8"), formatted.encode("utf-8"))] if dec_text is not None else []
    dec_t, enc_t = [], []
    if eff == "other":
        if malformed:
            dec_t = [(body, None)]
        else:
            dec_t = [(body, dec_text.encode("utf-8"))]
            try:
                enc_t = [(formatted.encode("utf-8"), formatted.encode(codec)), (dec_text.encode("utf-8"), dec_text.encode(codec))]
            except UnicodeEncodeError:
                enc_t = [(formatted.encode("utf-8"), None)]
    header = (shown + ":\n").encode()
    in_line = "io\t%s\t%s\t%s\t%s\t%s\t%s\t%s" % (mode, eff, hx(content), hx(header), table(fmt_t), table(dec_t), table(enc_t))
    exp = "file=%s\tstdout=%s\tfailed=%d\tstdin=%s\tcheckstdin=%d" % (
        hx(after), hx(so), int(rc != 0), hx(so_in) if rc_in == 0 else "fail", int(rc_chk != 0))
    ctx.emit(in_line, exp, "%s\t%s\t%s" % (focus, "mode=%s,enc=%s,bom=%s,path=%s,name=%s,malformed=%d" % (mode, encname, bom_kind, pathform, fname.encode("unicode_escape").decode(), malformed), hx(content)),
             nontrivial_key=(content, mode, encname))
    if len(ctx.samples) < 5:
        ctx.samples.append({"mode": mode, "encoding": encname, "bom": bom_kind, "path": pathform, "malformed": malformed, "text": text[:120]})
    # direct oracles (property text), independent of the model
    if rc in (101, -6, -11):
        ctx.failures.append({"kind": "oracle", "what": "%s: binary aborted (rc=%d)" % (focus, rc), "cfg": "mode=%s,enc=%s" % (mode, encname), "input_hex": hx(content), "family": focus})
    if mode != "files" and after != content:
        ctx.failures.append({"kind": "oracle", "what": "c16: %s mode modified the file" % mode, "cfg": "enc=" + encname, "input_hex": hx(content), "family": focus})
    if malformed and (after != content or rc == 0):
        ctx.failures.append({"kind": "oracle", "what": "c17: malformed input was rewritten or not reported", "cfg": "mode=%s,enc=%s,bom=%s" % (mode, encname, bom_kind), "input_hex": hx(content), "family": focus})
    if mode == "files" and not malformed and rc_in == 0 and after != so_in:
        ctx.failures.append({"kind": "oracle", "what": "c16: files mode leaves bytes different from what stdin->stdout prints", "cfg": "enc=%s,bom=%s,mode=%s,path=%s,name=%s" % (encname, bom_kind, mode, pathform, fname.encode("unicode_escape").decode()), "input_hex": hx(content), "family": focus})
    if mode == "check" and not malformed and (rc == 0) != (content == so_in) and rc_in == 0:
        ctx.failures.append({"kind": "oracle", "what": "c16: check mode exit status does not match 'content equals the result'", "cfg": "enc=%s,bom=%s,mode=%s,path=%s,name=%s" % (encname, bom_kind, mode, pathform, fname.encode("unicode_escape").decode()), "input_hex": hx(content), "family": focus})
    if not malformed and formatted is not None and rc_in != 0:
        try:
            formatted.encode({"utf8": "utf-8", "utf16le": "utf-16-le", "utf16be": "utf-16-be"}.get(eff, codec))
            ctx.failures.append({"kind": "oracle", "what": "c17: input that is well-formed in the selected encoding is rejected", "cfg": "enc=%s,bom=%s,mode=%s" % (encname, bom_kind, mode), "input_hex": hx(content), "family": focus})
        except UnicodeEncodeError:
            pass
    if not malformed and formatted is not None and rc_in == 0:
        py_codec = {"utf8": "utf-8", "utf16le": "utf-16-le", "utf16be": "utf-16-be"}.get(eff, codec)
        try:
            want = bom + formatted.encode(py_codec)
            if so_in != want and not (encname == "shift_jis" and b"\xfa\x54" in content):
                ctx.failures.append({"kind": "oracle", "what": "c17: bytes written differ from BOM + encode(format(decode(input)))", "cfg": "enc=%s,bom=%s,mode=%s,path=%s,name=%s" % (encname, bom_kind, mode, pathform, fname.encode("unicode_escape").decode()), "input_hex": hx(content), "family": focus})
        except UnicodeEncodeError:
            pass
    if not malformed and bom and rc_in == 0 and not so_in.startswith(bom):
        ctx.failures.append({"kind": "oracle", "what": "c17: BOM not preserved", "cfg": "enc=%s,bom=%s,mode=%s,path=%s,name=%s" % (encname, bom_kind, mode, pathform, fname.encode("unicode_escape").decode()), "input_hex": hx(content), "family": focus})


SHRINK_TEXTS = [
    # results shorter in bytes than the original, by different amounts per encoding; U+3000 is a blank for the scanner
    "a:=\u3000b;",
    "begin\n\u3000Foo;\n\u3000Bar;\n\u3000a:=b;\n\u3000c:=d;\nend;\n",
    "x\u3000:=\u30001;\n",
    "a   :=   1   ;   // \u65e5\u672c   \n\n\n\n",
    "\u3000\u3000\u3000begin\u3000end\u3000.\u3000\u3000",
]


def shrink_probe(ctx, focus):
    """files mode vs stdin->stdout on texts whose result is shorter in bytes than the original (no stale tail), in every
    encoding that can write them: the byte length and the text length can move in opposite directions (stateful
    ISO-2022-JP: a U+3000 costs eight bytes, the blank that replaces it one)"""
    n = 0
    for encname, (codec, _) in ENCODINGS.items():
        for t in SHRINK_TEXTS:
            try:
                body = t.encode(codec)
            except UnicodeEncodeError:
                continue
            d = os.path.join(ctx.tmp, "shrink%d" % n)
            n += 1
            os.makedirs(d)
            p = os.path.join(d, "u.pas")
            with open(p, "wb") as f:
                f.write(body)
            base = ["-C", "line_ending=lf"] + enc_args(encname)
            rc_in, so_in, _ = ctx.run(base, cwd=d, stdin=body)
            rc, _, _ = ctx.run(base + ["u.pas"], cwd=d)
            got = open(p, "rb").read()
            ctx.bump("shrink_probes")
            if rc_in == 0 and rc == 0 and got != so_in:
                ctx.failures.append({"kind": "oracle", "what": "c16: files mode leaves bytes different from what stdin->stdout prints",
                                     "cfg": "enc=%s,bom=none,mode=files,path=file,name=u.pas" % encname, "input_hex": hx(body), "family": focus})
            shutil.rmtree(d, ignore_errors=True)


def run_io(ctx, focus):
    shrink_probe(ctx, focus)
    for i in range(ctx.count):
        io_case(ctx, i, focus)
    ctx.finish("io")


def run_c18(ctx):
    """batch vs single, thread counts, failing subsets; schedule hook replay"""
    r = ctx.rng
    cfgproto = "w=120,b=0,m=1,t=0,tw=2,ci=2,crlf=0"
    # many failing files in one invocation: the aggregation of failures into the exit status must not depend on how
    # many there are (counts around the widths of small counters: 2^8, 2^9, and 2^16 in the thorough tier)
    many = [255, 256, 257, 512] + ([65536] if ctx.count >= 300 else [])
    for k in many:
        d = os.path.join(ctx.tmp, "many%d" % k)
        os.makedirs(os.path.join(d, "bad"))
        for j in range(k):
            with open(os.path.join(d, "bad", "u%05d.pas" % j), "wb") as f:
                f.write(b"a := \xc3\x28;")
        good = {"g1.pas": b"a  :=  1 ;\n", "g2.pas": b"begin  end .\n"}
        for name, c in good.items():
            with open(os.path.join(d, name), "wb") as f:
                f.write(c)
        threads = r.choice([1, 4])
        rc, so, se = ctx.run(["-C", "line_ending=lf", "-C", "encoding=utf-8", "bad", "g1.pas", "g2.pas"], cwd=d, env={"RAYON_NUM_THREADS": str(threads)})
        ctx.bump("many_failing_files_probes")
        if rc == 0:
            ctx.failures.append({"kind": "oracle", "what": "c18: exit status 0 but %d files failed" % k, "cfg": "threads=%d,n=%d" % (threads, k + 2), "input_hex": "-", "family": "c18"})
        if open(os.path.join(d, "g1.pas"), "rb").read() != b"a := 1;\n" or open(os.path.join(d, "g2.pas"), "rb").read() != b"begin\nend.\n":
            ctx.failures.append({"kind": "oracle", "what": "c18: a good file next to %d failing files is not formatted as it is alone" % k, "cfg": "threads=%d,n=%d" % (threads, k + 2), "input_hex": "-", "family": "c18"})
        shutil.rmtree(d, ignore_errors=True)
    for i in range(ctx.count):
        d = os.path.join(ctx.tmp, "b%d" % i)
        os.makedirs(d)
        n = r.choice([1, 2, 3, 5, 8, 13, 24])
        files = {}
        for j in range(n):
            encname = r.choice(["utf-8", "utf-8", "utf-8", "utf16"])
            text = ctx.text(ENCODINGS["utf-8"][1])
            kind = r.random()
            if kind < 0.12:
                content = b"a := \xc3\x28;"  # undecodable
            elif encname == "utf16":
                content = b"\xff\xfe" + text.encode("utf-16-le")
            else:
                content = text.encode("utf-8")
            files["f%03d.pas" % j] = content
        missing = ["missing%d.pas" % k for k in range(r.choice([0, 0, 1, 2]))]
        for name, c in files.items():
            with open(os.path.join(d, name), "wb") as f:
                f.write(c)
        # each file alone
        alone = {}
        for name, c in files.items():
            dd = os.path.join(d, "alone")
            os.makedirs(dd, exist_ok=True)
            p = os.path.join(dd, name)
            with open(p, "wb") as f:
                f.write(c)
            rc, _, _ = ctx.run(["-C", "line_ending=lf", name], cwd=dd)
            alone[name] = (open(p, "rb").read(), rc != 0)
            os.remove(p)
        threads = r.choice([1, 1, 2, 3, 16])
        names = sorted(files) + missing
        r.shuffle(names)
        rc, so, se = ctx.run(["-C", "line_ending=lf"] + names, cwd=d, env={"RAYON_NUM_THREADS": str(threads), "PASFMT_VERIF_SCHED": "1"})
        ctx.bump("threads:%d" % threads)
        ctx.bump("files", n)
        ctx.bump("failing_files", sum(1 for v in alone.values() if v[1]) + len(missing))
        any_fail = any(v[1] for v in alone.values()) or bool(missing)
        for name in files:
            got = open(os.path.join(d, name), "rb").read()
            if got != alone[name][0]:
                ctx.failures.append({"kind": "oracle", "what": "c18: file formatted in a batch differs from the same file formatted alone", "cfg": "threads=%d,n=%d" % (threads, n), "input_hex": hx(files[name]), "family": "c18"})
        if (rc != 0) != any_fail:
            ctx.failures.append({"kind": "oracle", "what": "c18: exit status %d but %s file failed" % (rc, "some" if any_fail else "no"), "cfg": "threads=%d,n=%d" % (threads, n), "input_hex": "-", "family": "c18"})
        # schedule replay: per-thread sequences of (file length, stale buffer length at start)
        per = {}
        for line in se.decode("utf-8", "replace").split("\n"):
            if line.startswith("VERIF-SCHED"):
                parts = dict(kv.split("=", 1) for kv in line.split(" ")[1:4])
                th = parts["thread"]
                stale = int(parts["stale_buf_len"])
                path = line.split("path=", 1)[1]
                nm = path.split('"')[1] if '"' in path else None
                ln = len(files.get(nm, b"")) if nm in files else 0
                per.setdefault(th, []).append((ln, stale))
        # rayon's map_init makes one buffer per split of the work, not per thread: a thread's sequence is
        # cut into workers wherever the buffer starts empty (a fresh buffer and one holding an empty
        # previous file are the same state)
        ws = []
        for _, seq in sorted(per.items()):
            cur = []
            for (ln, stale) in seq:
                if stale == 0 and cur:
                    ws.append(cur)
                    cur = []
                cur.append((ln, stale))
            if cur:
                ws.append(cur)
        in_line = "sched\t" + (";".join(",".join(str(a) for a, _ in w) for w in ws) or "-")
        exp = ";".join(",".join(str(b) for _, b in w) for w in ws) or "-"
        ctx.emit(in_line, exp, "c18\tthreads=%d,n=%d\t-" % (threads, n), nontrivial_key=(i, threads, n) if n > 1 else None)
        ctx.bump("buffer_reuse_steps", sum(1 for w in ws for (_, st) in w if st > 0))
        ctx.bump("sched_records", sum(len(w) for w in ws))
        ctx.bump("threads_used", len(ws))
        ctx.bump("max_files_on_one_thread", 0)
        ctx.stats["max_files_on_one_thread"] = max(ctx.stats["max_files_on_one_thread"], max((len(w) for w in ws), default=0))
        if len(ctx.samples) < 3:
            ctx.samples.append({"threads": threads, "files": n, "missing": len(missing), "schedule": in_line[:200]})
    ctx.finish("sched")


KEYS = {
    # documented values, and values rejected through both channels (pasfmt.toml and -C); the coercions of the
    # `config` crate (e.g. `wrap_column = true`, `tab_width = 2.0`, `-C use_tabs=yes`) are known finding F20 and
    # exercised separately
    # values holding a second '=' are ill-typed too: nothing of a -C option may be dropped silently (S125)
    "wrap_column": (["0", "1", "80", "120", "4294967295"], ["-1", "abc", "4294967296", "40=junk", "80=80"]),
    "begin_style": (["auto", "always_wrap"], ["never", "1", "auto=always_wrap"]),
    "format_multiline_strings": (["true", "false"], ["abc"]),
    "use_tabs": (["true", "false"], ["maybe", "true=false"]),
    "tab_width": (["0", "2", "4", "255"], ["256", "-1", "x"]),
    "continuation_indents": (["0", "1", "2", "255"], ["256", "x"]),
    "line_ending": (["lf", "crlf", "native"], ["cr", "1", "lf=crlf"]),
    "encoding": (["utf-8", "native", "windows-1252"], ["no-such-encoding"]),
}
DEFAULTS = {"wrap_column": "120", "begin_style": "auto", "format_multiline_strings": "true", "use_tabs": "false",
            "tab_width": "2", "continuation_indents": "2", "line_ending": "native", "encoding": "native"}
TOML_STR = {"begin_style", "line_ending", "encoding"}


def toml_line(k, v, as_string=None):
    s = (k in TOML_STR) if as_string is None else as_string
    if not s and not (v.lstrip("-").isdigit() or v in ("true", "false")):
        s = True  # a bare word would be a TOML syntax error rather than an ill-typed value
    return "%s = %s\n" % (k, json.dumps(v) if s else v)


COERCED = [("file", "wrap_column", "true"), ("file", "tab_width", "2.0"), ("file", "format_multiline_strings", "2"),
           ("cli", "use_tabs", "yes"), ("cli", "wrap_column", "080"), ("file", "wrap_column", "1.5")]


def coercion_cases(ctx):
    """values that are not of the documented type but are accepted through one channel (config crate coercions)"""
    for chan, k, v in COERCED:
        d = os.path.join(ctx.tmp, "co_%s_%s" % (k, chan))
        os.makedirs(d, exist_ok=True)
        open(os.path.join(d, "x.pas"), "w").write("a := 1;\n")
        args = ["-m", "check", "x.pas"]
        if chan == "file":
            open(os.path.join(d, "pasfmt.toml"), "w").write("%s = %s\n" % (k, v))
        else:
            args = ["-C", "%s=%s" % (k, v)] + args
        rc, so, se = ctx.run(args, cwd=d)
        if b"failed to construct configuration" not in se and rc in (0, 1):
            ctx.failures.append({"kind": "oracle", "what": "c19: ill-typed value %s=%s accepted through %s" % (k, v, chan), "cfg": "-", "input_hex": "-", "family": "c19"})
        ctx.bump("coercion_probes")


def run_c19(ctx):
    coercion_cases(ctx)
    r = ctx.rng
    src = "begin\nif a then begin foo(aaaaaaaaaaaaaa, bbbbbbbbbbbbbbbbbbb, ccccccccccccccccc, dddddddddddddddd, eeeeeeeeeeeeeeeeee, ffffffffffffffffff, ggggggggggggggg, hhhhhhhhhhhhh); end;\nend;\n"
    for i in range(ctx.count):
        d = os.path.join(ctx.tmp, "g%d" % i)
        depth = r.randint(0, 5)
        dirs = [d]
        for j in range(depth):
            dirs.append(os.path.join(dirs[-1], "d%d" % j))
        os.makedirs(dirs[-1])
        cwd = dirs[-1]
        # choose keys and split them between file and command line
        chosen = r.sample(list(KEYS), r.randint(0, 4))
        filekv, ovkv = [], []
        invalid = False
        unknown = False
        for k in chosen:
            good, bad = KEYS[k]
            v = r.choice(good) if r.random() < 0.85 else r.choice(bad)
            where = r.choice(["file", "cli", "both"])
            if where in ("file", "both"):
                filekv.append((k, v))
            if where in ("cli", "both"):
                v2 = r.choice(good) if r.random() < 0.9 else r.choice(bad)
                ovkv.append((k, v2))
        if r.random() < 0.1:
            (filekv if r.random() < 0.5 else ovkv).append(("no_such_key", "1"))
        anc = list(reversed(dirs))  # nearest first
        if r.random() < 0.12:
            # a configuration file that is found but cannot be read as text (saved as Latin-1 or UTF-16, or holding an
            # unknown key behind such bytes) cannot override anything: it must be rejected before any file is touched,
            # never skipped silently (found through the ancestor walk or named with --config-file)
            variant = r.choice(["latin1", "utf16", "latin1_unknown_key"])
            body = {"latin1": b"# r\xe9glages du projet\nline_ending = \"crlf\"\n",
                    "utf16": b"\xff\xfe" + "line_ending = \"crlf\"\n".encode("utf-16-le"),
                    "latin1_unknown_key": b"# \xe9\nasdf = 0\n"}[variant]
            via_arg = r.random() < 0.4
            lvl = r.randrange(len(anc))
            cfp = os.path.join(anc[lvl], "style.cfg" if via_arg else "pasfmt.toml")
            with open(cfp, "wb") as f:
                f.write(body)
            fp = os.path.join(cwd, "x.pas")
            src0 = "a := b;\na"
            open(fp, "w").write(src0)
            rc, so, se = ctx.run((["--config-file", cfp] if via_arg else []) + ["x.pas"], cwd=cwd)
            if rc == 0 or open(fp).read() != src0:
                ctx.failures.append({"kind": "oracle", "what": "c19: a configuration file that cannot be read as text (%s, %s) was not rejected before touching files" % (variant, "--config-file" if via_arg else "ancestor walk"), "cfg": "-", "input_hex": "-", "family": "c19"})
            ctx.bump("unreadable_config_" + variant)
            continue
        # where is the config file? level index from cwd upwards (0 = cwd); has[j] for each ancestor in dirs reversed
        has = [0] * len(anc)
        use_cfgfile_arg = r.random() < 0.15
        file_level = None
        if filekv or r.random() < 0.3:
            if not use_cfgfile_arg:
                file_level = r.randrange(len(anc))
                has[file_level] = 1
                with open(os.path.join(anc[file_level], "pasfmt.toml"), "w") as f:
                    f.write("".join(toml_line(k, v) for k, v in filekv))
                # a decoy further up with a different wrap_column must lose
                if file_level + 1 < len(anc) and r.random() < 0.5:
                    has[file_level + 1] = 1
                    with open(os.path.join(anc[file_level + 1], "pasfmt.toml"), "w") as f:
                        f.write("wrap_column = 33\nno_such_key_in_decoy = 1\n")
                # a directory named pasfmt.toml nearer must be skipped (not a regular file)
                if file_level > 0 and r.random() < 0.3:
                    os.makedirs(os.path.join(anc[0], "pasfmt.toml"), exist_ok=True)
        else:
            filekv = []
        args = []
        if use_cfgfile_arg:
            # the file given with --config-file only has to exist and be a regular file: its name is free
            cfname = r.choice(["custom.toml", "custom.toml", "style.cfg", "pasfmt.toml.team", "pasfmtrc", "settings.json",
                               "my config.ini", "CONF.TOML", "x.yaml"])
            ctx.bump("config_file_name:" + ("toml" if cfname == "custom.toml" else "other"))
            cf = os.path.join(d, cfname)
            kind = r.choice(["ok", "ok", "missing", "dir", "missing_with_sibling"])
            if kind == "missing_with_sibling":
                # the named file does not exist, a file of that name plus ".toml" does: still "must exist"
                cf = os.path.join(d, "team")
                with open(cf + ".toml", "w") as f:
                    f.write("line_ending = \"crlf\"\n")
            if kind == "ok":
                with open(cf, "w") as f:
                    f.write("".join(toml_line(k, v) for k, v in filekv))
            elif kind == "dir":
                os.makedirs(cf)
            args += ["--config-file", cf]
            if kind != "ok":
                # must be rejected before touching anything
                fp = os.path.join(cwd, "x.pas")
                open(fp, "w").write(src)
                rc, so, se = ctx.run(args + ["x.pas"], cwd=cwd)
                if rc == 0 or open(fp).read() != src:
                    ctx.failures.append({"kind": "oracle", "what": "c19: --config-file that is %s was not rejected before touching files" % kind, "cfg": "-", "input_hex": "-", "family": "c19"})
                ctx.bump("config_file_arg_" + kind)
                continue
            has = [0] * len(anc)
        for k, v in ovkv:
            args += ["-C", "%s=%s" % (k, v)]
        fp = os.path.join(cwd, "x.pas")
        open(fp, "w").write(src)
        rc, so, se = ctx.run(args + ["x.pas"], cwd=cwd)
        after = open(fp).read()
        ok = rc == 0
        ctx.bump("accepted" if ok else "rejected")
        ctx.bump("depth:%d" % depth)
        all_documented = all(k in KEYS and v in KEYS[k][0] for k, v in filekv + ovkv)
        if not ok and all_documented:
            # the other direction of "unknown keys and ill-typed values are rejected": nothing else is
            ctx.failures.append({"kind": "oracle", "what": "c19: a configuration whose keys and values are all documented is rejected", "cfg": " ".join(args), "input_hex": "-", "family": "c19"})
        if not ok and after != src:
            ctx.failures.append({"kind": "oracle", "what": "c19: configuration error but the file was modified", "cfg": " ".join(args), "input_hex": "-", "family": "c19"})
        # equal effective configuration specified purely on the command line must give identical output
        eff = dict(DEFAULTS)
        for k, v in filekv:
            eff[k] = v
        for k, v in ovkv:
            eff[k] = v
        # "ill-typed values are rejected": a value of the rejected lists (rejected through both channels on the unchanged
        # code) that is still in effect after the layering must not be accepted
        bad_eff = [(k, v) for k, v in eff.items() if k in KEYS and v in KEYS[k][1]]
        if ok and bad_eff:
            ctx.failures.append({"kind": "oracle", "what": "c19: an ill-typed value was accepted: %s=%s" % bad_eff[0], "cfg": " ".join(args), "input_hex": "-", "family": "c19"})
        if ok:
            d2 = os.path.join(ctx.tmp, "g%d_cli" % i)
            os.makedirs(d2)
            fp2 = os.path.join(d2, "x.pas")
            open(fp2, "w").write(src)
            a2 = []
            for k, v in eff.items():
                if k in KEYS:
                    a2 += ["-C", "%s=%s" % (k, v)]
            rc2, _, _ = ctx.run(a2 + ["x.pas"], cwd=d2)
            if rc2 != 0 or open(fp2).read() != after:
                ctx.failures.append({"kind": "oracle", "what": "c19: equal effective configurations give different output", "cfg": " ".join(args) + " || " + " ".join(a2), "input_hex": "-", "family": "c19"})
        # model record
        known = " ".join(KEYS)
        valid = " ".join("%s=%s" % (k, v) for k in KEYS for v in KEYS[k][0])
        # values accepted by the config crate's coercions are recorded as valid when the binary accepts them alone
        defaults = " ".join("%s=%s" % kv for kv in DEFAULTS.items())
        in_line = "cfg\t%s\t%s\t%s\t%s\t%s\t%s" % (
            " ".join(str(x) for x in has) or "-",
            " ".join("%s=%s" % kv for kv in filekv) or "-",
            " ".join("%s=%s" % kv for kv in ovkv) or "-",
            known, valid, defaults)
        found = next((str(j) for j, h in enumerate(has) if h), "none")
        if use_cfgfile_arg:
            found = "none"
        exp = "found=%s\tok=%d" % (found, int(ok))
        ctx.emit(in_line, exp, "c19\t%s\t-" % (" ".join(args) or "-"), nontrivial_key=(tuple(filekv), tuple(ovkv), tuple(has)) if (filekv or ovkv) else None)
        if len(ctx.samples) < 4:
            ctx.samples.append({"depth": depth, "file": filekv, "cli": ovkv, "file_level": file_level, "accepted": ok})
    ctx.finish("cfg")


def main():
    which = sys.argv[1]
    args = {}
    a = sys.argv[2:]
    for i in range(0, len(a) - 1, 2):
        args[a[i].lstrip("-")] = a[i + 1]
    ctx = Ctx(args)
    t0 = time.time()
    if which in ("c16", "c17"):
        run_io(ctx, which)
    elif which == "c18":
        run_c18(ctx)
    elif which == "c19":
        run_c19(ctx)
    else:
        print("unknown")
        sys.exit(2)


if __name__ == "__main__":
    main()
