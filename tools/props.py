"""Per-property configuration of ./check: Lean modules (theorems), correspondence streams, oracles."""

ALL_FAMILIES = "seeds_sample,grammar,layout,soup,bytes,mutate,dirsoup"

FMT_BINDING_C01 = ["marks", "lv", "prec", "wc", "wp", "wcn", "sx", "nd", "out", "*"]

PROPS = {
    "C01": {
        "level": "proof",
        "lean": ["PasfmtModel.Props.C01"],
        "streams": [
            {"stream": "fmt", "families": ALL_FAMILIES + ",mlsfam,regions", "quick": 8000, "thorough": 40000, "binding": FMT_BINDING_C01},
            {"stream": "lex", "families": ALL_FAMILIES, "quick": 1500, "thorough": 20000, "name": "lexer"},
            # the closed model of the whole formatter (C01_format_full) against make_formatter().format(): output bytes
            {"stream": "full", "name": "whole", "families": ALL_FAMILIES + ",mlsfam,mlsshift,regions,asmreg,c11mini", "quick": 6000, "thorough": 60000, "binding": ["out", "*"]},
        ],
        "oracle_prefixes": ["c01", "glue", "lex"],
        "abnormal_binding": False,
        "explanation": "C01_format_partial: for every input, configuration, parser output and wrapper behaviour satisfying the frame "
                       "contract, fold(stripBlank(format s)) = fold(stripBlank s). Exact model parts (lexer, the three content rules, "
                       "reconstruction, pipeline glue) are tied to the code by the fmt/lex streams; the wrapper frame (wc) and the "
                       "no-dangling-E3 side condition (nd) are evaluated by the Lean driver on every case.",
        "assumptions": ["WrapFrame (wrapper keeps token vector, changes only blanks of contents) - checked per case (wc=1)",
                        "input is well-formed UTF-8 (a Rust &str); for other byte strings C01_format_partial with the per-case nd check applies"],
    },
    "C02": {
        "level": "proof",
        "lean": ["PasfmtModel.Props.C02"],
        "streams": [
            {"stream": "fmt", "families": "seeds_sample,grammar,layout,regions,mlsfam,marked,opgap", "quick": 8750, "thorough": 50000,
             "binding": ["prec", "rx", "out", "*"], "args": {"oracles": "c02"}},
        ],
        "oracle_prefixes": ["c02", "glue"],
        "abnormal_binding": False,
        "explanation": "Proved on the exact models: the scanner is local (scanner_is_local: every token class is decided by its own "
                       "bytes and at most three bytes of lookahead, for any state and length), hence C02_relex / C02_format: if every "
                       "emitted token is scanned back inside its three-byte window (decidable contract relexB, evaluated per "
                       "well-formed case as field rx) then scanning the whole output yields exactly the emitted token vector with the "
                       "input's kinds; plus: after every single-line comment the reconstructor emits a line break for every assignment "
                       "of counters (safety net), and each content rule is exactly its documented normalisation. That the spacing "
                       "decisions satisfy the contract on every well-formed program is grammar knowledge: contract + re-scan oracle.",
        "assumptions": ["relexB (windowed re-scan of the final token vector) - evaluated per well-formed case (rx=1)",
                        "parser kinds and wrapper decisions are taken from the real run (correspondence)"],
    },
    "C03": {
        "level": "other",
        "lean": ["PasfmtModel.Props.C03"],
        "streams": [
            {"stream": "fmt", "families": "seeds_sample,grammar,layout,regions,mlsfam,marked,boundary,boundary,mlscancel,mlsshift,mlsshift,mlstwo,condinline", "quick": 9000, "thorough": 50000,
             "binding": ["prec", "wp", "wcn", "sx", "out", "*"], "args": {"oracles": "c03"}},
            # idempotence is a property of the whole pipeline, the search included: the closed model against the real formatter
            {"stream": "full", "name": "whole", "families": "seeds_sample,grammar,layout,marked,boundary,c11mini,mlsfam,mlsshift,mlstwo,mlscancel,condinline,regions", "quick": 6000, "thorough": 60000, "binding": ["out", "*"]},
            {"stream": "wsearch", "name": "search", "families": "seeds_sample,grammar,layout,marked,boundary,c11mini,mlsfam,mlsshift,mlstwo,mlscancel,condinline,regions", "quick": 4000, "thorough": 40000, "binding": ["ws", "wp", "wcn", "*"]},
        ],
        "oracle_prefixes": ["c03", "glue"],
        "abnormal_binding": False,
        "explanation": "Proved: keyword lower-casing, trimming, the blank-line clamp, the line-comment rule, the compiler-directive rule and the whole comment formatter are fixpoints; emitted line breaks are read back "
                       "as the same count. The composition needs the wrapper to be a function of layout-independent facts (C06) and "
                       "ReflowFresh (false for child lines: known finding F10): the format-twice oracle runs on every well-formed case.",
        "assumptions": ["WrapDeterministic, ParserKindsOnly, AllSolved, ReflowFresh are oracle-checked contracts (partial)"],
    },
    "C05": {
        "level": "other",
        "lean": ["PasfmtModel.Props.C05"],
        "streams": [
            {"stream": "fmt", "families": "marked", "quick": 15000, "thorough": 40000, "binding": ["cl", "wp", "sx", "out", "*"], "args": {"oracles": "c05"}},
            # lines and levels come from the parser: the exact Lean model of its control flow against the real parser
            {"stream": "pfull", "name": "parser", "families": "marked,grammar,layout,seeds_sample", "quick": 10000, "thorough": 40000, "binding": ["pl", "*"]},
            # where lines start and how deep is decided by the search: its exact model against the solutions the real search returns
            {"stream": "wsearch", "name": "search", "families": "marked,grammar,layout,seeds_sample,c11mini", "quick": 6000, "thorough": 40000, "binding": ["ws", "wp", "wcn", "*"]},
        ],
        "oracle_prefixes": ["c05", "glue"],
        "abnormal_binding": False,
        "explanation": "Proved: a token with counters (break, level indentations, no continuation, no spaces) is rendered first on its "
                       "line after exactly `level` units (exact reconstructor), plus C08's gap/indentation theorems. Which tokens get "
                       "such counters is grammar knowledge of the parser and the wrapper: checked by the structure oracle using the "
                       "generator's marks (statement starts and depths, closers, body begins) on every generated program.",
        "assumptions": ["parser levels and wrapper first-decisions are oracle-checked (partial)"],
    },
    "C06": {
        "level": "proof",
        "lean": ["PasfmtModel.Props.C06"],
        "streams": [
            {"stream": "fmt", "families": "relayout", "quick": 6250, "thorough": 40000, "binding": ["pre", "out", "*"], "args": {"oracles": "c06"}},
            # ParserKindsOnly: the Lean model of the parser reads token kinds (and line-break flags, used inside asm blocks only) and nothing else
            {"stream": "pfull", "name": "parser", "families": "layout,grammar,seeds_sample,regions", "quick": 7500, "thorough": 30000, "binding": ["pk", "pl", "*"]},
            {"stream": "full", "name": "pairs_full", "families": "relayout", "quick": 2500, "thorough": 20000, "binding": ["out", "out2", "*"]},
            # WrapDeterministic: the model of the search reads kinds, lengths, lines and settings, nothing of the original layout
            {"stream": "wsearch", "name": "search", "families": "layout,grammar,seeds_sample,regions,marked", "quick": 5000, "thorough": 30000, "binding": ["ws", "wp", "wcn", "*"]},
            {"stream": "fmt", "name": "pairs", "families": "pairs", "quick": 30000, "thorough": 200000, "binding": ["pre", "*"], "args": {}},
            {"stream": "fmt", "name": "pairs_enum", "families": "pairs_enum", "quick": 10000, "thorough": 831875, "multi_seed": False,
             "binding": ["pre", "*"], "args": {}},
        ],
        "oracle_prefixes": ["c06", "glue"],
        "abnormal_binding": False,
        "explanation": "C06_format_full / C06_format_full_checked: for the closed Lean model of the whole formatter (scanner, parser control "
                       "flow, consolidators, token rules, wrapper stage with the search inside, reconstructor - compared byte for byte "
                       "with the real formatter on every case) two layouts of the same tokens are formatted to the same bytes whenever the "
                       "executable premise layoutPremisesB holds for the pair: same token types and texts; a blank line in front of a token in "
                       "both or in neither; identical bytes before verbatim tokens; GapEqW (a gap's emptiness matters only between a "
                       "literal/unknown token and a token that can keep its spacing, and before the end-of-file token); same line-break "
                       "flags behind the first asm keyword; every token written by a first-phase solution of the wrapper (fails exactly on "
                       "lines without a solution: F34); every free token behind a trailing line comment starts a line - a theorem for every token a "
                       "solution writes (search_breaks_where_it_must, C06_format_full_checked' with the equivalent premise layoutPremisesB'), "
                       "checked only for verbatim and end-of-file tokens. The premise is "
                       "evaluated on every pair of the relayout stream (full2, info_c06: holds on about 98 %; info_c06thm: the two model "
                       "outputs are equal whenever it holds). By construction: the parser model reads line breaks only behind an asm "
                       "keyword (parseFileMasked), the search reads tokens through FTok.sview and the configuration through "
                       "Config.searchCfg, and token_lengths masks the spaces of free tokens; a relational proof (RelW) carries two related "
                       "states through the whole wrapper stage. Plus: whitespace reduced to counters, spacing invariance theorems, the "
                       "layout-reads translator obligation, and the relayout oracle on the real code.",
        "assumptions": ["layoutPremisesB' (decidable, evaluated per pair); the model is tied to the code by the full, full2, pfull and wsearch correspondences"],
    },
    "C11": {
        "level": "other",
        "lean": ["PasfmtModel.Props.C11"],
        "streams": [
            {"stream": "fmt", "families": "seeds_sample,grammar,layout,marked,boundary", "quick": 7500, "thorough": 40000, "binding": ["out", "*"], "args": {"oracles": "c11"}},
            # every wrap column of small single-statement programs (full sweep of the three clauses)
            {"stream": "fmt", "name": "mini", "families": "c11mini", "quick": 1500, "thorough": 20000, "binding": ["out", "*"], "args": {"oracles": "c11"}},
            # the search itself as an exact model (penalties, pruning, cache, heap order): its solutions against the real search's, at every configuration drawn
            {"stream": "wsearch", "name": "search", "families": "seeds_sample,grammar,layout,marked,boundary,c11mini", "quick": 6000, "thorough": 40000, "binding": ["ws", "wp", "wcn", "*"]},
        ],
        "oracle_prefixes": ["c11", "glue"],
        "abnormal_binding": False,
        "explanation": "Proved for the idealised optimiser (first minimum of base + overflow over any finite candidate list): a narrower "
                       "limit whose optimum for the wider limit already fits has the same optimum (argmin_shrink); the overflow "
                       "penalty is antitone in the limit and zero iff everything fits. That find_optimal_solution is such an optimiser "
                       "is not a theorem (pruning and the iteration limit read max_line_length): the width-pair oracle checks the three "
                       "clauses of the property on the real formatter for every well-formed case.",
        "assumptions": ["the search heuristics are not modelled (partial)"],
    },
    "C04": {
        "level": "other",
        "lean": ["PasfmtModel.Props.C04"],
        "streams": [
            {"stream": "fmt", "families": "soup,bytes,mutate,directives,dirsoup,seeds_sample,layout,deepnest,lexfam,nosol,unclosed", "quick": 10500, "thorough": 80000,
             "binding": ["*"], "args": {"oracles": "c15,c04", "timeout_ms": 20000}},
            {"stream": "parse", "families": "soup,bytes,mutate,directives,dirsoup,layout", "quick": 7500, "thorough": 40000, "name": "counters"},
            # the total, fuel-bounded Lean model of the whole parser answers (never `model-none`: no panic site reached, fuel 200*(n+10) not exhausted) and agrees
            {"stream": "pfull", "name": "parser", "families": "soup,bytes,mutate,dirsoup,deepnest,unclosed", "quick": 12000, "thorough": 40000, "binding": ["pk", "pl", "*"]},
            # the closed, total model of the whole formatter answers (never `model-none`) and agrees, on ill-formed input too
            {"stream": "full", "name": "whole", "families": "soup,bytes,mutate,dirsoup,lexfam,nosol", "quick": 6000, "thorough": 40000, "binding": ["out", "*"]},
            {"stream": "fmt", "name": "enum", "families": "soup_enum", "quick": 7500, "thorough": 1010100, "multi_seed": False,
             "binding": ["*"], "args": {"timeout_ms": 20000}},
        ],
        "oracle_prefixes": ["c04", "c15: PANIC"],
        "abnormal_binding": True,
        "explanation": "Monitor + theorems. Theorems: the scanner never fails and slices only at character boundaries (lex_never_fails, lex_slices_on_char_boundaries); the number of conditional-directive passes is linear in the token count "
                       "(passes_linear), token lengths sum to the input length, line-builder references stay valid for every control "
                       "flow; every model function is total. Monitor: every case runs under catch_unwind with a 20 s hang detector "
                       "(two orders of magnitude above the slowest legitimate case), debug build (overflow and bounds checks on); "
                       "deterministic work counters (passes, primitive operations, line-wrapping searches counted by a guarded hook) are compared with linear bounds, also on a family of deeply nested constructs (anonymous routines as arguments, parentheses, blocks, if/case chains, generics, conditional directives); token sequences "
                       "over a 116-token alphabet are enumerated (all of length <= 3 in thorough).",
        "assumptions": ["parser control flow and the wrapper's search are not modelled: their termination is monitored, not proved",
                        "stack depth is not a notion of the model (known finding F2)"],
    },
    "C14": {
        "level": "proof",
        "lean": ["PasfmtModel.Props.C14"],
        "streams": [
            {"stream": "parse", "families": ALL_FAMILIES + ",directives", "quick": 10000, "thorough": 60000},
            # the whole parser (control flow included) against its exact Lean model: final token kinds and lines
            {"stream": "pfull", "name": "parser", "families": ALL_FAMILIES + ",marked,regions,condinline,pairs", "quick": 12500, "thorough": 60000, "binding": ["pk", "pl", "*"]},
            # the three post-parse consolidators (exact models): kinds and lines after them, computed from the parser's own output
            {"stream": "fmt", "name": "consolidators", "families": ALL_FAMILIES + ",directives,condinline,marked,regions", "quick": 7500, "thorough": 40000,
             "binding": ["ck", "cl"], "args": {"oracles": "c14"}},
        ],
        "oracle_prefixes": ["c14"],
        "abnormal_binding": False,
        "explanation": "For every control flow (operation trace accepted by the primitive machine): lines list pass tokens in strictly "
                       "increasing order, disjointly, and every pass token is in a line or explicitly skipped; consolidation keeps "
                       "every non-empty line's tokens; every conditional directive and unattributed compiler directive gets its own "
                       "line; one pass = the whole file when there are no conditional directives. The machine, the directive passes "
                       "and the consolidation are replayed against the real parser's hook trace and output on every case; the C14 "
                       "predicate is also evaluated directly on the parser's output.",
        "assumptions": ["parent/level/type of lines are taken from the trace (control flow); the parent and end-of-file clauses are "
                        "checked by the direct oracle on well-formed inputs, not proved",
                        "with conditional directives, that every non-directive token is in some pass is checked differentially (model passes = real passes) and by the oracle"],
    },
    "C07": {
        "level": "proof",
        "lean": ["PasfmtModel.Props.C07"],
        "streams": [
            {"stream": "fmt", "families": ALL_FAMILIES + ",regions,asmreg", "quick": 7500, "thorough": 40000,
             "binding": ["cl", "marks", "lv", "prec", "wc", "wp", "wcn", "sx", "out", "*"], "args": {"oracles": "c07"}},
        ],
        "oracle_prefixes": ["c07", "glue"],
        "abnormal_binding": False,
        "explanation": "C07_format: for every input, configuration, parser behaviour and wrapper that keeps ignored tokens (WrapKeepsIgnored, "
                       "evaluated per case as part of wc), a run of tokens marked by the ignorers is found contiguously in the output with its "
                       "scanned whitespace and text. verbatim_emitted: for every counter assignment, every run of ignored tokens is emitted as scanned, provided no "
                       "safety-net break falls inside the run (decidable; evaluated per case as info_sr); ignored tokens cannot be "
                       "rewritten (guarded setter). Toggle recogniser, marks, void step and reconstruction are exact models tied by the "
                       "fmt stream (fields marks, lv, out).",
        "assumptions": ["asm bodies are AsmInstruction lines (parser control flow; line types come from the real parser in every case)",
                        "no safety-net break inside a verbatim run (false only for line comments ended by a lone CR: known finding F4)"],
    },
    "C08": {
        "level": "proof",
        "lean": ["PasfmtModel.Props.C08"],
        "streams": [
            {"stream": "fmt", "families": ALL_FAMILIES + ",pairs,condinline,mlsshift", "quick": 8750, "thorough": 40000,
             "binding": ["pre", "wp", "wcn", "sx", "out", "*"], "args": {"oracles": "c08"}},
            # the closed model against the real formatter; the driver tallies the premise of C08_format_full_checked (info_c08)
            {"stream": "full", "name": "whole", "families": ALL_FAMILIES + ",marked,condinline,mlsshift,regions", "quick": 4000, "thorough": 40000, "binding": ["out", "*"]},
        ],
        "oracle_prefixes": ["c08", "glue"],
        "abnormal_binding": False,
        "explanation": "gap_shape / indent_whole_units / eof_one_newline / spacingRule_le_one: with canonical final counters (decidable "
                       "canonFmt, tallied per case as info_cn) the reconstructor emits nothing-or-one-space on a line, or 1-2 configured "
                       "breaks followed by whole indentation units. Exact models of TokenSpacing, EofNewline, settings conversion and "
                       "reconstruction are tied by the fmt stream (pre, out). The direct line-scanner oracle runs on every case.",
        "assumptions": ["final counters are canonical: a theorem for the closed model (C08_format_full_checked) whenever every token is written by a first-phase solution (canonPremisesB' - the at-most-one-space clause is proved except at free positions: C08_pre_stage_spaces -, tallied per case as info_c08); not established for lines the wrapper cannot solve (F34)",
                        "continuation_indents*tab_width <= 255 for the unit law (saturation is known finding F6)"],
    },
    "C09": {
        "level": "proof",
        "lean": ["PasfmtModel.Props.C09"],
        "streams": [
            {"stream": "fmt", "families": ALL_FAMILIES + ",mlsfam", "quick": 7000, "thorough": 30000,
             "binding": ["pre", "wc", "out", "*"], "args": {"oracles": "c09"}},
            # the closed model against the real formatter under lf and crlf configurations; the driver tallies how often
            # the premises of C09_format_full_crlf_config hold (info_c09)
            {"stream": "full", "name": "whole", "families": "seeds_sample,grammar,layout,marked,mlsfam,mlsshift,regions", "quick": 3000, "thorough": 30000, "binding": ["out", "*"]},
            # third clause: the same text with LF and with CRLF line breaks through the closed model (both outputs compared with the
            # real formatter's); the premise of the layout theorem C06_format_full_checked is evaluated on the pair (info_c06)
            {"stream": "full", "name": "input_endings", "families": "crlfpair", "quick": 1500, "thorough": 15000, "binding": ["out", "out2", "*"]},
        ],
        "oracle_prefixes": ["c09", "glue"],
        "abnormal_binding": False,
        "explanation": "recon_crlf_subst: for fixed counters the crlf rendering is the lf rendering with terminators substituted "
                       "(tokens emitted verbatim must be line-break free: info_nn); emitted_breaks_are_nl; fmtdata_crlf. "
                       "C09_format_full_crlf_config: for the closed model of the whole formatter (search inside) the crlf run is the lf run "
                       "with every terminator substituted, under two decidable side conditions computed from the lf run (crlfOk23: both runs "
                       "rewrite the same literals; nothing emitted verbatim holds a line break; the former third one - literals end in a "
                       "quote - is proved: C09_crlfOk_of_23) - the search reads "
                       "the configuration through Config.searchCfg (no line ending in it) and tokens through FTok.sview (kind, last-line "
                       "length) by construction; the driver tallies crlfOk23 on every case of the full stream (info_c09). The third clause "
                       "(LF vs CRLF input) is decided by the c09 oracle.",
        "assumptions": ["crlfOk23 (decidable, tallied per case); input-ending clause: metamorphic oracle, not a theorem"],
    },
    "C10": {
        "level": "proof",
        "lean": ["PasfmtModel.Props.C10"],
        "streams": [
            {"stream": "fmt", "families": "seeds_sample,grammar,layout", "quick": 6250, "thorough": 30000,
             "binding": ["out", "*"], "args": {"oracles": "c10"}},
        ],
        "oracle_prefixes": ["c10", "glue"],
        "abnormal_binding": False,
        "explanation": "recon_tabs_to_spaces / indent_units: for fixed counters and ci*tw<=255 expanding tabs of the use_tabs rendering "
                       "gives the spaces rendering; indentation = (levels + ci*continuations) units. Settings conversion and "
                       "reconstruction are exact models (fmt stream). Decision-independence with unconstrained width is checked by "
                       "the tabs/spaces pair oracle on every well-formed case.",
        "assumptions": ["wrapper decisions agree under both settings when wrap_column is unconstrained (oracle, not a theorem)",
                        "continuation_indents*tab_width <= 255 (F6)"],
    },
    "C12": {
        "level": "proof",
        "lean": ["PasfmtModel.Props.C12"],
        "streams": [
            {"stream": "fmt", "families": "mlsfam,mlsfam,mlsshift,mlsshift,mlstwo,seeds_sample,layout,bytes", "quick": 8750, "thorough": 40000,
             "binding": ["wc", "wp", "wcn", "sx", "prec", "out", "*"], "args": {"oracles": "c12"}},
        ],
        "oracle_prefixes": ["c12", "glue"],
        "abnormal_binding": False,
        "explanation": "rewriteLines_spec: the re-indenter succeeds exactly when every interior line starts with (or is a prefix of) the "
                       "closing line's indentation, and then emits per line the configured terminator + exactly ind/cont indentation "
                       "strings + the unchanged value (trailing blanks included); rejection and off/ignored/other-kind cases leave the "
                       "text alone. The exact model of multiline_strings.rs is tied to the wrapper stage's before/after contents on "
                       "every case (wc field: content' = rewrite(content, final counters)); a per-literal value oracle runs on the real "
                       "formatter.",
        "assumptions": ["ReflowKeepsStringIndent: a literal's counters are not changed by the reflow (part of the per-case wc check)",
                        "the literal re-scans as one literal after rewriting (oracle c12 + C02 oracle), not yet a theorem"],
    },
    "C15": {
        "level": "proof",
        "lean": ["PasfmtModel.Props.C15"],
        "streams": [
            {"stream": "fmt", "families": ALL_FAMILIES, "quick": 6250, "thorough": 30000,
             "binding": ["cur", "out", "*"], "args": {"oracles": "c15"}},
            {"stream": "fmt", "name": "allcursors", "families": "seeds_sample,soup,bytes,regions,mlsfam", "quick": 1200, "thorough": 20000,
             "binding": ["cur", "*"], "args": {"oracles": "c15", "cursors_all": 1}},
        ],
        "oracle_prefixes": ["c15", "glue"],
        "abnormal_binding": False,
        "explanation": "Exact model of process_cursors/relocate_cursors with checked subtraction and u16 truncation; theorems: "
                       "offset_for_token is the true offset of the token text (no safety net), cursor inside/at the end of a token maps "
                       "to start'+min(o,len'), cursors past the end map to the end of the output, the model's format takes no cursor "
                       "argument; the F3 underflow is exhibited on the model by decide. The model is compared with Formatter::format on "
                       "every case, including every character boundary of small inputs.",
        "assumptions": ["files smaller than 4 GiB (u32 cursor); no safety-net newline before the token (offset_for_token does not count it)",
                        "multi-line tokens with lines >= 65536 bytes truncate (known finding F7)"],
    },
    "C16": {
        "level": "proof",
        "lean": ["PasfmtModel.Props.C16"],
        "streams": [{"stream": "io", "tool": "iocheck", "which": "c16", "quick": 400, "thorough": 4000}],
        "oracle_prefixes": ["c16"],
        "abnormal_binding": False,
        "explanation": "Theorems on the mode logic: seek/write/set_len leaves exactly the written bytes for every old length; files mode "
                       "= what stdin->stdout prints (under the explicit RoundTrip hypothesis); check exit iff text differs; read-only "
                       "modes never write; undecodable files untouched; mode defaults. The model (with UTF-8/UTF-16 computed by the "
                       "model and legacy codecs supplied as tables) is compared with the built binary on temp trees: file bytes, "
                       "stdout, exit status, for every mode x path form x encoding x BOM.",
        "assumptions": ["file-system semantics (partial writes, errors mid-write), walkdir/glob and the legacy codec tables are external",
                        "RoundTrip: enc(dec(bytes)) = bytes (false for non-canonical legacy sequences: known finding F8)"],
    },
    "C17": {
        "level": "proof",
        "lean": ["PasfmtModel.Props.C17"],
        "streams": [{"stream": "io", "tool": "iocheck", "which": "c17", "quick": 400, "thorough": 4000}],
        "oracle_prefixes": ["c17", "c16"],
        "abnormal_binding": False,
        "explanation": "Theorems: BOM sniffing, BOM overrides the configured encoding, UTF-16 encoders round-trip every scalar sequence in "
                       "both byte orders, written bytes = BOM ++ encode(selected encoding, text), malformed input never rewritten. "
                       "Binary-level correspondence over UTF-8, UTF-16LE/BE (odd lengths, lone surrogates), windows-125x, ISO-8859-2, "
                       "Shift_JIS, GBK, Big5, EUC-KR, with and without BOM, files and piped stdin.",
        "assumptions": ["encoding_rs tables for legacy encodings are external (Python codecs supply the expected bytes on a common subset)"],
    },
    "C18": {
        "level": "proof",
        "lean": ["PasfmtModel.Props.C18"],
        "streams": [{"stream": "sched", "tool": "iocheck", "which": "c18", "quick": 40, "thorough": 600}],
        "oracle_prefixes": ["c18"],
        "abnormal_binding": False,
        "explanation": "schedule_independent: for every assignment of files to workers, every per-worker order and every initial buffer, "
                       "each file's result equals formatting it alone, and the run fails iff some file fails. The binary is run over "
                       "multisets of files (sizes, encodings, failing subsets) with 1/2/3/16 rayon threads and compared with one "
                       "invocation per file; the schedule hook's history (buffer length at the start of every item) is replayed "
                       "through the worker model.",
        "assumptions": ["true concurrency (data races) is outside the model: relies on Rust's Sync checking and per-call caches",
                        "rayon's map_init gives one buffer per split of the work (observed through the hook), covered by the theorem's arbitrary initial buffers"],
    },
    "C19": {
        "level": "proof",
        "lean": ["PasfmtModel.Props.C19"],
        "streams": [{"stream": "cfg", "tool": "iocheck", "which": "c19", "quick": 200, "thorough": 3000}],
        "oracle_prefixes": ["c19"],
        "abnormal_binding": False,
        "explanation": "Theorems: nearest ancestor with a regular pasfmt.toml wins, none if there is none; last -C > file > default; unknown "
                       "keys and ill-typed effective values rejected; equal effective configurations are equal functions. The binary "
                       "is run from nested working directories (depth 0-5) with pasfmt.toml at random levels, decoys further up, "
                       "directories named pasfmt.toml, --config-file (missing, directory, file) and random splits of options between "
                       "file and command line, valid and invalid values; acceptance, untouched-ness and output are compared.",
        "assumptions": ["config, serde, toml and clap are external; the accepted value domains are pinned by the correspondence (their coercions: known finding F20)"],
    },
    "C13": {
        "level": "proof",
        "lean": ["PasfmtModel.Props.C13"],
        "streams": [
            {"stream": "lex", "families": ALL_FAMILIES + ",lexfam,tokfam", "quick": 10000, "thorough": 60000},
        ],
        "oracle_prefixes": ["lex"],
        "abnormal_binding": True,
        "explanation": "Theorems about the exact Lean model of the lexer (total, all boundaries on character boundaries of well-formed UTF-8, lossless, one Eof last, blank-only leading whitespace, "
                       "non-blank starts, SIMD routine = scalar routine, perfect-hash keyword lookup = table spec); the model is "
                       "tied to DelphiLexer::lex by token-by-token differential execution on generated inputs.",
        "assumptions": ["input is valid UTF-8 (a Rust &str); the model works on bytes and agrees with the char-based code on valid UTF-8"],
    },
}
