"""Per-property configuration of ./check: Lean modules (theorems), correspondence streams, oracles."""

ALL_FAMILIES = "seeds_sample,grammar,layout,soup,bytes,mutate"

PROPS = {
    "C13": {
        "level": "proof",
        "lean": ["PasfmtModel.Props.C13"],
        "streams": [
            {"stream": "lex", "families": ALL_FAMILIES + ",lexfam", "quick": 4000, "thorough": 60000},
        ],
        "oracle_prefixes": ["lex"],
        "abnormal_binding": True,
        "explanation": "Theorems about the exact Lean model of the lexer (lossless, one Eof last, blank-only leading whitespace, "
                       "non-blank starts, SIMD routine = scalar routine, perfect-hash keyword lookup = table spec); the model is "
                       "tied to DelphiLexer::lex by token-by-token differential execution on generated inputs.",
        "assumptions": ["input is valid UTF-8 (a Rust &str); the model works on bytes and agrees with the char-based code on valid UTF-8"],
    },
}
