"""Per-property configuration of ./check: Lean modules (theorems), correspondence streams, oracles."""

ALL_FAMILIES = "seeds_sample,grammar,layout,soup,bytes,mutate"

FMT_BINDING_C01 = ["marks", "lv", "prec", "wc", "nd", "out", "*"]

PROPS = {
    "C01": {
        "level": "proof",
        "lean": ["PasfmtModel.Props.C01"],
        "streams": [
            {"stream": "fmt", "families": ALL_FAMILIES, "quick": 3000, "thorough": 40000, "binding": FMT_BINDING_C01},
            {"stream": "lex", "families": ALL_FAMILIES, "quick": 1500, "thorough": 20000, "name": "lexer"},
        ],
        "oracle_prefixes": ["c01", "glue", "lex"],
        "abnormal_binding": False,
        "explanation": "C01_format_partial: for every input, configuration, parser output and wrapper behaviour satisfying the frame "
                       "contract, fold(stripBlank(format s)) = fold(stripBlank s). Exact model parts (lexer, the three content rules, "
                       "reconstruction, pipeline glue) are tied to the code by the fmt/lex streams; the wrapper frame (wc) and the "
                       "no-dangling-E3 side condition (nd) are evaluated by the Lean driver on every case.",
        "assumptions": ["WrapFrame (wrapper keeps token vector, changes only blanks of contents) - checked per case (wc=1)",
                        "token contents have no dangling E3 byte (consequence of valid UTF-8; checked per case, nd=1)"],
    },
    "C13": {
        "level": "proof",
        "lean": ["PasfmtModel.Props.C13"],
        "streams": [
            {"stream": "lex", "families": ALL_FAMILIES + ",lexfam", "quick": 4000, "thorough": 60000},
        ],
        "oracle_prefixes": ["lex"],
        "abnormal_binding": True,
        "explanation": "Theorems about the exact Lean model of the lexer (lossless, one Eof last, blank-only leading whitespace, "
                       "non-blank starts, SIMD routine = scalar routine, perfect-hash keyword lookup = table spec); the model is "
                       "tied to DelphiLexer::lex by token-by-token differential execution on generated inputs.",
        "assumptions": ["input is valid UTF-8 (a Rust &str); the model works on bytes and agrees with the char-based code on valid UTF-8"],
    },
}
