#!/usr/bin/env python3
import subprocess,sys,json
which=sys.argv[1]; count=sys.argv[2]; seed=sys.argv[3] if len(sys.argv)>3 else "1"
d=f"/tmp/pv_io_{which}"
subprocess.run([sys.executable,"/verif/tools/iocheck.py",which,"--seed",seed,"--count",count,"--out",d,"--bin","/verif/harness/target/bin/debug/pasfmt","--harness","/verif/harness/target/debug/pasfmt-verif-harness"],check=True,stdout=subprocess.DEVNULL)
with open(f"{d}/cases.in") as f, open(f"{d}/cases.out","w") as o:
    subprocess.run(["/verif/lean/.lake/build/bin/pvdriver"],stdin=f,stdout=o,check=True)
exp=open(f"{d}/cases.exp").read().split('\n')
out=['\t'.join(x for x in l.split('\t') if not x.startswith('info_')) for l in open(f"{d}/cases.out").read().split('\n')]
meta=open(f"{d}/cases.meta").read().split('\n')
bad=[i for i,(a,b) in enumerate(zip(exp,out)) if a!=b]
print(len(exp)-1,"cases",len(bad),"mismatches")
s=json.load(open(f"{d}/summary.json"))
print("stats",s["stats"])
print("failures:",len(s["failures"]))
for f in s["failures"][:8]: print("  ",f["what"],f["cfg"], f["input_hex"][:80])
for i in bad[:6]:
    print("----",i,meta[i][:200])
    for x,y in zip(exp[i].split('\t'),out[i].split('\t')):
        if x!=y: print("   exp",x[:200]); print("   got",y[:200])
