#!/usr/bin/env python3
"""Mutation campaign (a development aid, not a registered check): applies small syntactic mutations to /repo's
non-test source one at a time, and records for each whether the quick checks of the properties that the file bears on
notice it, and - for the ones they do not - whether the repository's own test suite does.  Survivors of both are the
interesting ones: either equivalent/harmless changes or blind spots.

usage: mutate.py --files f1,f2 --n 8 --seed 1 [--all-props]
log:   /verif/work/mutation/log.jsonl   (one JSON object per mutant)
pause: touch /tmp/mutate.pause (the loop waits, with /repo clean, until the file is gone)
"""
import json, os, random, re, subprocess, sys, time

REPO = "/repo"
ROOT = os.path.dirname(os.path.dirname(os.path.abspath(__file__)))
LOG = os.path.join(ROOT, "work", "mutation", "log.jsonl")

PROPS = {
    "core/src/defaults/lexer.rs": ["C13", "C01", "C04", "C02"],
    "core/src/rules/token_spacing.rs": ["C06", "C08", "C02", "C03"],
    "core/src/rules/comment_contents.rs": ["C01", "C02", "C08", "C03"],
    "core/src/rules/lowercase_keywords.rs": ["C01", "C02"],
    "core/src/rules/eof_newline.rs": ["C08", "C03"],
    "core/src/rules/formatting_toggle.rs": ["C07", "C01"],
    "core/src/rules/ignore_asm_instructions.rs": ["C07"],
    "core/src/defaults/reconstructor.rs": ["C15", "C08", "C09", "C10", "C07", "C01"],
    "core/src/rules/optimising_line_formatter/multiline_strings.rs": ["C12", "C09", "C10", "C03", "C01"],
    "core/src/rules/optimising_line_formatter/mod.rs": ["C05", "C11", "C03", "C08", "C04", "C06", "C10"],
    "core/src/rules/optimising_line_formatter/contexts.rs": ["C05", "C11", "C03", "C08", "C06"],
    "core/src/rules/optimising_line_formatter/requirements.rs": ["C05", "C11", "C03", "C08", "C06"],
    "core/src/defaults/parser.rs": ["C05", "C14", "C04", "C02", "C06", "C03"],
    "core/src/rules/generics_consolidator.rs": ["C06", "C08", "C02", "C05"],
    "core/src/rules/conditional_directive_consolidator.rs": ["C14", "C07", "C05", "C03"],
    "core/src/rules/deindent_package_directives.rs": ["C05", "C03"],
    "core/src/formatter.rs": ["C01", "C07", "C04", "C14", "C03"],
    "core/src/lang.rs": ["C06", "C08", "C09", "C03"],
    "orchestrator/src/file_formatter.rs": ["C16", "C17", "C18"],
    "orchestrator/src/command_line.rs": ["C19", "C16"],
    "front-end/src/lib.rs": ["C10", "C09", "C11", "C19", "C16"],
}

OPS = [
    (r"==", "!="), (r"!=", "=="), (r"<=", "<"), (r">=", ">"), (r"&&", "||"), (r"\|\|", "&&"),
    (r"(?<![<>=!-])<(?![<=])(?=\s)", "<="), (r"(?<![<>=!-])>(?![>=])(?=\s)", ">="),
    (r"\+ 1\b", "+ 2"), (r"- 1\b", "- 0"), (r"\btrue\b", "false"), (r"\bfalse\b", "true"),
    (r"Some\(0\)", "Some(1)"), (r"Some\(1\)", "Some(0)"), (r"\.min\(", ".max("), (r"\.max\(", ".min("),
    (r"!(?=[a-z_(])", ""), (r"\.is_some\(\)", ".is_none()"), (r"\.is_none\(\)", ".is_some()"),
    (r"\.is_empty\(\)", ".is_empty() == false"), (r"saturating_sub", "wrapping_sub"), (r"\b0\b", "1"), (r"\b1\b", "2"),
]


def sh(cmd, cwd=None, timeout=3600, env=None):
    e = dict(os.environ)
    e.update({"CARGO_NET_OFFLINE": "true"})
    if env:
        e.update(env)
    try:
        p = subprocess.run(cmd, cwd=cwd, stdout=subprocess.PIPE, stderr=subprocess.STDOUT, timeout=timeout, env=e, text=True, errors="replace")
        return p.returncode, p.stdout
    except subprocess.TimeoutExpired as ex:
        return 124, (ex.stdout or "") if isinstance(ex.stdout, str) else ""


def candidates(rel):
    src = open(os.path.join(REPO, rel), encoding="utf-8").read()
    cut = src.find("#[cfg(test)]")
    body = src if cut < 0 else src[:cut]
    out = []
    off = 0
    for line in body.split("\n"):
        st = line.strip()
        skip = st.startswith("//") or st.startswith("#[") or st.startswith("use ") or "trace!(" in st or "debug!(" in st or "warn!(" in st or st.startswith("assert")
        if not skip:
            code = line.split("//")[0]
            for pat, rep in OPS:
                for m in re.finditer(pat, code):
                    # not inside a string or char literal (quote parity before the match)
                    pre = code[:m.start()]
                    if pre.count('"') % 2 == 1 or (pre.count("'") % 2 == 1 and "'" in code[m.end():]):
                        continue
                    out.append((off + m.start(), off + m.end(), rep, pat))
        off += len(line) + 1
    return src, out


def main():
    a = dict(zip(sys.argv[1::2], sys.argv[2::2]))
    files = [f for f in a.get("--files", ",".join(PROPS)).split(",") if f]
    n = int(a.get("--n", "6"))
    rng = random.Random(int(a.get("--seed", "1")))
    allp = "--all-props" in sys.argv
    os.makedirs(os.path.dirname(LOG), exist_ok=True)
    rc, st = sh(["git", "status", "--porcelain"], cwd=REPO)
    if st.strip():
        print("refusing: /repo working tree is not clean")
        return 2
    for rel in files:
        src, cands = candidates(rel)
        rng.shuffle(cands)
        done = 0
        for (s0, s1, rep, pat) in cands:
            if done >= n:
                break
            while os.path.exists("/tmp/mutate.pause"):
                time.sleep(10)
            mutated = src[:s0] + rep + src[s1:]
            line_no = src[:s0].count("\n") + 1
            old_line = src.split("\n")[line_no - 1]
            new_line = mutated.split("\n")[line_no - 1]
            rec = {"file": rel, "line": line_no, "op": pat + " -> " + rep, "old": old_line.strip(), "new": new_line.strip(), "t": time.strftime("%H:%M:%S")}
            open(os.path.join(REPO, rel), "w", encoding="utf-8").write(mutated)
            try:
                rc, out = sh(["cargo", "build", "--offline", "-p", "pasfmt"], cwd=REPO, timeout=1200)
                if rc != 0:
                    rec["status"] = "nocompile"
                    continue
                done += 1
                killed_by = []
                props = sorted(set(PROPS.get(rel, []) + (["C%02d" % i for i in range(1, 20)] if allp else [])))
                for p in props:
                    rc, out = sh([os.path.join(ROOT, "check"), p, "--tier", "quick"], cwd=ROOT, timeout=1800)
                    if rc != 0:
                        first = [l for l in out.split("\n") if l.startswith("  ") or "VIOLATION" in l][:2]
                        killed_by.append({"prop": p, "why": " | ".join(x.strip()[:160] for x in first)})
                        if not allp:
                            break
                rec["killed_by"] = killed_by
                if killed_by:
                    rec["status"] = "killed"
                else:
                    rc, out = sh(["cargo", "test", "--workspace", "--no-fail-fast", "--offline"], cwd=REPO, timeout=2400)
                    failed = len(re.findall(r"^test .* FAILED$", out, flags=re.M))
                    rec["suite_failed_tests"] = failed
                    rec["status"] = "suite_only" if (rc != 0 or failed) else "SURVIVOR"
            finally:
                sh(["git", "checkout", "--", rel], cwd=REPO)
                with open(LOG, "a") as f:
                    f.write(json.dumps(rec) + "\n")
                print(rec.get("status"), rel, line_no, rec["op"], "|", rec["new"][:100], flush=True)
    return 0


if __name__ == "__main__":
    sys.exit(main())
