#!/bin/bash
# usage: confirm_seed.sh <worktree> <seed-id> <property> <demo-crate> <demo-test-name> <demo-path-in-worktree>
# Confirms a seeded change: existing suite passes with it, the demonstration fails with it and passes without it.
set -u
WT=$1; ID=$2; PROP=$3; CRATE=$4; TNAME=$5; DEMO=$6
export CARGO_TARGET_DIR=$WT/target CARGO_NET_OFFLINE=true
cd $WT || exit 2
OUT=/verif/seeded/$ID
mkdir -p $OUT
LOG=$OUT/confirm.log
: > $LOG
# 1. suite with the change: every pre-existing target must pass (the demo target is the only one allowed to fail)
cargo test --workspace --no-fail-fast --offline > /tmp/$ID.suite.log 2>&1
FAILED_TARGETS=$(grep -E "^ +.-p .* --(test|lib|bin|doc)" /tmp/$ID.suite.log | grep -v -- "--test $TNAME" | wc -l)
PASSED=$(grep -E "^test result" /tmp/$ID.suite.log | awk '{p+=$4; f+=$6} END {print p" passed "f" failed (all targets incl. demo)"}')
if [ "$FAILED_TARGETS" -eq 0 ] && grep -q "test result" /tmp/$ID.suite.log; then SUITE_RC=0; else SUITE_RC=1; fi
echo "suite with change: other failed targets=$FAILED_TARGETS; $PASSED" >> $LOG
# 2. demo with the change
cargo test -p $CRATE --test $TNAME --offline > /tmp/$ID.demo1.log 2>&1
D1=$?
echo "demo with change: rc=$D1 $(grep -E '^test result' /tmp/$ID.demo1.log | head -1)" >> $LOG
# 3. demo without the change
git apply -R seed_patch.diff
cargo test -p $CRATE --test $TNAME --offline > /tmp/$ID.demo2.log 2>&1
D2=$?
echo "demo without change: rc=$D2 $(grep -E '^test result' /tmp/$ID.demo2.log | head -1)" >> $LOG
git apply seed_patch.diff
cp seed_patch.diff $OUT/patch.diff
cp $DEMO $OUT/demo_$(basename $DEMO)
cp seed_meta.txt $OUT/agent_notes.txt 2>/dev/null
if [ $SUITE_RC -eq 0 ] && [ $D1 -ne 0 ] && [ $D2 -eq 0 ]; then echo "CONFIRMED" >> $LOG; else echo "NOT-CONFIRMED" >> $LOG; fi
cat $LOG
