#!/usr/bin/env python3
"""dev helper: create a scratch worktree of /repo for a seeding sub-agent and print the prompt for it.
usage: seed_prompt.py <n> <property-id> [free|focused] [hint...]
The prompt contains the text of the property and nothing from /verif."""
import json, subprocess, sys, os

n, pid = sys.argv[1], sys.argv[2]
mode = sys.argv[3] if len(sys.argv) > 3 else "free"
hint = " ".join(sys.argv[4:])
wt = "/tmp/seed_wt_%s" % n
if not os.path.exists(wt):
    subprocess.check_call(["git", "-C", "/repo", "worktree", "add", "--detach", wt, "HEAD"], stdout=subprocess.DEVNULL, stderr=subprocess.DEVNULL)
prop = None
for l in open("/verif/properties.jsonl"):
    d = json.loads(l)
    if d["id"] == pid:
        prop = d
p = {k: prop[k] for k in ("id", "title", "statement", "quantifier", "why_tests_cant", "anchors")}
print(f"""You are helping to evaluate a verification framework for `pasfmt`, an opinionated Delphi/Pascal source formatter written in Rust (lexer, logical-line parser, optimising line-wrapping formatter, reconstructor, CLI orchestrator). Your job is to write ONE realistic code change ("seeded defect") to pasfmt that BREAKS the semantic property below while the code still compiles and the ENTIRE existing test suite still passes, plus a small demonstration test that fails with your change and passes without it.

Work ONLY in your own scratch git worktree: {wt} (a detached worktree of the repository; do not touch /repo or /verif, do not read anything under /verif). Use `export CARGO_TARGET_DIR={wt}/target CARGO_NET_OFFLINE=true` for every cargo command (no network is available; `--offline`). Build: `cargo build --offline`. Suite: `cargo test --workspace --offline --no-fail-fast` (about 3200 tests; all must pass with your change, apart from your own demonstration).

THE PROPERTY (JSON):
{json.dumps(p, indent=1)}

Requirements for the change:
- It must make the property FALSE for some inputs/configurations/schedules (a real violation of the statement as written, not merely a behaviour change).
- It must need something specific to manifest: an unusual input shape, a particular configuration value, a multi-step sequence, a particular interleaving or fault, or two cooperating sites that each look fine alone. Ordinary use and the existing tests must not expose it. Prefer a subtle, plausible change (the kind of thing a maintainer could introduce in a refactor, optimisation or small feature) of a few lines in the files the property is anchored in. {"Be creative: choose a mechanism and a site that an obvious reading of the property would not try first." if mode == "free" else ""} {hint}
- It must still compile without new warnings-as-errors and pass the whole existing suite unedited.
- Do not change any existing test or expected output file.

Deliverables, all inside {wt}:
1. The source change itself, left applied in the worktree, and `{wt}/seed_patch.diff` = output of `git diff` for the source change ONLY (not including the demonstration test).
2. A demonstration: a new integration test file `{wt}/front-end/tests/seed_demo.rs` (crate `pasfmt`; it can use `pasfmt::make_formatter`, `pasfmt::FormattingConfig` (deserialisable with `toml::from_str` if toml is a dev-dependency, otherwise `FormattingConfig::default()`), `pasfmt_core::prelude::*`, or run the built binary via `assert_cmd`/`std::process::Command` like the other tests in front-end/tests) that states the property on a concrete input and FAILS with your change and PASSES without it. Look at the existing tests in front-end/tests for how they are set up. If the property is about the CLI/orchestrator use the binary the way front-end/tests do.
3. `{wt}/seed_meta.txt`: first line `PROPERTY: {pid}`; then: what you changed and where; why the property breaks; what is needed for it to manifest; the failing input; why the existing tests miss it; and the exact commands you ran with their results (suite with the change: all pass; demo with the change: fails; demo without the change (`git stash` or `git apply -R seed_patch.diff`): passes). Leave the change APPLIED at the end.

Verify all three facts yourself before finishing (suite passes with the change, demo fails with it, demo passes without it). If your first idea is exposed by the existing suite, pick another one. Do not remove the target directory. Final answer: a short summary (the mechanism, the failing input, test results).""")
