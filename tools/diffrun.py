#!/usr/bin/env python3
"""dev helper: run harness emit + driver and show mismatches"""
import subprocess, sys, os
stream=sys.argv[1]; count=sys.argv[2]; seed=sys.argv[3] if len(sys.argv)>3 else "1"
extra=sys.argv[4:]
d=f"/tmp/pv_{stream}"
subprocess.run(["/verif/harness/target/debug/pasfmt-verif-harness","emit","--stream",stream,"--seed",seed,"--count",count,"--out",d]+extra,check=True,stdout=subprocess.DEVNULL)
with open(f"{d}/cases.in") as f, open(f"{d}/cases.out","w") as o:
    subprocess.run(["/verif/lean/.lake/build/bin/pvdriver"],stdin=f,stdout=o,check=True)
exp=open(f"{d}/cases.exp").read().split('\n')
out=['\t'.join(x for x in l.split('\t') if not x.startswith('info_')) for l in open(f"{d}/cases.out").read().split('\n')]
meta=open(f"{d}/cases.meta").read().split('\n')
bad=[i for i,(a,b) in enumerate(zip(exp,out)) if a!=b]
print(len(exp)-1,"cases",len(bad),"mismatches")
import json
summ=json.load(open(f"{d}/summary.json"))
print("failures:",len(summ["failures"]), [ (f["what"][:80]) for f in summ["failures"][:5]])
for i in bad[:int(os.environ.get("SHOW","5"))]:
    fam,cfg,h=meta[i].split('\t')
    print("----",i,fam,cfg, repr(bytes.fromhex(h if h!='-' else '').decode('utf8'))[:400])
    ef=exp[i].split('\t'); of=out[i].split('\t')
    if len(ef)!=len(of): print("  exp",exp[i][:300]); print("  got",out[i][:300]); continue
    for x,y in zip(ef,of):
        if x!=y:
            xs=x.split(' '); ys=y.split(' ')
            if len(xs)==len(ys) and len(xs)>1:
                for j,(p,q) in enumerate(zip(xs,ys)):
                    if p!=q: print("   field",x[:6],"idx",j,"exp",p[:120],"got",q[:120]); break
            else:
                print("   exp",x[:300]); print("   got",y[:300])
