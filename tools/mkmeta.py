#!/usr/bin/env python3
"""dev helper: write seeded/<id>/meta.json.  usage: mkmeta.py <id> <property> <summary> <needs> <detected_by;...> [initially_missed]"""
import json, sys, os
sid, prop, summary, needs, det = sys.argv[1:6]
missed = sys.argv[6] if len(sys.argv) > 6 else None
d = "/verif/seeded/%s" % sid
conf = [l.strip() for l in open(os.path.join(d, "confirm.log")) if l.strip()]
m = {"property": prop, "summary": summary, "needs": needs, "detected_by": [x.strip() for x in det.split(";") if x.strip()],
     "confirmed": conf,
     "how_to_run": "git -C /repo apply /verif/seeded/%s/patch.diff; ./check %s --tier quick; git -C /repo checkout -- ." % (sid, prop)}
if missed:
    m["initially_missed"] = missed
json.dump(m, open(os.path.join(d, "meta.json"), "w"), indent=1)
print("ok", d)
