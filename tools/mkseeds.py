#!/usr/bin/env python3
"""One-off: snapshot the repository's data-test seed programs into corpus/seeds.txt."""
import os, re, textwrap, sys
root = "/repo/core/datatests/generated"
SEP = "!#################################!"
out = []
seen = set()
for d, _, fs in sorted(os.walk(root)):
    for f in sorted(fs):
        p = os.path.join(d, f)
        s = open(p, encoding="utf-8").read()
        parts = s.split(SEP)
        progs = []
        if "logical_line_test" in p:
            lines = []
            for ln in parts[0].split("\n"):
                m = re.match(r"^\s*[^|]*\|(.*)$", ln)
                if m:
                    lines.append(m.group(1))
            progs.append("\n".join(lines))
        else:
            progs.append(textwrap.dedent(parts[0]).strip("\n") + "\n")
        for pr in progs:
            if pr.strip() and pr not in seen and "!####SEED####!" not in pr:
                seen.add(pr)
                out.append(pr)
with open("/verif/corpus/seeds.txt", "w", encoding="utf-8") as f:
    f.write("\n!####SEED####!\n".join(out))
print(len(out), "seed programs", sum(len(x) for x in out), "bytes")
