HOOK_COMMITS = []
NOT_APPLICABLE = {}
TEXTS = {
    "C01": {
        "text": "Lean 4 theorem C01_format_partial: for every byte string, configuration, parser behaviour and every wrapper behaviour "
                "satisfying the frame contract, the output has the same non-blank characters in the same order as the input up to ASCII "
                "case; proved through exact models of lexer, content rules, pipeline glue and reconstructor (for every counter "
                "assignment). Model tied to the code by per-stage differential execution; contract clauses evaluated on every case.",
        "design_ref": "DESIGN.md section 5 (C01)",
        "note": "Assumes (checked per case by the driver): WrapFrame (wrapper changes only blanks inside contents and keeps the token "
                "vector) and 'no dangling E3 byte in token contents' (follows from valid UTF-8 once lex_char_boundaries is proved). "
                "Parser and wrapper are universally quantified, not modelled. Trusted: Lean kernel, translator, harness.",
        "technique": "Lean 4 proof over executable model + differential correspondence + per-case contract evaluation",
    },
    "C13": {
        "text": "Machine-checked Lean 4 theorems on an exact model of the lexer: losslessness, single last end-of-file token, blank-only "
                "leading whitespace, non-blank token starts, AVX2 identifier routine = scalar routine for every input, keyword lookup = "
                "table specification for every word; all for inputs of any length. The model is tied to DelphiLexer::lex by "
                "token-by-token differential execution on every run.",
        "design_ref": "DESIGN.md section 5 (C13)",
        "note": "Trusted: Lean kernel (axioms propext, Classical.choice, Quot.sound only), the translator of the keyword/dispatch tables, "
                "the hand-written lexer model (validated differentially, not verified against the Rust code), rustc. Char-boundary "
                "and totality theorems are still open (stated in Props/C13.lean as TODO).",
        "technique": "Lean 4 proof over executable model + differential correspondence",
    },
}
