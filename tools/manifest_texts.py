HOOK_COMMITS = ["f359e01", "777d166", "7617359", "b305671", "d2c6b54", "18a3e5c"]
NOT_APPLICABLE = {}
TEXTS = {
    "C01": {
        "text": "Lean 4 theorem C01_format: for every well-formed UTF-8 input, configuration, parser behaviour and every wrapper behaviour "
                "satisfying the frame contract, the formatter returns an output and it has the same non-blank characters in the same order as the input up to ASCII "
                "case (case_changes_confined: a letter changes case only inside a parser-typed keyword, lower-cased as a whole, or inside the name span of a compiler directive; every other rule changes blanks only, exactly); proved through exact models of lexer, content rules, pipeline glue and reconstructor (for every counter "
                "assignment). C01_format_any_search: with the exact model of the wrapper stage around an arbitrary search (Model/WrapStage, compared with the real stage on every case: wp, wcn, sx) no wrapper contract is assumed at all. formatFull_output_valid_utf8: the output of the closed model is well-formed UTF-8 whenever the input is (no rule cuts inside a multi-byte character). C01_format_full: for the closed model of the whole formatter (formatFull: scanner, parser control flow, consolidators, rules, wrapper stage with the search inside, reconstructor; compared byte for byte with make_formatter().format() on every case of the `full` stream) the statement holds with no oracle and no contract whenever the model answers. Model tied to the code by per-stage differential execution; contract clauses evaluated on every case.",
        "design_ref": "DESIGN.md section 5 (C01)",
        "note": "Assumes (checked per case by the driver): WrapFrame (wrapper changes only blanks inside contents and keeps the token "
                "vector) (the 'no dangling E3 byte in token contents' side condition is now a theorem: lex_total + lex_char_boundaries + valid_nd). "
                "Parser and wrapper are universally quantified, not modelled. Trusted: Lean kernel, translator, harness.",
        "technique": "Lean 4 proof over executable model + differential correspondence + per-case contract evaluation",
    },
    "C02": {
        "text": "Lean 4 theorems on the exact lexer and reconstructor models: the scanner is local (scanner_is_local: for every token "
                "class, state and length a token is decided by its own bytes and at most three bytes of lookahead, incl. nested "
                "directive expressions, multi-line strings, assembler tokens); hence C02_relex / C02_format: when every emitted token is "
                "scanned back inside its three-byte window (decidable contract relexB, evaluated by the driver on every well-formed "
                "case, field rx) scanning the whole output yields exactly the emitted token vector with the input's kinds - no gluing, "
                "splitting or absorption. Plus: unconditional line break after every single-line comment; exactness of the documented "
                "content normalisations. That the spacing decisions satisfy the contract on all well-formed programs is grammar "
                "knowledge: contract per case + re-scan oracle on the real code (exact normalisations only).",
        "design_ref": "DESIGN.md section 5 (C02), 12.3",
        "note": "Assumes (checked per case): relexB on the final token vector; parser kinds and wrapper decisions come from the real run. "
                "One defect found and repaired (F28, b68b46e).",
        "technique": "Lean 4 proof over executable model + per-case contract evaluation + differential correspondence + re-scan oracle",
    },
    "C03": {
        "text": "Lean theorems for the fixpoint lemmas (lower-casing, trimming, blank-line clamp, newline read-back, idempotence of the line-comment and compiler-directive rules and of the whole comment formatter); mls_rewrite_idem / mls_token_idem (the multi-line string re-indenter is a fixpoint after one application). C03_format_full_checked: for the closed model of the whole formatter, if the output is another layout of the input's tokens in the sense of the layout theorem (layoutPremisesB cfg s out, decidable), formatting the output again returns it unchanged - a corollary of C06_format_full_checked. For inputs whose token texts are not yet normalised the composition relies "
                "on the format-twice oracle on every well-formed case and on the full/wsearch correspondences (the model re-wraps exactly where the code does, stale child-line cache included) (partial). Known finding F10.",
        "design_ref": "DESIGN.md section 5 (C03)",
        "note": "Wrapper determinism and ReflowFresh are contracts, not theorems.",
        "technique": "Lean 4 proof of sub-claims + metamorphic oracle",
    },
    "C05": {
        "text": "Lean theorems about the exact model of the search, for every input (Proofs/SearchFirstToken, SearchChildLines): format_line_starting_ws (the solution the search returns for a line starts at exactly the line's level, 0 continuations: an invariant of the heap loop - every node carries the root's starting whitespace and root decision - through get_potential_solution, the indifference and successor loops and the binary-heap operations), format_line_first_decision (the first decision is a break with 0 continuations unless the line may not break at its start: first token of the file, or a comment sharing its line with code), searchSolve_first_token / wrapStageFull_first_token (through the whole wrapper stage the first token of every line whose wrapping succeeds ends with 1 or 2 line breaks, indentation = the line's level, no continuation, no spaces), line_start_rendering (so the reconstructor emits it first on its own line behind exactly level indentation units), format_line_children / wrapStageFull_children (every child solution at every depth starts from whitespace derived from its parent's: TreeOk), begin_always_wrap (under begin_style=always_wrap, in every solution the search returns, the begin of a then/do/else/case-arm body is placed by a breaking option at the controlling statement's indentation: a strengthened tree invariant through the search loops) and begin_always_wrap_counters; child_line_first_token / wrapStageFull_child_first_token (a statement of a child block - an anonymous routine body, a begin..end body - starts its own line, indented by the parent's indentation plus its level), sibling_children_same_indent (statements of one list are aligned; one level deeper = one indentation more). Lean theorem for the rendering of first-token counters; block structure itself decided by a generator-marked structure "
                "oracle (first-on-line, one unit deeper than the opener's line, closers at the opener's indentation, begin under "
                "always_wrap) on every generated program (partial). The parser's control flow (which decides lines and levels) is an exact Lean model compared with the real parser on every case (pfull stream), and so are the consolidators (cl) and the wrapper stage around the search (wp).",
        "design_ref": "DESIGN.md section 5 (C05), 12.2",
        "note": "The link from a line's level to its rendered indentation is a theorem (through the search); that the modelled grammar gives the statements of the property lines of the stated levels is decided by the structure oracle and the pfull correspondence, not by a theorem. Known findings F21, F32.",
        "technique": "Lean 4 proof of rendering + specification-level oracle from the generator's AST marks",
    },
    "C06": {
        "text": "Lean theorems: whitespace reduction to counters, layout-invariance of TokenSpacing for all kind sequences "
                "(spacing_layout_invariant: amount of blanks; spacing_space_or_break: a space and a line break with any indentation "
                "are the same gap - true since repair b68b46e), blank-line clamp; translator obligation layout_is_read_only_at_known_sites (every read of a token's original whitespace, line-break count or the newline string in the parser and in every rule, regenerated from the Rust source on every run); C06_format_full_checked / C06_format_full: for the closed model of the whole formatter (formatFull: scanner, parser control flow, consolidators, rules, wrapper stage with the search inside, reconstructor) two layouts of the same tokens are formatted to the same bytes whenever the decidable premise layoutPremisesB holds for the pair: same token types and texts, same blank-line grouping, identical bytes before verbatim tokens, GapEqW (a gap's emptiness matters only between a literal/unknown token and a token that can keep its spacing, and before the end-of-file token), same line-break flags after the first asm keyword, every token written by a first-phase solution of the wrapper in the first run (fails exactly where the wrapper finds no solution: F34), and every token behind a trailing line comment that could keep the input's spaces starts a line in the result - proved for every token a solution writes (search_breaks_where_it_must: an invariant over the whole search, the decision at a MustBreak requirement is a break; wrapper_breaks_after_line_comment; C06_format_full_checked' with the equivalent premise set layoutPremisesB', which the driver evaluates), still checked for verbatim and end-of-file tokens (TokenSpacing gives such a token no spacing; the model's token_lengths masks it, which the wsearch/full correspondences validate). No contract on parser or wrapper: the parser model reads line breaks only behind an asm keyword (parse_layout_independent, by construction of parseFileMasked), the search model reads tokens only through FTok.sview (kind, last-line length) and the configuration through Config.searchCfg (search_reads_views_only), and a relational proof carries two related token states through the whole wrapper stage (Proofs/LayoutStage, LayoutFull). The premise is evaluated by the driver on every pair of the relayout stream (full2: info_c06; holds on about 98 % of the random pairs; the rest are pairs in which a gap between a literal and an identifier-like token is empty in one layout only), next to the byte comparison of both model outputs with the real formatter and the relayout oracle on the real code.",
        "design_ref": "DESIGN.md section 5 (C06), 12.8",
        "note": "Lines without a wrapping solution (F34, where the property is false) and the 2 % of pairs outside the premise are decided by the relayout oracle and the full2 correspondence only. The model is tied to the code by differential execution (full, full2, pfull, wsearch streams).",
        "technique": "Lean 4 proof over the closed executable model (relational, unbounded) + per-pair premise evaluation + differential correspondence + metamorphic relayout oracle",
    },
    "C11": {
        "text": "Lean theorems about the idealised optimiser (argmin_shrink, antitone overflow penalty, fits-monotonicity), and a "
                "translator-generated obligation (width_is_read_only_as_a_limit): the wrapper's source reads max_line_length only in "
                "the too-long test of find_optimal_solution and in the overflow penalty - a new read breaks the obligation; the "
                "implementation's search is checked by a width-pair oracle with an adaptive boundary family and a per-program width sweep (partial).",
        "design_ref": "DESIGN.md section 5 (C11)",
        "note": "find_optimal_solution's pruning and iteration limit are not modelled.",
        "technique": "Lean 4 proof about an idealised optimiser + width-pair oracle",
    },
    "C04": {
        "text": "Lean theorems: the scanner returns a token list on every input (lex_never_fails: fuel suffices, every token is non-empty and in range) and slices only at character boundaries of well-formed UTF-8 (lex_slices_on_char_boundaries); linear pass count; reference validity of the line builder; totality of every model function; "
                "formatFull_answers_iff_parser_answers / formatFull_none_iff (the closed model of the whole formatter answers exactly when the parser model answers: scanner, consolidators, ignore marks, token rules, wrapper stage with the search, reconstructor cannot fail - the lines the parser model returns are in range with earlier parents (parse_lines_ok), voiding and the token rules keep that); the wrapper stage with the search inside never aborts (wrapper_stage_never_aborts: wrapStageFull answers for every token state and every line list whose token indices are in range and whose parents are earlier lines - apply_solution_never_aborts for every solution that fits the lines, search_returns_fitting_solutions by a decision-count invariant through the search loops and a bound on the child-line indices, top_parent_walk_ends, mls_pass1/2_never_abort); the whole parser is an exact, total, fuel-bounded Lean model (pfull stream: it answers on every case - no panic site reached, fuel never exhausted - and agrees with the real parser); for the real control flow (parser, wrapper search) a monitor: catch_unwind + hang detector per case on a debug "
                "build, deterministic work counters against linear bounds, enumeration of all token sequences up to length 3 "
                "(thorough). Partial by nature: termination of the parser's and the search's own loops is observed, not proved.",
        "design_ref": "DESIGN.md section 5 (C04)",
        "note": "Known findings F2 (stack depth), F3/F18 (cursor arithmetic). Four defects found by this check were repaired by fix: "
                "commits (see known_findings.json).",
        "technique": "Lean 4 totality/bound theorems + run-time monitor (watchdog, catch_unwind, counters)",
    },
    "C14": {
        "text": "Lean theorems quantified over every operation trace of the line-building primitives (ordering, disjointness, coverage "
                "of the pass), consolidation, directive lines, single pass without conditionals; every conditional-directive pass of every file is strictly increasing and in range (passes_sorted_in_range), so the line-builder theorems hold for every pass without side condition (file_lines_wellformed). Exact models replayed against the "
                "real parser's hook trace and output on every case; direct C14 oracle on the parser output. The three post-parse consolidators (generics, conditional directives inside a line, package directives) are exact models too (Model/Consolidators, fields ck/cl of every fmt record): consolidator_keeps_lines_wellformed (same number of lines, parents and levels untouched, every line still strictly increasing and in range, every token still in some line; an expanded line is the full range first..last), generics_only_retypes_chevrons, package_rule_changes_levels_only; the C14 oracle is also evaluated on the lines after the consolidators. The parser's control flow is an exact, total Lean model (Model/ParserBase, ParserLeaf, ParserFull; pfull stream: final kinds and lines equal the real parser's on every case) whose line builder can only be driven through the primitives (proof-carrying trace): parser_model_final_lines_wellformed (every line non-empty, strictly increasing, within the file) and parser_model_covers_every_token (every token of the file is in some line) hold for every input on which the model answers, with no hypothesis on control flow. Second sentence (Proofs/ParserParents*, an invariant over the parser model's state monad proved for every parsing function, the 25 mutually recursive ones by induction on fuel): parser_model_parent_contains_token (in the final result a child line's parent line precedes it and contains the parent token: unconditional), parser_model_exactly_one_without_conditionals (every token in exactly one line when the file has no conditional directives), parser_model_at_most_one_eof_line_per_pass, parser_model_single_eof_line (exactly one end-of-file line, holding only the end-of-file token, under the decidable hypothesis eofOk = an end-of-file line in every pass, tallied per case in pfull as info_eofline; false on ill-formed input: counterexample theorem eof_token_can_be_swallowed).",
        "design_ref": "DESIGN.md section 5 (C14), 12.2, 12.8",
        "note": "The end-of-file clause holds under the decidable hypothesis eofOk (true on the well-formed families, false on token soup); the direct oracle also checks both clauses on the real parser. The model answers `none` where the real code would panic or its fuel runs out (never observed); three run-time guards of the model (skip only on compiler directives, pass consumed, directives keep their kind) are facts of the unchanged code checked by the correspondence. Trusted: Lean kernel, translator, harness, hook patch, model.",
        "technique": "Lean 4 proof over executable state machine + trace replay correspondence + direct oracle",
    },
    "C07": {
        "text": "Lean theorems C07_format (whole pipeline: for every input, parser behaviour and wrapper that keeps ignored tokens, a run of marked tokens is in the output contiguously with its scanned whitespace and text) and verbatim_emitted: the reconstructor model emits every run of ignored tokens byte for byte for every counter "
                "assignment (under a decidable no-safety-net side condition, tallied per case); ignored tokens cannot be rewritten. The "
                "toggle recogniser, marking, void step and reconstructor models are tied to the code by differential execution; a "
                "substring-equality oracle runs on every case, including a family that places toggle comments between arbitrary tokens. C07_format_any_search: with the exact model of the wrapper stage around an arbitrary search the wrapper hypothesis is a theorem. Last sentence of the property (Proofs/ToggleSpec): toggle_spec (parseToggle c = some tg iff c = opener ++ blanks ++ 'pasfmt' in any letter case ++ at least one blank ++ the maximal alphanumeric word, which spells on/off in any letter case; opener = //, {, (*), toggle_case_insensitive, toggle_exact_words, toggle_three_comment_forms, toggler_regions (a token is marked iff it is a toggle comment itself or the nearest toggle comment before it is an off; the region runs to the end-of-file token when no on follows), asm_marks_spec, ignoredMarks_spec / preWrap_marks_spec (which discharge the marking hypothesis of C07_format declaratively), unmarked_still_formatted, voidLines_spec.",
        "design_ref": "DESIGN.md section 5 (C07)",
        "note": "Asm bodies rely on the real parser's AsmInstruction lines (taken from the implementation in every case). Known finding F4 "
                "(lone-CR line comment inside a region). Trusted: Lean kernel, translator, harness, hand-written model.",
        "technique": "Lean 4 proof over executable model + differential correspondence + direct oracle",
    },
    "C08": {
        "text": "Lean theorems on the reconstructor for every token list with canonical counters: gap shape (none/one space, or 1-2 breaks "
                "plus whole indentation units), whole-unit indentation, end-of-file newline, spacing rule values <= 1, and after TokenSpacing no token is preceded by more than one space whatever the original spacing (spacing_at_most_one, via layout invariance). Exact models of the "
                "rules feeding the counters are differentially checked; a line-scanner oracle checks the real output of every case. no_spaces_at_line_start: for every search the exact model of the wrapper stage (wp/wcn correspondence) leaves no spaces before a token that starts a line. C08_format_full_checked / C08_format_full_checked2 / canonical_counters_after_stage: for the closed model of the whole formatter (search inside) the output is the reconstruction of a state in which every token not kept verbatim has canonical counters (at most two line breaks, no spaces at a line start, no indentation without a line break, at most one space otherwise), whatever the search returned, whenever the decidable premise canonPremisesB' holds (at most one space per token before the stage - proved except at free positions behind a trailing line comment, C08_pre_stage_spaces, checked there; every token written by a first-phase solution or by the end-of-file rule) - tallied on every case of the full stream (info_c08); it fails exactly on lines without a wrapping solution (F34). Byte level (Proofs/ReconBytes): for every token state satisfying the decidable predicate CanonState (canonical counters, no line break and no leading/trailing blank inside token texts, first token at the start) the five clauses of the property hold of the bytes of reconstruct: output_lines (the output is its lines joined by the line ending, uniquely), no_trailing_blank, at_most_one_space (between two token texts: nothing, one space, or a line break followed by indentation), no_double_blank_line (never three consecutive terminators, none at the start), line_indentation_whole_units, ends_with_one_terminator; segment_clauses for runs between verbatim tokens; C08_bytes_full_checked composes them with the closed model; CanonState is evaluated by the driver on the final token state of every case of the full stream (info_c08b: holds on about 70 %; the rest has multi-line or verbatim tokens, which the property excludes or segment_clauses covers).",
        "design_ref": "DESIGN.md section 5 (C08), 12.2, 12.8",
        "note": "Known findings F5, "
                "F6, F13, F14, F15 are recorded classes. Trusted: Lean kernel, translator, harness, model.",
        "technique": "Lean 4 proof over executable model + differential correspondence + direct oracle",
    },
    "C09": {
        "text": "Lean theorems: for fixed counters the crlf rendering equals the lf rendering with terminators substituted; every emitted "
                "break is the configured newline; whitespace counters ignore CR. C09_format_full_crlf_config: for the closed model of the whole formatter (search inside) formatting with crlf gives exactly the lf result with each terminator substituted, under the decidable premise crlfOk23 computed from the lf run (both runs rewrite the same literals; nothing emitted verbatim holds a line break; that every multi-line literal reaching the wrapper ends in a quote is proved: C09_crlfOk_of_23 via the converse literal-kind invariant of the parser model) - the search cannot see the line ending (Config.searchCfg, FTok.sview); mls_rewrite_crlf: the re-indenter's two results differ exactly by the substitution; counterexample theorems show each premise is needed. The premise is tallied on every case of the full stream (info_c09: holds on about 78 %). C09_input_endings_full_checked (third clause): the same text with LF and with CRLF line breaks are two layouts of the same tokens, so the layout theorem applies whenever its decidable premise holds for the pair (no token containing a line break, no verbatim token with one before it): both are formatted to the same bytes; evaluated on every pair of the input_endings stream (info_c06: about 90 %). The lf/crlf and LF/CRLF-input relations are also checked "
                "as oracles on the real formatter for every case.",
        "design_ref": "DESIGN.md section 5 (C09), 12.8",
        "note": "Known findings F25, F35 (both about line-spanning tokens, outside the premises). Trusted: "
                "Lean kernel, translator, harness, model.",
        "technique": "Lean 4 proof over executable model + differential correspondence + metamorphic oracle",
    },
    "C10": {
        "text": "Proofs/SearchWidthFree (towards the agreement of the search's decisions under the two settings): a source-level inventory of every read of a line length or of the width limit in the model of the search (the widths enter only through LineWhitespace.len in get_token_line_length and the root's length; lengths are consumed only by the overflow summand of the continuation penalty, the too-long test of the indifference loop and the child-line cache key), penalty_width_free and too_long_false (both consumers are blind to the widths while no length exceeds the limit), requirement_width_free, stage_of_search_simulation_partial (C10 for the whole wrapper stage reduced to a simulation between the two searches), and stage_tab_width_one (for tab_width = 1 the two settings give the search the same view, so the statement holds for the closed model without any premise on the width). Lean theorems: tab expansion of the use_tabs rendering equals the spaces rendering for fixed counters (ci*tw<=255); "
                "indentation = (levels + ci*continuations) units; saturation point characterised. Pair oracle on the real formatter with "
                "unconstrained width for every well-formed case.",
        "design_ref": "DESIGN.md section 5 (C10)",
        "note": "Decision agreement across the two settings is oracle-checked. Known finding F6 (u8 saturation). Trusted: Lean kernel, "
                "translator, harness, model.",
        "technique": "Lean 4 proof over executable model + differential correspondence + metamorphic oracle",
    },
    "C12": {
        "text": "Lean theorems on the exact model of the multi-line string re-indenter (line-by-line specification: values unchanged, exact "
                "indentation, configured terminators, rejection rule, untouched when off/ignored; re-indentation changes blanks only: mls_only_blanks_change; reading the new lines relative to the new indentation gives back the old values: mls_values_preserved). The model is checked against the "
                "wrapper stage's before/after token contents on every case and a per-literal value oracle runs on the real formatter "
                "over a targeted family (3/5/7 quotes, LF/CR/CRLF, tab/space/U+3000/control indentation, short/blank/over-indented lines). End to end from mlsRewrite (Proofs/MlsMore): mls_indent_exact / mls_indent_exact_lines (after rewriting, the closing quotes and every non-empty interior line start with exactly ind indentation units and cont continuation units), mls_value_full (the literal's value, defined independently of the rewriter, is unchanged), mls_rewrite_idem (a second application changes nothing), mls_still_one_token (the rewritten text still scans as one multi-line literal), lines_custom_splits_at_terminators; counterexample theorems for each hypothesis. End to end for the closed model of the whole formatter, with no side condition on the input (Proofs/MlsPipeline, ParserLiterals): formatFull_mls_values (for every scanned multi-line literal the final token has the same kind, still ends in a quote and has the same value; its text is the scanned one after at most two applications of the re-indenter, and exactly the scanned one inside verbatim regions and when format_multiline_strings=false), formatFull_mls_rejected_verbatim / formatFull_mls_bad_line_verbatim (a literal violating the indentation rule is reproduced byte for byte), parser_keeps_literals (the parser model never retypes a text literal: an invariant over its whole control flow), rules_keep_literals, scanned_mls_ends_quote, stage_mls_contents.",
        "design_ref": "DESIGN.md section 5 (C12), 12.8",
        "note": "Hypothesis 'the literal ends in a quote' is discharged from the scanner side by mls_token_ends_quote. Trusted: Lean kernel, translator, harness, model.",
        "technique": "Lean 4 proof over executable model + differential correspondence + direct oracle",
    },
    "C15": {
        "text": "Lean theorems on the exact cursor model (checked arithmetic): offset_for_token is the true offset, same-offset-in-same-token, "
                "past-the-end, cursor state never read by format; the known underflow is a decide-checked witness. Input side and end to end (Proofs/CursorProps2): processCursor_in_token (a cursor at offset o of token k is attached to token k at offset o; the boundary case sticks to the previous token: cursor_at_token_start_sticks), cursor_in_unchanged_token(_true) (reported at start'(k)+o, which is the true position of the token's text in the output), the same for multi-line tokens with lines below 2^16 bytes, cursor_in_bounds_partial / cursor_in_bounds_lf (every reported cursor lies within the output, except for an ignored token's blank lines under crlf: counterexample theorem cursor_in_bounds_fails_ignored_crlf = known finding F11, reproduced on the binary), cursor_whitespace_in_gap. Character boundaries (Proofs/CursorBoundary): output_valid_utf8, cursor_in_gap_on_boundary (non-ignored tokens), cursor_in_token_on_boundary, cursor_on_boundary_unchanged_token (an input cursor on a character boundary inside an unchanged token is reported on a character boundary of the output), with counterexample theorems for changed comments (F16), the safety-net newline (F19) and wide blanks before an ignored token (F37, found on the model and reproduced on the binary). Proofs/Utf8Pipeline: every stage of the closed model keeps token texts well-formed UTF-8 (lex_pieces_valid, line_comment_rule_keeps_utf8, directive_rule_keeps_utf8, mls_rewrite_keeps_utf8, wrap_stage_keeps_pieces_valid), hence formatFull_pieces_valid and the cursor theorems instantiated at the final state of formatFull without the PiecesValid hypothesis (formatFull_cursor_on_boundary_unchanged_token, …). Model vs implementation "
                "compared on all character boundaries of small inputs and random cursor lists on large ones.",
        "design_ref": "DESIGN.md section 5 (C15)",
        "note": "Known findings F3, F7, F11, F16, F18, F19, F37. Trusted: Lean kernel, translator, harness, model.",
        "technique": "Lean 4 proof over executable model + differential correspondence + direct oracle",
    },
    "C16": {
        "text": "Lean theorems on the CLI mode logic (write protocol, files = stdin->stdout under RoundTrip, check exit, read-only modes, "
                "undecodable files, mode defaults) + correspondence of the model with the built binary on temporary trees for every mode, "
                "path form, encoding and BOM.",
        "design_ref": "DESIGN.md section 5 (C16)",
        "note": "File system, walkdir/glob and legacy codec tables are external parameters. Known finding F8.",
        "technique": "Lean 4 proof over executable model + binary-level differential correspondence",
    },
    "C17": {
        "text": "Lean theorems: BOM logic, UTF-16 encoder round trip for every text, written-bytes specification, malformed input never "
                "rewritten; binary-level correspondence across 8 encodings x BOM kinds x malformed inputs.",
        "design_ref": "DESIGN.md section 5 (C17)",
        "note": "encoding_rs tables are trusted/external; expected legacy bytes come from Python codecs on a common subset.",
        "technique": "Lean 4 proof over executable model + binary-level differential correspondence",
    },
    "C18": {
        "text": "Lean theorem over all schedules of a buffer-carrying worker model (results = per-file results, exit status iff a failure) "
                "+ binary runs with several thread counts against per-file runs + replay of the hooked schedule history through the model.",
        "design_ref": "DESIGN.md section 5 (C18)",
        "note": "Partial w.r.t. true concurrency: data races cannot be exhibited by the model.",
        "technique": "Lean 4 proof over schedule-abstract model + binary-level correspondence with schedule hook replay",
    },
    "C19": {
        "text": "Lean theorems on configuration lookup and layering + binary-level correspondence from nested working directories with "
                "random option splits between file and command line.",
        "design_ref": "DESIGN.md section 5 (C19)",
        "note": "config/serde/toml/clap external; value domains pinned by the correspondence. Known finding F20 (coercions).",
        "technique": "Lean 4 proof over executable model + binary-level differential correspondence",
    },
    "C13": {
        "text": "Machine-checked Lean 4 theorems on an exact model of the lexer: totality (lex_total), all boundaries on character boundaries (lex_char_boundaries), losslessness, single last end-of-file token, blank-only "
                "leading whitespace, non-blank token starts, AVX2 identifier routine = scalar routine for every input, keyword lookup = "
                "table specification for every word, position independence (scan_is_position_independent: a token does not depend on what follows it beyond three bytes); declarative specifications of the sub-scanners proved for every input (Proofs/LexSpecs): ident_maximal_munch (longest run of identifier bytes, stopping before U+3000), line_comment_spec, block_comment_spec (first closer; kind from the line break and the first-on-line flag), decimal/hex/binary_number_spec (digits, optional fraction only before a digit, optional exponent; maximal), string_literal_spec (item grammar of quoted segments and character codes; multi-line literals end at the first matching quote run), keyword_case_insensitive, and token-level forms (word/decimal/text/comment_token_spec); compiler directives (Proofs/LexSpecs2): directive_name_spec, directive_kind_spec (table of the eight conditional names, case-insensitive), plain_directive_spec (first closer), directive_expr_end_spec (an inductive grammar DirEnd/DirItem of what the {$if}/{$elseif} expression scanner skips - nested comments, text literals, // comments, nested directives - proved equivalent to the scanner, total and deterministic), directive_spec; ampersand tokens (ampersand_spec); assembler mode (asm_mode_spec: entered by the keyword asm not following '.', left by end; asm_label_spec, asm_number_spec, asm_text_literal_spec); all for inputs of any length. The model is tied to DelphiLexer::lex by "
                "token-by-token differential execution on every run.",
        "design_ref": "DESIGN.md section 5 (C13)",
        "note": "Trusted: Lean kernel (axioms propext, Classical.choice, Quot.sound only), the translator of the keyword/dispatch tables, "
                "the hand-written lexer model (validated differentially, not verified against the Rust code), rustc. An independent "
                "by-construction oracle (tokfam: tokens of every class built from the lexical rules) checks the real scanner too.",
        "technique": "Lean 4 proof over executable model + differential correspondence",
    },
}
