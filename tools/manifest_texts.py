HOOK_COMMITS = []
NOT_APPLICABLE = {}
TEXTS = {
    "C13": {
        "text": "Machine-checked Lean 4 theorems on an exact model of the lexer: losslessness, single last end-of-file token, blank-only "
                "leading whitespace, non-blank token starts, AVX2 identifier routine = scalar routine for every input, keyword lookup = "
                "table specification for every word; all for inputs of any length. The model is tied to DelphiLexer::lex by "
                "token-by-token differential execution on every run.",
        "design_ref": "DESIGN.md section 5 (C13)",
        "note": "Trusted: Lean kernel (axioms propext, Classical.choice, Quot.sound only), the translator of the keyword/dispatch tables, "
                "the hand-written lexer model (validated differentially, not verified against the Rust code), rustc. Char-boundary "
                "and totality theorems are still open (stated in Props/C13.lean as TODO).",
        "technique": "Lean 4 proof over executable model + differential correspondence",
    },
}
