import sys, os
d = sys.argv[1]
exp = open(os.path.join(d, "cases.exp"), encoding="utf-8").read().split("\n")
got = open(os.path.join(d, "cases.out"), encoding="utf-8").read().split("\n")
meta = open(os.path.join(d, "cases.meta"), encoding="utf-8").read().split("\n")
inp = open(os.path.join(d, "cases.in"), encoding="utf-8").read().split("\n")
n = min(len(exp), len(got))
bad = []
tr0 = 0
for i in range(n):
    if not exp[i]:
        continue
    g = "\t".join(x for x in got[i].split("\t") if not x.startswith("info_"))
    if "info_tr=0" in got[i]:
        tr0 += 1
    if g != exp[i]:
        bad.append(i)
print("records=%d mismatches=%d trace_replay_disagrees=%d (answer lines: %d)" % (sum(1 for e in exp if e), len(bad), tr0, sum(1 for g in got if g)))
def text(i):
    parts = meta[i].split("\t")
    try:
        return bytes.fromhex(parts[2] if parts[2] != "-" else "").decode("utf-8", "replace")
    except Exception:
        return "?"
bad.sort(key=lambda i: len(inp[i]))
for i in bad[:int(os.environ.get("SHOW", "4"))]:
    print("=" * 100)
    print("case %d family=%s input:\n%s" % (i, meta[i].split("\t")[0], text(i)))
    kinds = inp[i].split("\t")[1].split(" ")
    print("tokens:", " ".join("%d:%s" % (j, k) for j, k in enumerate(kinds)))
    e = dict(x.split("=", 1) for x in exp[i].split("\t"))
    g = dict(x.split("=", 1) for x in got[i].split("\t") if "=" in x) if "=" in got[i] else {"raw": got[i]}
    if "raw" in g:
        print("model answered:", g["raw"])
        continue
    if e.get("pk") != g.get("pk"):
        ek, gk = e["pk"].split(" "), g.get("pk", "").split(" ")
        print("kinds differ at:", [(j, a, b) for j, (a, b) in enumerate(zip(ek, gk)) if a != b][:10])
    if e.get("pl") != g.get("pl"):
        el, gl = e["pl"].split(";"), g.get("pl", "").split(";")
        print("expected lines (type:level:parent:tokens):")
        for j, l in enumerate(el):
            print("   %s %d  %s" % ("  " if j < len(gl) and gl[j] == l else "!!", j, l))
        print("model lines:")
        for j, l in enumerate(gl):
            print("   %s %d  %s" % ("  " if j < len(el) and el[j] == l else "!!", j, l))
