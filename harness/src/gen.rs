//! Input generators.  All randomness comes from `Rng`.
use crate::rng::Rng;

/// What the generator knows about a token of a grammar-generated program (used by C05/C06 oracles).
#[derive(Clone, Copy, Debug, PartialEq, Eq)]
pub enum Mark {
    None,
    /// first token of a statement / declaration that must start its own line at `depth`
    Start(u16),
    /// a block closer (`end`, `until`, `except`, `finally`) that must be first on its line at `depth`
    Closer(u16),
    /// `begin` of a control-flow body (own line at `depth` only under begin_style=always_wrap)
    BodyBegin(u16),
}

#[derive(Clone, Debug)]
pub struct GTok {
    pub text: String,
    pub mark: Mark,
}

#[derive(Clone, Debug, Default)]
pub struct Program {
    pub toks: Vec<GTok>,
}

pub struct Grammar<'r> {
    pub rng: &'r mut Rng,
    pub out: Vec<GTok>,
    pub budget: i32,
    pub allow_mls: bool,
    pub allow_asm: bool,
    pub allow_anon: bool,
    pub allow_generics: bool,
    /// the routine being generated declares labels `Done`, `Retry`
    pub labels: bool,
}

const IDENTS: &[&str] = &[
    "a", "b", "x", "y", "i", "Foo", "Bar", "Baz", "Value", "Index", "Count", "Item", "Self", "Result", "LList",
    "TFoo", "TBar", "AName", "FItems", "SomeVeryLongIdentifierName", "AnotherQuiteLongIdentifier", "héllo",
    "Größe", "данные", "名前", "Flarp", "Qux", "Read", "Write", "Name", "Index", "Default", "Message", "Out",
];
const TYPES: &[&str] = &["Integer", "string", "TFoo", "Boolean", "Double", "TObject", "Byte", "Char", "Pointer", "TBar"];
const BINOPS: &[&str] = &["+", "-", "*", "/", "div", "mod", "and", "or", "xor", "shl", "shr", "=", "<>", "<", ">", "<=", ">=", "in", "is", "as"];
const INTS: &[&str] = &["0", "1", "42", "1000000", "$FF", "$0A1b", "%1010", "1_000", "3.14", "1e10", "2.5E-3", "1.0e+5"];
const STRS: &[&str] = &["''", "'a'", "'hello world'", "'it''s'", "#13#10", "'a'#9'b'", "#$0D", "'x'#13", "'üñí'", "'日本'"];

impl<'r> Grammar<'r> {
    pub fn new(rng: &'r mut Rng, budget: i32) -> Self {
        Grammar { rng, out: vec![], budget, allow_mls: true, allow_asm: true, allow_anon: true, allow_generics: true, labels: false }
    }
    fn t(&mut self, s: &str) {
        self.out.push(GTok { text: s.to_string(), mark: Mark::None });
        self.budget -= 1;
    }
    fn tm(&mut self, s: &str, m: Mark) {
        self.out.push(GTok { text: s.to_string(), mark: m });
        self.budget -= 1;
    }
    fn ident(&mut self) -> String {
        self.rng.pick(IDENTS).to_string()
    }
    fn kw(&mut self, s: &str) -> String {
        // random letter case for keywords
        match self.rng.below(6) {
            0 => s.to_uppercase(),
            1 => {
                let mut c = s.chars();
                match c.next() {
                    Some(f) => f.to_uppercase().collect::<String>() + c.as_str(),
                    None => String::new(),
                }
            }
            _ => s.to_string(),
        }
    }
    fn k(&mut self, s: &str) {
        let w = self.kw(s);
        self.t(&w);
    }
    fn km(&mut self, s: &str, m: Mark) {
        let w = self.kw(s);
        self.tm(&w, m);
    }

    fn mls(&mut self, indent: usize) -> String {
        let q = if self.rng.chance(1, 6) { "'''''" } else { "'''" };
        let ind = " ".repeat(indent);
        let n = self.rng.range(1, 3);
        let mut s = String::new();
        s.push_str(q);
        s.push('\n');
        for i in 0..n {
            match self.rng.below(5) {
                0 => s.push('\n'),
                1 => {
                    s.push_str(&ind);
                    s.push_str("  indented 'quoted' text  ");
                    s.push('\n');
                }
                _ => {
                    s.push_str(&ind);
                    s.push_str(&format!("line {i}"));
                    s.push('\n');
                }
            }
        }
        s.push_str(&ind);
        s.push_str(q);
        s
    }

    pub fn primary(&mut self, depth: u16, lvl: u32) {
        let c = if self.budget <= 0 || lvl > 4 { self.rng.below(3) } else { self.rng.below(16) };
        match c {
            0 => {
                let i = self.ident();
                self.t(&i)
            }
            1 => {
                let s = self.rng.pick(INTS).to_string();
                self.t(&s)
            }
            2 => {
                let s = self.rng.pick(STRS).to_string();
                self.t(&s)
            }
            3 => {
                // call
                let i = self.ident();
                self.t(&i);
                self.t("(");
                let n = self.rng.below(4);
                for j in 0..n {
                    if j > 0 {
                        self.t(",");
                    }
                    self.expr(depth, lvl + 1);
                }
                self.t(")");
            }
            4 => {
                let i = self.ident();
                self.t(&i);
                self.t(".");
                let j = self.ident();
                self.t(&j);
            }
            5 => {
                let i = self.ident();
                self.t(&i);
                self.t("[");
                self.expr(depth, lvl + 1);
                self.t("]");
            }
            6 => {
                self.t("(");
                self.expr(depth, lvl + 1);
                self.t(")");
            }
            7 => {
                self.k("not");
                self.primary(depth, lvl + 1);
            }
            8 => {
                self.t("-");
                self.primary(depth, lvl + 1);
            }
            9 => {
                self.t("@");
                let i = self.ident();
                self.t(&i);
            }
            10 => {
                let i = self.ident();
                self.t(&i);
                self.t("^");
            }
            11 => {
                // set constructor
                self.t("[");
                let n = self.rng.below(3);
                for j in 0..n {
                    if j > 0 {
                        self.t(",");
                    }
                    self.primary(depth, lvl + 2);
                    if self.rng.chance(1, 4) {
                        self.t("..");
                        self.primary(depth, lvl + 2);
                    }
                }
                self.t("]");
            }
            12 if self.allow_generics => {
                let i = self.ident();
                self.t(&i);
                self.t("<");
                let ty = self.rng.pick(TYPES).to_string();
                self.t(&ty);
                let extra = *self.rng.pick(&[0usize, 0, 1, 1, 2]);
                for _ in 0..extra {
                    self.t(",");
                    if self.rng.chance(1, 5) {
                        // nested type arguments: TPair<A, B>
                        self.t("TPair");
                        self.t("<");
                        let ty = self.rng.pick(TYPES).to_string();
                        self.t(&ty);
                        self.t(",");
                        let ty = self.rng.pick(TYPES).to_string();
                        self.t(&ty);
                        self.t(">");
                    } else {
                        let ty = self.rng.pick(TYPES).to_string();
                        self.t(&ty);
                    }
                }
                self.t(">");
                match self.rng.below(4) {
                    0 | 1 => {
                        self.t(".");
                        self.t("Create");
                        if self.rng.chance(1, 2) {
                            self.t("(");
                            self.t(")");
                        }
                    }
                    2 => {
                        // generic routine call: Convert<A, B>(Value)
                        self.t("(");
                        self.primary(depth, lvl + 2);
                        if self.rng.chance(1, 3) {
                            self.t(",");
                            self.primary(depth, lvl + 2);
                        }
                        self.t(")");
                    }
                    _ => {
                        self.t("(");
                        self.t(")");
                    }
                }
            }
            13 if self.allow_mls && lvl == 0 => {
                let s = self.mls((depth as usize + 1) * 2);
                self.t(&s);
            }
            14 if self.allow_anon && lvl <= 1 && self.budget > 8 => {
                // anonymous routine
                if self.rng.chance(1, 2) {
                    self.k("procedure");
                } else {
                    self.k("function");
                    self.t("(");
                    let i = self.ident();
                    self.t(&i);
                    self.t(":");
                    let ty = self.rng.pick(TYPES).to_string();
                    self.t(&ty);
                    self.t(")");
                    self.t(":");
                    let ty = self.rng.pick(TYPES).to_string();
                    self.t(&ty);
                }
                // optional local declaration section / nested routine of the anonymous routine
                match self.rng.below(6) {
                    0 => {
                        self.k("var");
                        let i = self.ident();
                        self.t(&i);
                        self.t(":");
                        let ty = self.rng.pick(TYPES).to_string();
                        self.t(&ty);
                        self.t(";");
                    }
                    1 => {
                        self.k("const");
                        let i = self.ident();
                        self.t(&i);
                        self.t("=");
                        self.t("1");
                        self.t(";");
                    }
                    2 => {
                        self.k("procedure");
                        self.t("Nested");
                        self.t(";");
                        self.k("begin");
                        self.k("end");
                        self.t(";");
                    }
                    _ => {}
                }
                self.k("begin");
                let n = self.rng.below(3);
                for _ in 0..n {
                    if self.budget > 12 && self.rng.chance(1, 3) {
                        // a structured statement (case, if/else, repeat, try, for, with ...) inside the body of an anonymous
                        // routine that is an argument of a call: the parser is inside parentheses here.  The marks of its
                        // tokens are dropped (the structure oracle reads marks of statement lists only); the parser, wrapper
                        // and whole-formatter correspondences see the construct.
                        let from = self.out.len();
                        self.budget -= 6;
                        self.stmt(depth + 1);
                        for t in &mut self.out[from..] {
                            t.mark = Mark::None;
                        }
                    } else {
                        self.simple_stmt_unmarked(depth + 1);
                    }
                    self.t(";");
                }
                self.k("end");
            }
            15 => self.k("nil"),
            _ => {
                let i = self.ident();
                self.t(&i)
            }
        }
    }

    /// postfix chain after a designator: `F(x)(y)`, `A[i][j]`, `G(x)[i]`, `P^.f`, `A[i]^`
    fn postfix_chain(&mut self, depth: u16, lvl: u32) {
        let n = self.rng.range(1, 3);
        for _ in 0..n {
            match self.rng.below(5) {
                0 => {
                    self.t("(");
                    if self.rng.chance(2, 3) {
                        self.expr(depth, lvl + 2);
                    }
                    self.t(")");
                }
                1 => {
                    self.t("[");
                    self.expr(depth, lvl + 2);
                    self.t("]");
                }
                2 => {
                    self.t(".");
                    let j = self.ident();
                    self.t(&j);
                }
                3 => self.t("^"),
                _ => {
                    self.t("[");
                    self.primary(depth, lvl + 3);
                    self.t(",");
                    self.primary(depth, lvl + 3);
                    self.t("]");
                }
            }
        }
    }

    pub fn expr(&mut self, depth: u16, lvl: u32) {
        let before = self.out.len();
        self.primary(depth, lvl);
        // a designator (call, index, parenthesised expression, dereference, plain name) may continue with postfix parts
        let last_ok = self.out.len() > before
            && matches!(self.out[self.out.len() - 1].text.as_str(), ")" | "]" | "^")
            && !matches!(self.out[before].text.as_str(), "[" | "-" | "@")
            && !self.out[before].text.eq_ignore_ascii_case("not");
        if last_ok && self.budget > 0 && lvl <= 3 && self.rng.chance(1, 4) {
            self.postfix_chain(depth, lvl);
        }
        let n = if self.budget <= 0 { 0 } else { self.rng.below(4) };
        for _ in 0..n {
            if self.rng.chance(2, 3) {
                let op = self.rng.pick(BINOPS).to_string();
                if op.chars().next().unwrap().is_alphabetic() {
                    self.k(&op)
                } else {
                    self.t(&op)
                }
                self.primary(depth, lvl + 1);
            }
        }
    }

    fn simple_stmt_unmarked(&mut self, depth: u16) {
        let i = self.ident();
        self.t(&i);
        if self.rng.chance(1, 2) {
            self.t(":=");
            self.expr(depth, 1);
        } else {
            self.t("(");
            self.expr(depth, 2);
            self.t(")");
        }
    }

    /// a statement whose first token is marked Start(depth); no trailing semicolon
    pub fn stmt(&mut self, depth: u16) {
        let c = if self.budget <= 0 { self.rng.below(3) } else { self.rng.below(20) };
        let m = Mark::Start(depth);
        match c {
            0 | 1 | 14 | 15 => {
                let i = self.ident();
                self.tm(&i, m);
                if self.rng.chance(1, 3) {
                    self.t(".");
                    let j = self.ident();
                    self.t(&j);
                }
                self.t(":=");
                self.expr(depth, 0);
            }
            2 | 16 if self.rng.chance(1, 5) => {
                // Write/Str with width and precision specifiers
                let f = self.rng.pick_str(&["Write", "WriteLn", "Str"]).to_string();
                self.tm(&f, m);
                self.t("(");
                let i = self.ident();
                self.t(&i);
                self.t(":");
                self.t("8");
                if self.rng.chance(1, 2) {
                    self.t(":");
                    self.t("2");
                }
                if f == "Str" || self.rng.chance(1, 3) {
                    self.t(",");
                    let j = self.ident();
                    self.t(&j);
                }
                self.t(")");
            }
            2 | 16 => {
                let i = self.ident();
                self.tm(&i, m);
                if self.rng.chance(2, 3) {
                    self.t("(");
                    let n = self.rng.below(4);
                    for j in 0..n {
                        if j > 0 {
                            self.t(",");
                        }
                        self.expr(depth, 1);
                    }
                    self.t(")");
                }
            }
            3 | 4 => {
                self.km("if", m);
                self.expr(depth, 1);
                self.k("then");
                self.body(depth);
                if self.rng.chance(1, 3) {
                    self.km("else", Mark::None);
                    self.body(depth);
                }
            }
            5 => {
                self.km("while", m);
                self.expr(depth, 1);
                self.k("do");
                self.body(depth);
            }
            6 => {
                self.km("for", m);
                let i = self.ident();
                self.t(&i);
                if self.rng.chance(1, 2) {
                    self.t(":=");
                    self.expr(depth, 2);
                    if self.rng.chance(1, 2) {
                        self.k("to")
                    } else {
                        self.k("downto")
                    }
                    self.expr(depth, 2);
                } else {
                    self.k("in");
                    self.expr(depth, 2);
                }
                self.k("do");
                self.body(depth);
            }
            7 => {
                self.km("repeat", m);
                self.stmt_list(depth + 1);
                self.km("until", Mark::Closer(depth));
                self.expr(depth, 1);
            }
            8 => {
                self.km("case", m);
                self.expr(depth, 2);
                self.k("of");
                let n = self.rng.range(1, 3);
                for j in 0..n {
                    // labels of varied width: numbers, enumeration names, ranges, lists
                    match self.rng.below(6) {
                        0 => {
                            let lbl = self.rng.pick_str(&["eOne", "tkIdentifier", "SomeVeryLongIdentifierName", "TFoo.Value"]).to_string();
                            let mut parts = lbl.split('.');
                            let first = parts.next().unwrap().to_string();
                            self.tm(&first, Mark::Start(depth + 1));
                            for p in parts {
                                self.t(".");
                                self.t(p);
                            }
                        }
                        1 => {
                            self.tm("'a'", Mark::Start(depth + 1));
                            self.t("..");
                            self.t("'z'");
                        }
                        _ => {
                            let lbl = format!("{}", j);
                            self.tm(&lbl, Mark::Start(depth + 1));
                        }
                    }
                    if self.rng.chance(1, 3) {
                        self.t(",");
                        self.t("9");
                    }
                    self.t(":");
                    if !self.rng.chance(1, 4) {
                        // (one arm in four has the empty statement as its body)
                        self.case_body(depth + 1);
                    }
                    self.t(";");
                }
                if self.rng.chance(1, 2) {
                    self.km("else", Mark::Closer(depth));
                    self.stmt_list(depth + 1);
                }
                self.km("end", Mark::Closer(depth));
            }
            9 => {
                self.km("try", m);
                self.stmt_list(depth + 1);
                if self.rng.chance(1, 2) {
                    self.km("finally", Mark::Closer(depth));
                    self.stmt_list(depth + 1);
                } else {
                    self.km("except", Mark::Closer(depth));
                    if self.rng.chance(1, 2) {
                        let handlers = self.rng.range(1, 2);
                        for h in 0..handlers {
                            self.km("on", Mark::Start(depth + 1));
                            if h == 0 || self.rng.chance(1, 2) {
                                self.t("E");
                                self.t(":");
                            }
                            self.t(if h == 0 { "Exception" } else { "EAbort" });
                            self.k("do");
                            self.body(depth + 1);
                            self.t(";");
                        }
                        if self.rng.chance(1, 3) {
                            // the `else` part of an exception block is a statement list of its own
                            self.km("else", Mark::Closer(depth));
                            self.stmt_list(depth + 1);
                        }
                    } else {
                        self.stmt_list(depth + 1);
                    }
                }
                self.km("end", Mark::Closer(depth));
            }
            10 => {
                self.km("begin", m);
                self.stmt_list(depth + 1);
                self.km("end", Mark::Closer(depth));
            }
            11 => {
                self.km("with", m);
                self.expr(depth, 2);
                self.k("do");
                self.body(depth);
            }
            12 => {
                self.km("raise", m);
                match self.rng.below(4) {
                    0 => {} // bare re-raise
                    1 => {
                        let i = self.ident();
                        self.t(&i);
                    }
                    2 => {
                        let i = self.ident();
                        self.t(&i);
                        self.k("at");
                        let j = self.ident();
                        self.t(&j);
                    }
                    _ => {
                        self.t("Exception");
                        self.t(".");
                        self.t("Create");
                        self.t("(");
                        self.t("'boom'");
                        self.t(")");
                    }
                }
            }
            13 => {
                self.km("inherited", m);
                if self.rng.chance(1, 2) {
                    let i = self.ident();
                    self.t(&i);
                }
            }
            17 if depth > 0 => {
                // inline variable declarations are statements only inside a begin..end block
                self.km("var", m);
                let i = self.ident();
                self.t(&i);
                self.t(":");
                let ty = self.rng.pick(TYPES).to_string();
                self.t(&ty);
                if self.rng.chance(1, 2) {
                    self.t(":=");
                    self.expr(depth, 1);
                }
            }
            18 if self.labels && self.rng.chance(1, 2) => {
                self.km("goto", m);
                let l = self.rng.pick_str(&["Done", "Retry"]).to_string();
                self.t(&l);
            }
            18 => {
                self.km("Exit", m);
                if self.rng.chance(1, 2) {
                    self.t("(");
                    self.expr(depth, 2);
                    self.t(")");
                }
            }
            _ => {
                let i = self.ident();
                self.tm(&i, m);
                self.t(":=");
                self.expr(depth, 0);
            }
        }
    }

    /// body of then/do/else: either a single statement (child line, not marked) or begin..end block
    fn body(&mut self, depth: u16) {
        if self.rng.chance(1, 2) || self.budget <= 0 {
            // single statement: rendered one level deeper, but we do not mark it as Start because
            // short bodies may legitimately stay on the controlling line's continuation
            let i = self.ident();
            self.tm(&i, Mark::None);
            self.t(":=");
            self.expr(depth + 1, 1);
        } else {
            self.km("begin", Mark::BodyBegin(depth));
            self.stmt_list(depth + 1);
            self.km("end", Mark::Closer(depth));
        }
    }

    fn case_body(&mut self, depth: u16) {
        if self.rng.chance(2, 3) || self.budget <= 0 {
            let i = self.ident();
            self.t(&i);
            self.t(":=");
            self.expr(depth + 1, 1);
        } else {
            self.km("begin", Mark::BodyBegin(depth));
            self.stmt_list(depth + 1);
            self.km("end", Mark::Closer(depth));
        }
    }

    pub fn stmt_list(&mut self, depth: u16) {
        let n = if self.budget <= 0 { self.rng.below(2) } else { self.rng.range(0, 4) };
        for _ in 0..n {
            if self.labels && self.rng.chance(1, 4) {
                // a label is a line of its own at the statement's level
                let l = self.rng.pick_str(&["Done", "Retry"]).to_string();
                self.tm(&l, Mark::Start(depth));
                self.t(":");
            }
            self.stmt(depth);
            self.t(";");
        }
        // the last statement of a list may go without its `;` (a simple statement, so that a following `else` of an
        // enclosing construct cannot attach to it): `... raise end`, `... Foo until Done`
        if self.rng.chance(1, 7) {
            match self.rng.below(4) {
                0 => self.km("raise", Mark::Start(depth)),
                1 => {
                    self.km("inherited", Mark::Start(depth));
                }
                2 => {
                    let i = self.ident();
                    self.tm(&i, Mark::Start(depth));
                    self.t(":=");
                    self.primary(depth, 2);
                }
                _ => {
                    let i = self.ident();
                    self.tm(&i, Mark::Start(depth));
                    self.t("(");
                    self.t(")");
                }
            }
        }
    }

    fn param_list(&mut self) {
        self.t("(");
        let n = self.rng.below(3);
        for j in 0..n {
            if j > 0 {
                self.t(";");
            }
            match self.rng.below(4) {
                0 => self.k("const"),
                1 => self.k("var"),
                2 => self.k("out"),
                _ => {}
            }
            let i = self.ident();
            self.t(&i);
            self.t(":");
            let ty = self.rng.pick(TYPES).to_string();
            self.t(&ty);
        }
        self.t(")");
    }

    fn routine_header(&mut self, depth: u16, qualified: bool) -> bool {
        let is_fn = self.rng.chance(1, 2);
        if is_fn {
            self.km("function", Mark::Start(depth))
        } else {
            self.km("procedure", Mark::Start(depth))
        }
        if qualified {
            self.t("TFoo");
            self.t(".");
        }
        let i = self.ident();
        self.t(&i);
        if self.rng.chance(2, 3) {
            self.param_list();
        }
        if is_fn {
            self.t(":");
            let ty = self.rng.pick(TYPES).to_string();
            self.t(&ty);
        }
        self.t(";");
        is_fn
    }

    fn var_section(&mut self, depth: u16, kw: &str) {
        self.km(kw, Mark::Start(depth));
        let n = self.rng.range(1, 3);
        for _ in 0..n {
            let i = self.ident();
            self.tm(&i, Mark::Start(depth + 1));
            if kw == "const" && self.rng.chance(1, 5) {
                // typed record constant
                self.t(":");
                self.t("TPoint");
                self.t("=");
                self.t("(");
                self.t("X");
                self.t(":");
                self.t("0");
                self.t(";");
                self.t("Y");
                self.t(":");
                self.t("10");
                self.t(")");
            } else if kw == "const" {
                if self.rng.chance(1, 2) {
                    self.t(":");
                    let ty = self.rng.pick(TYPES).to_string();
                    self.t(&ty);
                }
                self.t("=");
                self.expr(depth + 1, 2);
            } else {
                self.t(":");
                self.inline_type();
                // `absolute` clause on some variables (chosen from the name, so that no random draw is added)
                if kw == "var" && i.len() % 4 == 1 {
                    self.t("absolute");
                    self.t("Value");
                }
            }
            if self.rng.chance(1, 5) {
                // portability directive on the declaration
                match self.rng.below(5) {
                    0 => self.k("experimental"),
                    1 => self.k("platform"),
                    2 => self.k("library"),
                    3 => {
                        self.k("deprecated");
                        self.t("'use another'");
                    }
                    _ => self.k("deprecated"),
                }
            }
            self.t(";");
        }
    }

    /// the type of a variable or field: mostly a type name, sometimes a type written in place
    fn inline_type(&mut self) {
        match self.rng.below(12) {
            0 => {
                self.k("class");
                self.k("of");
                self.t("TObject");
            }
            1 => {
                self.k("array");
                self.k("of");
                let ty = self.rng.pick(TYPES).to_string();
                self.t(&ty);
            }
            2 => {
                self.k("set");
                self.k("of");
                self.t("Byte");
            }
            3 => {
                self.t("^");
                self.t("TFoo");
            }
            _ => {
                let ty = self.rng.pick(TYPES).to_string();
                self.t(&ty);
            }
        }
    }

    fn type_section(&mut self, depth: u16) {
        self.km("type", Mark::Start(depth));
        let n = self.rng.range(1, 2);
        for _ in 0..n {
            let name = format!("T{}", self.ident());
            self.tm(&name, Mark::Start(depth + 1));
            self.t("=");
            match self.rng.below(6) {
                4 | 5 => self.simple_type_def(),
                0 => {
                    self.k("class");
                    if self.rng.chance(1, 2) {
                        self.t("(");
                        self.t("TObject");
                        self.t(")");
                    }
                    let vis = ["private", "protected", "public", "published"];
                    let nv = self.rng.below(3);
                    for _ in 0..nv {
                        let v = self.rng.pick(&vis).to_string();
                        self.km(&v, Mark::Closer(depth + 1));
                        let nm = self.rng.range(1, 3);
                        for _ in 0..nm {
                            let member_kind = self.rng.below(8);
                            // an attribute in front of a member (a line of its own at the member's level; not marked: it
                            // belongs to the member, a conditional wrapper must not separate the two)
                            if member_kind != 7 && self.rng.chance(1, 6) {
                                self.t("[");
                                let an = self.rng.pick_str(&["Weak", "Volatile", "Attr", "TestAttribute"]);
                                self.t(an);
                                if self.rng.chance(1, 3) {
                                    self.t("(");
                                    let av = self.rng.pick_str(&["1", "'x'", "True"]);
                                    self.t(av);
                                    self.t(")");
                                }
                                if self.rng.chance(1, 5) {
                                    self.t(",");
                                    self.t("Second");
                                }
                                self.t("]");
                            }
                            match member_kind {
                                7 => {
                                    // nested declaration section; it lasts until the next member that starts with a keyword
                                    let kind = self.rng.below(4);
                                    match kind {
                                        0 => self.km("const", Mark::Start(depth + 2)),
                                        1 => self.km("var", Mark::Start(depth + 2)),
                                        2 => self.km("type", Mark::Start(depth + 2)),
                                        _ => {
                                            self.km("class", Mark::Start(depth + 2));
                                            self.k("var");
                                        }
                                    }
                                    let n = self.rng.range(1, 2);
                                    for _ in 0..n {
                                        let i = format!("{}{}", if kind == 2 { "T" } else { "C" }, self.ident());
                                        self.tm(&i, Mark::Start(depth + 3));
                                        match kind {
                                            0 => {
                                                self.t("=");
                                                self.t("5");
                                            }
                                            2 => {
                                                self.t("=");
                                                self.t("Integer");
                                            }
                                            _ => {
                                                self.t(":");
                                                let ty = self.rng.pick(TYPES).to_string();
                                                self.t(&ty);
                                            }
                                        }
                                        self.t(";");
                                    }
                                    match self.rng.below(3) {
                                        0 => {
                                            self.km("property", Mark::Start(depth + 2));
                                            let i = self.ident();
                                            self.t(&i);
                                            self.t(":");
                                            self.t("Integer");
                                            self.k("read");
                                            self.t("FValue");
                                            self.t(";");
                                        }
                                        1 => {
                                            self.routine_header(depth + 2, false);
                                        }
                                        _ => {
                                            self.km("constructor", Mark::Start(depth + 2));
                                            self.t("Create");
                                            self.t(";");
                                        }
                                    }
                                }
                                3 => {
                                    // class method
                                    self.km("class", Mark::Start(depth + 2));
                                    if self.rng.chance(1, 2) {
                                        self.k("function");
                                        let i = self.ident();
                                        self.t(&i);
                                        self.t(":");
                                        let ty = self.rng.pick(TYPES).to_string();
                                        self.t(&ty);
                                    } else {
                                        self.k("procedure");
                                        let i = self.ident();
                                        self.t(&i);
                                        self.param_list();
                                    }
                                    self.t(";");
                                    if self.rng.chance(1, 2) {
                                        self.k("static");
                                        self.t(";");
                                    }
                                }
                                4 => {
                                    if self.rng.chance(1, 2) {
                                        self.km("constructor", Mark::Start(depth + 2));
                                        self.t("Create");
                                        self.param_list();
                                        self.t(";");
                                        if self.rng.chance(1, 2) {
                                            self.k("overload");
                                            self.t(";");
                                        }
                                    } else {
                                        self.km("destructor", Mark::Start(depth + 2));
                                        self.t("Destroy");
                                        self.t(";");
                                        self.k("override");
                                        self.t(";");
                                    }
                                }
                                5 => {
                                    // array property, possibly the default one
                                    self.km("property", Mark::Start(depth + 2));
                                    self.t("Items");
                                    self.t("[");
                                    self.t("Index");
                                    self.t(":");
                                    self.t("Integer");
                                    self.t("]");
                                    self.t(":");
                                    let ty = self.rng.pick(TYPES).to_string();
                                    self.t(&ty);
                                    self.k("read");
                                    self.t("GetItem");
                                    self.k("write");
                                    self.t("SetItem");
                                    self.t(";");
                                    if self.rng.chance(1, 2) {
                                        self.k("default");
                                        self.t(";");
                                    }
                                }
                                6 => {
                                    // property with index / stored / default specifiers
                                    self.km("property", Mark::Start(depth + 2));
                                    let i = self.ident();
                                    self.t(&i);
                                    self.t(":");
                                    self.t("Integer");
                                    if self.rng.chance(1, 2) {
                                        self.k("index");
                                        self.t("1");
                                    }
                                    self.k("read");
                                    self.t("GetValue");
                                    self.k("write");
                                    self.t("SetValue");
                                    if self.rng.chance(1, 2) {
                                        self.k("stored");
                                        self.t("False");
                                    }
                                    if self.rng.chance(1, 2) {
                                        self.k("default");
                                        self.t("0");
                                    }
                                    self.t(";");
                                }
                                0 => {
                                    let i = format!("F{}", self.ident());
                                    self.tm(&i, Mark::Start(depth + 2));
                                    self.t(":");
                                    let ty = self.rng.pick(TYPES).to_string();
                                    self.t(&ty);
                                    self.t(";");
                                }
                                1 => {
                                    self.routine_header(depth + 2, false);
                                    if self.rng.chance(1, 3) {
                                        self.k("virtual");
                                        self.t(";");
                                    }
                                }
                                _ => {
                                    self.km("property", Mark::Start(depth + 2));
                                    let i = self.ident();
                                    self.t(&i);
                                    self.t(":");
                                    let ty = self.rng.pick(TYPES).to_string();
                                    self.t(&ty);
                                    self.k("read");
                                    self.t("FValue");
                                    if self.rng.chance(1, 2) {
                                        self.k("write");
                                        self.t("FValue");
                                    }
                                    self.t(";");
                                }
                            }
                        }
                    }
                    self.km("end", Mark::Closer(depth + 1));
                }
                1 => {
                    self.k("record");
                    let nm = self.rng.range(1, 3);
                    for _ in 0..nm {
                        let i = self.ident();
                        self.tm(&i, Mark::Start(depth + 2));
                        self.t(":");
                        self.inline_type();
                        self.t(";");
                    }
                    if self.rng.chance(1, 3) {
                        // variant part: `case` stands at the level of the record's line, the arms one deeper
                        self.km("case", Mark::Closer(depth + 1));
                        if self.rng.chance(1, 2) {
                            self.t("Tag");
                            self.t(":");
                        }
                        self.t("Boolean");
                        self.k("of");
                        for (label, nf) in [("True", self.rng.range(1, 3)), ("False", self.rng.range(0, 2))] {
                            self.tm(label, Mark::Start(depth + 2));
                            self.t(":");
                            self.t("(");
                            for f in 0..nf {
                                if f > 0 {
                                    self.t(";");
                                }
                                let i = format!("V{}{}", label.chars().next().unwrap(), f);
                                self.t(&i);
                                self.t(":");
                                let ty = self.rng.pick(TYPES).to_string();
                                self.t(&ty);
                            }
                            self.t(")");
                            self.t(";");
                        }
                    }
                    self.km("end", Mark::Closer(depth + 1));
                }
                2 => {
                    self.t("(");
                    self.t("eOne");
                    self.t(",");
                    self.t("eTwo");
                    self.t(")");
                }
                _ => {
                    self.k("array");
                    self.t("[");
                    self.t("0");
                    self.t("..");
                    self.t("9");
                    self.t("]");
                    self.k("of");
                    let ty = self.rng.pick(TYPES).to_string();
                    self.t(&ty);
                }
            }
            self.t(";");
        }
    }

    /// one-line type definitions of the rarer kinds
    fn simple_type_def(&mut self) {
        match self.rng.below(8) {
            0 => {
                self.k("set");
                self.k("of");
                self.t("TEnum");
            }
            1 => {
                self.t("^");
                self.t("TFoo");
            }
            2 => {
                self.k("procedure");
                self.t("(");
                self.t("Sender");
                self.t(":");
                self.t("TObject");
                self.t(")");
                self.k("of");
                self.k("object");
            }
            3 => {
                self.k("reference");
                self.k("to");
                self.k("function");
                self.t("(");
                self.t("x");
                self.t(":");
                self.t("Integer");
                self.t(")");
                self.t(":");
                self.t("Integer");
            }
            4 => {
                self.k("class");
                self.k("of");
                self.t("TFoo");
            }
            5 => {
                self.t("(");
                self.t("eA");
                self.t("=");
                self.t("1");
                self.t(",");
                self.t("eB");
                self.t("=");
                self.t("2");
                self.t(")");
            }
            6 => {
                self.t("1");
                self.t("..");
                self.t("10");
            }
            _ => {
                self.k("array");
                self.k("of");
                self.k("array");
                self.k("of");
                self.t("Integer");
            }
        }
    }

    /// a routine declaration without a body: forward declaration or import
    fn routine_no_body(&mut self, depth: u16) {
        let is_fn = self.routine_header(depth, false);
        let _ = is_fn;
        match self.rng.below(6) {
            0 => {
                self.k("forward");
                self.t(";");
            }
            1 => {
                self.k("stdcall");
                self.t(";");
                self.k("external");
                self.t("'kernel32.dll'");
                self.k("name");
                self.t("'GetTickCount'");
                self.t(";");
            }
            2 => {
                self.k("external");
                self.t("'lib.dll'");
                self.k("index");
                self.t("5");
                self.t(";");
            }
            3 => {
                self.k("cdecl");
                self.t(";");
                self.k("external");
                self.t("'lib.so'");
                self.k("name");
                self.t("'x'");
                self.k("delayed");
                self.t(";");
            }
            4 => {
                self.k("external");
                self.t(";");
            }
            _ => {
                self.k("overload");
                self.t(";");
                self.k("external");
                self.t("'lib.dll'");
                self.t(";");
            }
        }
    }

    fn routine_impl(&mut self, depth: u16) {
        if depth == 0 && self.rng.chance(1, 8) {
            self.routine_no_body(depth);
            return;
        }
        let q = self.rng.chance(1, 2);
        self.routine_header(depth, q);
        if self.rng.chance(1, 3) {
            self.var_section(depth, "var");
        }
        if self.rng.chance(1, 6) {
            self.var_section(depth, "const");
        }
        let outer_labels = self.labels;
        self.labels = self.rng.chance(1, 3);
        if self.labels {
            self.km("label", Mark::Start(depth));
            self.tm("Done", Mark::Start(depth + 1));
            self.t(",");
            self.t("Retry");
            self.t(";");
        }
        if self.allow_asm && self.rng.chance(1, 12) {
            self.km("asm", Mark::Start(depth));
            let n = self.rng.range(1, 4);
            for _ in 0..n {
                match self.rng.below(8) {
                    5 | 6 | 7 => {
                        // an instruction with an inline conditional directive
                        let (a, b): (&[&str], &[&str]) = match self.rng.below(4) {
                            0 => (&["1"], &["2"]),
                            1 => (&["'W'"], &["'A'"]),
                            2 => (&["[", "eax", "+", "4", "]"], &["[", "ebx", "]"]),
                            _ => (&["ecx"], &["edx"]),
                        };
                        for w in ["mov", "eax", ","] {
                            self.t(w);
                        }
                        self.t("{$IFDEF CPUX64}");
                        for w in a {
                            self.t(w);
                        }
                        self.t("{$ELSE}");
                        for w in b {
                            self.t(w);
                        }
                        self.t("{$ENDIF}");
                        if self.rng.chance(2, 3) {
                            self.t(",");
                            self.t("ebx");
                        }
                    }
                    0 => {
                        self.t("mov");
                        self.t("eax");
                        self.t(",");
                        self.t("1");
                    }
                    1 => {
                        self.t("XOR");
                        self.t("EAX");
                        self.t(",");
                        self.t("EAX");
                        self.t(";");
                    }
                    2 => {
                        self.t("@@loop:");
                        self.t("dec");
                        self.t("ecx");
                    }
                    3 => {
                        self.t("push");
                        self.t("ebx");
                        self.t(";");
                        self.t("pop");
                        self.t("ebx");
                    }
                    _ => {
                        self.t("db");
                        self.t("0FFh");
                        self.t(",");
                        self.t("\"a\\\"b\"");
                    }
                }
                // instructions are separated by line breaks (rendered verbatim by the layouts too)
                self.t("\n");
            }
            self.km("end", Mark::None);
        } else {
            self.km("begin", Mark::Start(depth));
            self.stmt_list(depth + 1);
            self.km("end", Mark::Closer(depth));
        }
        self.labels = outer_labels;
        self.t(";");
    }

    pub fn unit(&mut self) {
        match self.rng.below(4) {
            0 => {
                // bare statement list (like most data tests)
                let n = self.rng.range(1, 4);
                for _ in 0..n {
                    self.stmt(0);
                    self.t(";");
                }
            }
            1 => {
                self.km("program", Mark::Start(0));
                self.t("P");
                self.t(";");
                if self.rng.chance(1, 2) {
                    self.var_section(0, "var");
                }
                let n = self.rng.below(3);
                for _ in 0..n {
                    self.routine_impl(0);
                }
                self.km("begin", Mark::Start(0));
                self.stmt_list(1);
                self.km("end", Mark::Closer(0));
                self.t(".");
            }
            _ => {
                self.km("unit", Mark::Start(0));
                self.t("U");
                self.t(";");
                self.km("interface", Mark::Start(0));
                if self.rng.chance(1, 2) {
                    self.km("uses", Mark::Start(0));
                    self.t("System");
                    self.t(".");
                    self.t("SysUtils");
                    self.t(",");
                    self.t("Classes");
                    self.t(";");
                }
                if self.rng.chance(2, 3) {
                    self.type_section(0);
                }
                if self.rng.chance(1, 3) {
                    self.var_section(0, "const");
                }
                if self.rng.chance(1, 3) {
                    self.var_section(0, "var");
                }
                self.km("implementation", Mark::Start(0));
                let n = self.rng.range(1, 3);
                for _ in 0..n {
                    self.routine_impl(0);
                }
                if self.rng.chance(1, 3) {
                    self.km("initialization", Mark::Start(0));
                    self.stmt_list(1);
                }
                self.km("end", Mark::Start(0));
                self.t(".");
            }
        }
    }
}

pub fn gen_program(rng: &mut Rng, budget: i32) -> Program {
    let mut g = Grammar::new(rng, budget);
    g.unit();
    Program { toks: g.out }
}

/// canonical rendering: one space between tokens (newline after `;`, `begin`, etc. not needed)
pub fn render_plain(p: &Program) -> String {
    let mut s = String::new();
    for (i, t) in p.toks.iter().enumerate() {
        if i > 0 && t.text != "\n" {
            s.push(' ');
        }
        s.push_str(&t.text);
    }
    s.push('\n');
    s
}

#[derive(Clone, Copy, Debug)]
pub struct LayoutOpts {
    pub comments: bool,
    pub directives: bool,
    pub blank_lines: bool,
    pub crlf: bool,
    pub tabs: bool,
    pub tight: bool,
    /// inserted comments are always `// ...` comments at the end of a line (keeps the marked tokens first on their lines)
    pub line_comments_only: bool,
}

fn needs_sep(a: &str, b: &str) -> bool {
    // conservative: two tokens need a blank between them unless one side is pure punctuation that
    // cannot glue with the other side
    let la = a.chars().last().unwrap_or(' ');
    let fb = b.chars().next().unwrap_or(' ');
    let word = |c: char| c.is_alphanumeric() || c == '_' || c == '\'' || c == '#' || c == '$' || c == '%' || c == '&' || !c.is_ascii();
    if word(la) && word(fb) {
        return true;
    }
    // number followed by '.' or '..', e/E etc.
    if la.is_ascii_digit() && fb == '.' {
        return true;
    }
    if la == '.' && (fb == '.' || fb.is_ascii_digit() || fb == ')') {
        return true;
    }
    let glue = [
        (':', '='), ('<', '='), ('<', '>'), ('>', '='), ('/', '/'), ('(', '*'), ('(', '.'), ('*', ')'), ('.', '.'), ('.', ')'),
        ('{', '$'), ('^', '.'), ('@', '@'), ('&', '&'),
    ];
    if glue.contains(&(la, fb)) {
        return true;
    }
    if la == '&' || la == '#' || la == '$' || la == '%' {
        return true;
    }
    false
}

const COMMENTS_INLINE: &[&str] = &["{ c }", "(* c *)", "{}", "(**)", "{ x } { y }"];
const COMMENTS_LINE: &[&str] = &["// c", "//c", "/// doc", "//", "//   spaced   ", "//-----------------", "// trailing  \t", "//!bang", "//  ", "// ", "///\t", "///  x ", "//\u{c}"];
const COMMENTS_MULTI: &[&str] = &["{ a\n  b }", "(* a\n\n b *)"];
const DIRECTIVES: &[&str] = &[
    "{$R+}", "{$define foo}", "{$region 'x'}", "{$i inc.inc}", "(*$hints off*)", "{$WARN SYMBOL_PLATFORM OFF}", "{$I defs.inc}",
    "{$r forms.res}", "{$l\thelper.obj}", "(*$e dll*)", "{$m 16384,1048576}", "{$R *.res}", "{$d 'x'}", "{$r+,q-}", "{$z4}",
    "{$a8}", "{$minenumsize 4}", "{$i  two.inc}", "{$warn symbol_platform off}", "{$h+ on}", "{$x}", "{$r+,qx}", "{$a8b}", "{$z4,ab-}",
    "{$q-,r}", "{$ab+}", "{$m+,x9y}",
];

/// Render a program with arbitrary layout.  Returns the text.
/// Gaps touching a comment always keep their line-break structure explicit (the comment generator
/// decides it), everything else is random horizontal space or line breaks.
pub fn render_layout(p: &Program, rng: &mut Rng, o: LayoutOpts) -> String {
    let nl = if o.crlf { "\r\n" } else { "\n" };
    let mut s = String::new();
    let mut prev: Option<&str> = None;
    let mut open_stack: Vec<(u16, bool, bool)> = vec![];
    for (ti, t) in p.toks.iter().enumerate() {
        // positions at which a `//` comment at the end of the line leaves every statement where it is: after the end of
        // a statement, after a block/branch opener, after the colon of a label (`line_comments_only` mode)
        let safe_comment_pos = ti >= 1 && !matches!(t.mark, Mark::BodyBegin(_)) && {
            let pt = p.toks[ti - 1].text.to_ascii_lowercase();
            matches!(pt.as_str(), "begin" | "then" | "do" | "else" | "of" | "try" | "repeat" | "except" | "finally")
                // after `;` only where a new marked statement/declaration follows (not inside a routine header's directives)
                || (pt == ";" && matches!(t.mark, Mark::Start(_) | Mark::Closer(_)))
                || (pt == ":" && ti >= 2 && matches!(p.toks[ti - 2].mark, Mark::Start(_)))
        };
        // conditional directives wrapping whole statements: opened before a Start(d) token, closed (or
        // switched to an {$else} branch that wraps the next statement) before the next token that ends the
        // statement: a Start(x <= d) or a Closer(x < d)
        if o.directives {
            // a wrapper opened at a visibility keyword (`vis`) wraps whole visibility sections: it ends at the next
            // visibility keyword or at the `end` of the class
            let is_vis_kw = |t: &GTok| matches!(t.mark, Mark::Closer(_)) && matches!(t.text.to_ascii_lowercase().as_str(), "private" | "protected" | "public" | "published");
            let ends = |(d, _, vis): (u16, bool, bool), m: Mark| match m {
                Mark::Start(x) => x <= d,
                Mark::Closer(x) => x < d || (vis && x == d),
                _ => false,
            };
            let mut closed_here = false;
            if let Some(&(d, in_else, vis)) = open_stack.last() {
                if ends((d, in_else, vis), t.mark) {
                    s.push_str(nl);
                    let sibling = if vis { is_vis_kw(t) && matches!(t.mark, Mark::Closer(x) if x == d) } else { matches!(t.mark, Mark::Start(x) if x == d) };
                    // the closing `end.` of the unit is not a sibling declaration: an {$else} branch holding it alone would
                    // leave the other branch without it (not well-formed)
                    let unit_end = t.text.eq_ignore_ascii_case("end") && d == 0;
                    if !in_else && sibling && !unit_end && rng.chance(1, if o.line_comments_only { 2 } else { 3 }) {
                        s.push_str("{$else}");
                        open_stack.last_mut().unwrap().1 = true;
                    } else {
                        s.push_str("{$endif}");
                        open_stack.pop();
                    }
                    s.push_str(nl);
                    prev = None;
                    closed_here = true;
                }
            }
            // close any further enclosing wrappers that also end here
            while let Some(&e) = open_stack.last() {
                if closed_here && ends(e, t.mark) && !s.ends_with(&format!("{{$else}}{}", nl)) {
                    s.push_str("{$endif}");
                    s.push_str(nl);
                    open_stack.pop();
                } else {
                    break;
                }
            }
            let open_at = match t.mark {
                Mark::Start(d) => Some((d, false)),
                Mark::Closer(d) if o.line_comments_only && is_vis_kw(t) => Some((d, true)),
                _ => None,
            };
            if let Some((d, vis)) = open_at {
                // marked programs: only whole statements and members are wrapped (a routine header at depth 0 is not a whole declaration)
                // section keywords of the unit (and its closing `end.`) are not whole declarations: wrapping one would switch
                // a whole section of the file on and off
                let section_kw = matches!(t.text.to_ascii_lowercase().as_str(), "initialization" | "finalization" | "implementation" | "interface") || (t.text.eq_ignore_ascii_case("end") && d == 0);
                let wrap_ok = !section_kw && if o.line_comments_only { d >= 1 && rng.chance(1, 6) } else { rng.chance(1, 12) };
                if open_stack.len() < 2 && !s.ends_with(&format!("{{$else}}{}", nl)) && wrap_ok {
                    if !s.is_empty() && !s.ends_with('\n') {
                        s.push_str(nl);
                    }
                    s.push_str(rng.pick_str(&["{$ifdef FOO}", "{$IFNDEF bar}", "{$if defined(X) and (Y > 1)}", "(*$ifdef A*)", "{$ifopt R+}"]));
                    s.push_str(nl);
                    open_stack.push((d, false, vis));
                    prev = None;
                }
            }
        }
        if let Some(pv) = prev {
            // the gap
            let mut gap = String::new();
            let is_start = matches!(t.mark, Mark::Start(_) | Mark::Closer(_));
            let c = rng.below(100);
            if o.tight && !needs_sep(pv, &t.text) && c < 60 {
                // no whitespace at all
            } else if c < 55 {
                gap.push(' ');
            } else if c < 65 {
                gap.push_str(&" ".repeat(rng.range(2, 7)));
            } else if c < 70 && o.tabs {
                gap.push('\t');
            } else if c < 90 {
                gap.push_str(nl);
                gap.push_str(&" ".repeat(if rng.chance(1, 3) { 0 } else { rng.below(9) }));
            } else if o.blank_lines && is_start {
                gap.push_str(nl);
                gap.push_str(nl);
                if rng.chance(1, 3) {
                    gap.push_str(nl);
                }
                gap.push_str(&" ".repeat(rng.below(5)));
            } else if o.blank_lines && c >= 96 {
                // a blank line in the middle of a statement or declaration (the formatter drops it)
                gap.push_str(nl);
                gap.push_str(nl);
                gap.push_str(&" ".repeat(rng.below(7)));
            } else {
                gap.push(' ');
            }
            if gap.is_empty() && needs_sep(pv, &t.text) {
                gap.push(' ');
            }
            if pv.starts_with("//") && !gap.contains('\n') {
                gap = format!("{}{}", nl, " ".repeat(rng.below(5)));
            }
            s.push_str(&gap);
            if o.comments && (if o.line_comments_only { safe_comment_pos && rng.chance(1, 3) } else { rng.chance(1, 14) }) {
                match if o.line_comments_only { 2 } else { rng.below(6) } {
                    0 | 1 => {
                        s.push_str(rng.pick_str(COMMENTS_INLINE));
                        s.push(' ');
                    }
                    2 | 3 => {
                        s.push_str(rng.pick_str(COMMENTS_LINE));
                        s.push_str(nl);
                    }
                    4 => {
                        s.push_str(rng.pick_str(COMMENTS_MULTI));
                        s.push_str(nl);
                    }
                    _ => {
                        s.push_str(rng.pick_str(DIRECTIVES));
                        s.push(' ');
                    }
                }
            }
        }
        s.push_str(&t.text);
        prev = Some(&t.text);
    }
    while open_stack.pop().is_some() {
        s.push_str(nl);
        s.push_str("{$endif}");
    }
    if rng.chance(3, 4) {
        s.push_str(nl);
    }
    s
}

/// ~100 token alphabet for token soup
pub const SOUP: &[&str] = &[
    "begin", "end", "if", "then", "else", "while", "do", "for", "to", "in", "repeat", "until", "case", "of", "try",
    "finally", "except", "with", "procedure", "function", "var", "const", "type", "class", "record", "interface",
    "implementation", "unit", "uses", "program", "property", "read", "write", "asm", "inherited", "raise", "on",
    "label", "goto", "array", "set", "file", "object", "packed", "private", "public", "strict", "helper", "operator",
    "initialization", "finalization", "exports", "library", "external", "forward", "overload", "absolute", "at",
    "threadvar", "resourcestring", "constructor", "destructor", "not", "and", "or", "div", "nil", "is", "as",
    "a", "Foo", "B", "x1", "_y",
    "1", "2.5", "$F", "'s'", "#9", "'''\n  m\n  '''",
    ";", ":", ":=", ",", ".", "..", "(", ")", "[", "]", "<", ">", "<=", ">=", "<>", "=", "+", "-", "*", "/", "^", "@", "&",
    "{c}", "// l\n", "{$ifdef X}", "{$else}", "{$endif}", "{$R+}", "(*c*)", "{$if A}", "{$elseif B}", "{$ifend}",
    "'unterminated", "{ unterminated", "?", "\"", "// x  ", "//y \t\n",
];

/// spacing-relevant alphabet: one representative per token class that `token_spacing.rs` distinguishes
pub const PAIR_ALPHABET: &[&str] = &[
    "a", "Foo", "begin", "end", "if", "then", "not", "and", "in", "is", "as", "div", "nil", "inherited", "class", "of", "array",
    "procedure", "function", "read", "strict", "private", "1", "2.5", "$F", "'s'", "#9",
    ";", ":", ":=", ",", ".", "..", "(", ")", "[", "]", "<", ">", "<=", ">=", "<>", "=", "+", "-", "*", "/", "^", "@", "&x",
    "{c}", "(*c*)", "{$R+}", "{$ifdef X}", "{$endif}",
];

/// `pairs` family: a short statement-like context around three tokens of the alphabet with every kind of gap, so that each
/// ordered pair of token classes meets each original gap (none, one space, several spaces, tab, line break + indentation)
pub fn token_pairs(rng: &mut Rng) -> String {
    let gaps = ["", " ", "   ", "\t", "\n", "\n      ", "  \n  "];
    let mut s = String::new();
    s.push_str(rng.pick_str(&["", "x := ", "begin\n  x := ", "Foo(", "const C = ", "type T = "]));
    let n = rng.range(2, 5);
    for i in 0..n {
        if i > 0 {
            s.push_str(rng.pick_str(&gaps));
        }
        s.push_str(rng.pick_str(PAIR_ALPHABET));
    }
    s.push_str(rng.pick_str(&["", ";", ";\nend;", " ;\n"]));
    s
}

/// `opgap` family: an operator that starts a line of the input behind a token class after which `TokenSpacing` leaves
/// "no space" to the operator's own rule (a closing generic bracket, `)`, `]`, `^`, a literal, an identifier):
/// well-formed declarations and statements in which the gap before the operator is empty, blanks, or a line break
/// with any indentation.  If the operator's rule does not restore its space the two tokens are glued (`>` `=`
/// re-scans as `>=`, `>` `.` …).
pub fn op_gap(rng: &mut Rng) -> String {
    let gap = *rng.pick(&["", " ", "  ", "\n", "\n      ", "\n  ", " \n", "\t"]);
    let gap2 = *rng.pick(&["", " ", "\n    "]);
    let lhs = *rng.pick(&["TFoo<T>", "TList<Integer>", "TDict<string, TList<Integer>>", "Foo(1)", "A[1]", "P^", "X", "TArray<Integer>", "TFoo<T>.TBar<U>"]);
    let op = *rng.pick(&["=", "=", "<>", "<", ">", "<=", ">=", ":=", "*", "/", "+", "-", ".", "..", "^", "@", "in", "is", "as"]);
    match rng.below(6) {
        0 => format!("type\n  {lhs}{gap}= class\n  end;\n"),
        1 => format!("type\n  TRec = record\n  end;\n  {lhs}{gap}={gap2}record\n  end;\n"),
        2 => format!("const\n  C: {lhs}{gap}={gap2}[1, 2];\n"),
        3 => format!("begin\n  if {lhs}{gap}{op}{gap2}AClass then\n    Exit;\nend;\n"),
        4 => format!("begin\n  X := {lhs}{gap}{op}{gap2}Y;\nend;\n"),
        _ => format!("var\n  V: {lhs}{gap}={gap2}nil;\nbegin\n  Y := {lhs}{gap}.Create;\nend;\n"),
    }
}

/// `unclosed` family: a conditional-compilation block that is never closed (`{$ifdef}` … `{$else}` … end of file, no
/// `{$endif}`), so that the end-of-file token belongs to the last branch only, and whose earlier branch ends in the
/// middle of a construct (an opening bracket, a keyword that expects more, an operator): every loop of the parser
/// that runs "until the closer or the end of the file" meets a pass without an end-of-file token.
pub fn unclosed_conditional(rng: &mut Rng) -> String {
    let open = *rng.pick(&["{$ifdef A}", "{$IFNDEF B}", "{$if defined(X)}", "(*$ifdef C*)", "{$ifopt R+}"]);
    let pre = *rng.pick(&["", "begin\n", "procedure P;\nbegin\n", "unit U;\ninterface\n", "type T = class\n", "x := Foo", "const C = ", "external 'lib' name "]);
    let tail = *rng.pick(&["[", "(", "<", "Foo(", "A[", "TList<", "begin", "case x of", "x :=", "if a then", "try", "record", "class", "Foo.", "procedure Bar(", "repeat", "1 +", "'s' +", "@", "^", "uses", "asm", "function F: ", "property P: Integer read", "while x do", "for i := 1 to", "with x do", "raise", "inherited", "goto", "label", "exports", "[Attr", "var x:", ""]);
    let mid = *rng.pick(&["{$else}", "{$ELSE}", "{$elseif Z}", "{$else}{$ifdef D}", "{$else} // c"]);
    let rest = *rng.pick(&["x;", "", "end;", "end.", ")", "]", ">", "x := 1;\nend.", "// c", "{$endif", "y(", "begin"]);
    let nl = *rng.pick(&["\n", " ", "\n\n"]);
    let close = if rng.chance(1, 6) { "\n{$endif}" } else { "" };
    format!("{pre}{open}{nl}{tail}{nl}{mid}{nl}{rest}{close}\n")
}

/// `deepnest` family: one construct nested many levels deep (the shapes whose cost must stay polynomial): anonymous
/// routines as call arguments with long sibling arguments, parentheses, begin/end, if/else chains, case, try, generic
/// brackets, conditional directives
pub fn deep_nest(rng: &mut Rng) -> String {
    let depth = rng.range(6, 14);
    let long = rng.chance(2, 3);
    let (a1, a2) = if long {
        ("AAAAAAAAAAAAAAA + BBBBBBBBBBBBBBBBBB, CCCCCCCCCCCCCCCCCCCC, ", ", DDDDDDDDDDDDDD + EEEEEEEEEEEEEEEEE, FFFFFFFFFFFFFFFFFFFFFF")
    } else {
        ("a, ", ", b")
    };
    let mut body = String::from("X;");
    match rng.below(8) {
        0 | 1 => {
            for _ in 0..depth {
                let kw = if rng.chance(1, 2) { "function: Integer" } else { "procedure" };
                body = format!("Result := FooBarBazQux({}{} begin {} end{});", a1, kw, body, a2);
            }
        }
        2 => {
            let mut e = String::from("x");
            for _ in 0..depth * 3 {
                e = format!("({} + {})", e, if long { "SomeVeryLongIdentifierName" } else { "y" });
            }
            body = format!("z := {};", e);
        }
        3 => {
            for _ in 0..depth {
                body = format!("begin {} end;", body);
            }
        }
        4 => {
            for i in 0..depth {
                body = format!("if Condition{} and (AnotherCondition{} or Third) then begin {} end else begin {} end;", i, i, body, "Y;");
            }
        }
        5 => {
            for i in 0..depth {
                body = format!("case Value{} of 1: begin {} end; 2: Other; else Default; end;", i, body);
            }
        }
        6 => {
            let mut t = String::from("Integer");
            for _ in 0..depth {
                t = format!("TDictionary<string, {}>", t);
            }
            body = format!("var v: {} := {}.Create;", t, t);
        }
        _ => {
            let mut s = String::from("X;\n");
            for i in 0..depth {
                s = format!("{{$ifdef A{}}}\n{}{{$else}}\nY{};\n{{$endif}}\n", i, s, i);
            }
            body = s;
        }
    }
    format!("procedure P;\nbegin\n{}\nend;\n", body)
}

/// `pairs_enum` family (thorough): every ordered triple of the spacing alphabet, with the gap kinds rotating, in a
/// fixed context; deterministic in `i`
pub fn token_pairs_enum(i: usize) -> String {
    let n = PAIR_ALPHABET.len();
    let gaps = ["", " ", "   ", "\n", "\n      "];
    let (a, b, c) = (i % n, (i / n) % n, (i / (n * n)) % n);
    let g1 = gaps[(i / (n * n * n)) % gaps.len()];
    let g2 = gaps[(i / (n * n * n) / gaps.len() + i) % gaps.len()];
    format!("x := {}{}{}{}{};", PAIR_ALPHABET[a], g1, PAIR_ALPHABET[b], g2, PAIR_ALPHABET[c])
}

pub fn token_soup(rng: &mut Rng, max_len: usize) -> String {
    let n = rng.range(0, max_len);
    let mut s = String::new();
    for _ in 0..n {
        s.push_str(rng.pick_str(SOUP));
        match rng.below(10) {
            0 => s.push('\n'),
            1 => s.push_str("  "),
            2 => {}
            _ => s.push(' '),
        }
    }
    s
}

const BYTE_BIAS: &[&str] = &[
    "'", "''", "'''", "{", "}", "(*", "*)", "//", "\r", "\n", "\r\n", "\u{3000}", "\0", "\u{b}", "&", "#", "$", "%", " ", "\t",
    "{$", "(*$", "if", "end", "asm", ".", "..", "é", "日", "\u{1F600}", "\u{7f}", "\u{80}", "\u{a0}", "e", "E", "+", "1", "_", "\"", "\\", "@",
    "pasfmt off", "pasfmt on", "begin", ";",
];

pub fn byte_soup(rng: &mut Rng, max_len: usize) -> String {
    let n = rng.range(0, max_len);
    let mut s = String::new();
    for _ in 0..n {
        if rng.chance(3, 4) {
            s.push_str(rng.pick_str(BYTE_BIAS));
        } else {
            let c = match rng.below(4) {
                0 => rng.range(0, 0x7f) as u32,
                1 => rng.range(0x20, 0x7e) as u32,
                2 => rng.range(0x80, 0x7ff) as u32,
                _ => rng.range(0x800, 0xffff) as u32,
            };
            if let Some(ch) = char::from_u32(c) {
                s.push(ch);
            }
        }
    }
    s
}

pub fn load_seeds() -> Vec<String> {
    let p = std::env::var("VERIF_ROOT").unwrap_or_else(|_| "/verif".to_string()) + "/corpus/seeds.txt";
    match std::fs::read_to_string(&p) {
        Ok(s) => s.split("\n!####SEED####!\n").map(|x| x.to_string()).collect(),
        Err(_) => vec![],
    }
}

fn floor_boundary(s: &str, mut i: usize) -> usize {
    if i > s.len() {
        i = s.len();
    }
    while !s.is_char_boundary(i) {
        i -= 1;
    }
    i
}

/// splice / truncate / duplicate mutations
pub fn mutate(rng: &mut Rng, a: &str, b: &str) -> String {
    match rng.below(5) {
        0 => {
            let i = floor_boundary(a, rng.below(a.len() + 1));
            a[..i].to_string()
        }
        1 => {
            let i = floor_boundary(a, rng.below(a.len() + 1));
            let j = floor_boundary(b, rng.below(b.len() + 1));
            format!("{}{}", &a[..i], &b[j..])
        }
        2 => {
            let i = floor_boundary(a, rng.below(a.len() + 1));
            let j = floor_boundary(a, rng.below(a.len() + 1));
            let (i, j) = (i.min(j), i.max(j));
            format!("{}{}{}", &a[..j], &a[i..j], &a[j..])
        }
        3 => {
            let i = floor_boundary(a, rng.below(a.len() + 1));
            let j = floor_boundary(a, rng.below(a.len() + 1));
            let (i, j) = (i.min(j), i.max(j));
            format!("{}{}", &a[..i], &a[j..])
        }
        _ => {
            let i = floor_boundary(a, rng.below(a.len() + 1));
            let ins = rng.pick(BYTE_BIAS);
            format!("{}{}{}", &a[..i], ins, &a[i..])
        }
    }
}

#[derive(Clone, Debug, PartialEq, Eq)]
pub struct Cfg {
    pub wrap_column: u32,
    pub begin_always: bool,
    pub fmt_mls: bool,
    pub use_tabs: bool,
    pub tab_width: u8,
    pub cont: u8,
    pub crlf: bool,
}

impl Default for Cfg {
    fn default() -> Self {
        Cfg { wrap_column: 120, begin_always: false, fmt_mls: true, use_tabs: false, tab_width: 2, cont: 2, crlf: false }
    }
}

impl Cfg {
    pub fn to_toml(&self) -> String {
        format!(
            "wrap_column = {}\nbegin_style = \"{}\"\nformat_multiline_strings = {}\nuse_tabs = {}\ntab_width = {}\ncontinuation_indents = {}\nline_ending = \"{}\"\n",
            self.wrap_column,
            if self.begin_always { "always_wrap" } else { "auto" },
            self.fmt_mls,
            self.use_tabs,
            self.tab_width,
            self.cont,
            if self.crlf { "crlf" } else { "lf" }
        )
    }
    pub fn to_proto(&self) -> String {
        format!(
            "w={},b={},m={},t={},tw={},ci={},crlf={}",
            self.wrap_column, self.begin_always as u8, self.fmt_mls as u8, self.use_tabs as u8, self.tab_width, self.cont, self.crlf as u8
        )
    }
    pub fn from_proto(s: &str) -> Option<Cfg> {
        let mut c = Cfg::default();
        for kv in s.split(',') {
            let (k, v) = kv.split_once('=')?;
            match k {
                "w" => c.wrap_column = v.parse().ok()?,
                "b" => c.begin_always = v == "1",
                "m" => c.fmt_mls = v == "1",
                "t" => c.use_tabs = v == "1",
                "tw" => c.tab_width = v.parse().ok()?,
                "ci" => c.cont = v.parse().ok()?,
                "crlf" => c.crlf = v == "1",
                _ => return None,
            }
        }
        Some(c)
    }
    pub fn random(rng: &mut Rng) -> Cfg {
        if rng.chance(1, 3) {
            return Cfg::default();
        }
        Cfg {
            wrap_column: *rng.pick(&[0u32, 1, 10, 30, 40, 60, 80, 100, 120, 200, u32::MAX]),
            begin_always: rng.chance(1, 2),
            fmt_mls: rng.chance(3, 4),
            use_tabs: rng.chance(1, 3),
            tab_width: *rng.pick(&[0u8, 1, 2, 2, 2, 3, 4, 4, 8, 255]),
            cont: *rng.pick(&[0u8, 1, 2, 2, 2, 3, 16, 255]),
            crlf: rng.chance(1, 3),
        }
    }
}

/// every word the scanner may type as a keyword (lang.rs `KeywordKind`, lower case)
pub const ALL_KEYWORDS: &[&str] = &["and", "array", "as", "asm", "begin", "case", "class", "const", "constructor", "destructor", "dispinterface", "div", "do", "downto", "else", "end", "except", "exports", "file", "finalization", "finally", "for", "function", "goto", "if", "implementation", "in", "inherited", "initialization", "inline", "interface", "is", "label", "library", "mod", "nil", "not", "object", "of", "or", "packed", "procedure", "program", "property", "raise", "record", "repeat", "resourcestring", "set", "shl", "shr", "string", "then", "threadvar", "to", "try", "type", "unit", "until", "uses", "var", "while", "with", "xor", "absolute", "abstract", "align", "assembler", "at", "automated", "cdecl", "contains", "default", "delayed", "deprecated", "dispid", "dynamic", "experimental", "export", "external", "far", "final", "forward", "helper", "implements", "index", "local", "message", "name", "near", "nodefault", "on", "operator", "out", "overload", "override", "package", "pascal", "platform", "private", "protected", "public", "published", "read", "readonly", "reference", "register", "reintroduce", "requires", "resident", "safecall", "sealed", "static", "stdcall", "stored", "strict", "unsafe", "varargs", "virtual", "winapi", "write", "writeonly"];

pub const FOLLOWERS: &[&str] = &[" ", ";", "(", ".", "\n", "\u{3000}", "é", "+", "'", "{", "#", ""];
pub const KEYWORD_SAMPLE: &[&str] = &[
    "begin", "end", "implementation", "dispinterface", "resourcestring", "if", "of", "to", "absolute", "writeonly",
    "winapi", "xor", "asm", "at", "on", "finalization", "initialization", "reintroduce", "experimental", "in",
];

/// G6: one word of a given class and length at a given alignment, followed by a delimiter class
pub fn lex_family_case(class: usize, len: usize, off: usize, follower: usize, rng: &mut Rng) -> String {
    let mut s = " ".repeat(off);
    let mut word = String::new();
    match class % 6 {
        0 => {
            for i in 0..len {
                let c = if i == 0 { *rng.pick(&['a', 'Z', '_', 'q']) } else { *rng.pick(&['a', 'B', '_', '0', '9', 'z', 'Z', 'm']) };
                word.push(c);
            }
        }
        1 => {
            let k = KEYWORD_SAMPLE[len % KEYWORD_SAMPLE.len()];
            for ch in k.chars() {
                if rng.chance(1, 2) {
                    word.push(ch.to_ascii_uppercase())
                } else {
                    word.push(ch)
                }
            }
        }
        2 => {
            for _ in 0..len {
                word.push(*rng.pick(&['0', '1', '7', '9', '_']));
            }
            if !word.starts_with(|c: char| c.is_ascii_digit()) {
                word.insert(0, '4');
            }
        }
        3 => {
            word.push('$');
            for _ in 0..len {
                word.push(*rng.pick(&['0', 'a', 'F', '9', '_']));
            }
        }
        4 => {
            // identifier with a non-ASCII character somewhere
            let pos = rng.below(len.max(1));
            for i in 0..len {
                if i == pos {
                    word.push(*rng.pick(&['é', 'ß', '日', 'д', '\u{1F600}']));
                } else {
                    word.push(*rng.pick(&['a', 'B', '_', '0', 'z']));
                }
            }
            if word.starts_with(|c: char| c.is_ascii_digit()) {
                word.insert(0, 'x');
            }
        }
        _ => {
            // keyword prefix/suffix near-misses
            let k = KEYWORD_SAMPLE[len % KEYWORD_SAMPLE.len()];
            word.push_str(k);
            word.push(*rng.pick(&['s', '_', '1', 'é']));
        }
    }
    s.push_str(&word);
    s.push_str(FOLLOWERS[follower % FOLLOWERS.len()]);
    if rng.chance(1, 2) {
        s.push_str("x := 1;");
    }
    s
}

/// `tokfam` family (C13): a sequence of tokens, each built from the Delphi lexical rules so that it is one token of a
/// known class, separated by blanks.  Returns the text and the expected tokens as "class\u{1}text".
pub fn tok_family_case(rng: &mut Rng) -> (String, Vec<String>) {
    fn quoted(rng: &mut Rng) -> String {
        let mut q = String::from("'");
        for _ in 0..rng.below(6) {
            q.push_str(rng.pick_str(&["a", " ", "}", "{", "(*", "*)", "//", "''", "é", "#", "$", "{$", "日", "\t", "x y", ";", "end"]));
        }
        q.push('\'');
        q
    }
    fn escape(rng: &mut Rng) -> String {
        match rng.below(4) {
            0 => format!("#{}", rng.range(0, 255)),
            1 => format!("#${:X}", rng.range(0, 0xFFFF)),
            2 => format!("#%{:b}", rng.range(0, 255)),
            _ => format!("#{}_{}", rng.range(0, 9), rng.range(0, 99)),
        }
    }
    // a comment, string or nested directive that may stand inside the expression of `{$if}` / `{$elseif}`
    fn nested(rng: &mut Rng, depth: usize) -> String {
        match rng.below(7) {
            0 => format!("{{{}}}", rng.pick_str(&["", " note ", "(*", "'", "//", " a 'b ", "*)"])),
            1 => format!("(*{}*)", rng.pick_str(&["", " note ", "}", "{", "'", "//", " } { "])),
            2 => quoted(rng),
            3 => format!("{{${} {}}}", rng.pick_str(&["I", "i", "INCLUDE", "define", "R"]), rng.pick_str(&["version.inc", "x", "+", "'f}.inc'"]).replace('}', "")),
            4 if depth < 2 => format!("{{$IF {}}}", expr(rng, depth + 1)),
            5 => format!("// line {}\n", rng.pick_str(&["", "}", "*)", "'", "{$endif}"])),
            _ => format!("(*${} {}*)", rng.pick_str(&["I", "define"]), rng.pick_str(&["a.inc", "X"])),
        }
    }
    fn expr(rng: &mut Rng, depth: usize) -> String {
        let mut e = String::new();
        for i in 0..rng.range(1, 4) {
            if i > 0 {
                e.push_str(rng.pick_str(&[" and ", " or ", " ", " >= ", "\n  "]));
            }
            if rng.chance(1, 2) {
                e.push_str(rng.pick_str(&["Defined(B)", "CompilerVersion >= 30", "A", "not X", "SizeOf(Pointer) = 8", "(Y > 1)", "Suffix = "]));
            } else {
                e.push_str(&nested(rng, depth));
            }
        }
        e
    }
    let mut text = String::new();
    let mut exp = vec![];
    let n = rng.range(1, 6);
    let mut prev_line_comment = false;
    text.push_str(rng.pick_str(&["", "", " ", "\n", "\u{3000}"]));
    for i in 0..n {
        if i > 0 || prev_line_comment {
            let sep = rng.pick_str(&[" ", " ", "\n", "\t", "  \n ", "\r\n", "\u{3000}", " \u{3000} "]);
            // a line comment runs up to the line break: whatever separates it from the next token starts with one
            if prev_line_comment && !sep.starts_with('\n') && !sep.starts_with("\r\n") {
                text.push('\n');
            }
            text.push_str(sep);
        }
        prev_line_comment = false;
        let (class, tok): (String, String) = match rng.below(12) {
            0 => {
                let mut w = String::from(rng.pick_str(&["zq", "_", "Zq", "zqé", "q日", "&begin", "&zq", "zq_1"]));
                for _ in 0..rng.below(5) {
                    w.push_str(rng.pick_str(&["a", "B", "_", "0", "9", "é", "ß"]));
                }
                ("ident".into(), w)
            }
            11 if rng.chance(1, 2) => {
                // a proper prefix of a keyword, or a keyword with one more letter: an identifier unless it is itself a keyword
                let k = rng.pick_str(ALL_KEYWORDS);
                let mut w: String = if rng.chance(2, 3) && k.len() > 2 { k[..rng.range(2, k.len() - 1)].to_string() } else { format!("{}{}", k, rng.pick_str(&["s", "x", "_", "1", "e"])) };
                if ALL_KEYWORDS.contains(&w.as_str()) {
                    w.push('q');
                }
                let w: String = w.chars().map(|c| if rng.chance(1, 3) { c.to_ascii_uppercase() } else { c }).collect();
                ("plainident".into(), w)
            }
            1 => {
                let k = rng.pick_str(&["begin", "end", "implementation", "if", "of", "to", "xor", "in", "initialization", "finalization", "resourcestring", "dispinterface", "absolute", "on", "at", "experimental", "winapi"]);
                let w: String = k.chars().map(|c| if rng.chance(1, 3) { c.to_ascii_uppercase() } else { c }).collect();
                ("kw".into(), w)
            }
            2 => {
                let mut w = format!("{}", rng.range(0, 9999));
                if rng.chance(1, 3) {
                    w.push_str(&format!("_{}", rng.range(0, 99)));
                }
                if rng.chance(1, 2) {
                    w.push_str(&format!(".{}", rng.range(0, 999)));
                }
                if rng.chance(1, 2) {
                    w.push_str(rng.pick_str(&["e", "E"]));
                    w.push_str(rng.pick_str(&["", "+", "-"]));
                    w.push_str(&format!("{}", rng.range(0, 308)));
                }
                ("num".into(), w)
            }
            3 => ("num".into(), if rng.chance(1, 2) { format!("${:X}", rng.range(0, 0xFFFFFF)) } else { format!("%{:b}", rng.range(0, 1023)) }),
            4 => {
                // text literal: quoted parts and escapes in any order (two quoted parts in a row are one part with `''`)
                let mut w = String::new();
                let parts = rng.range(1, 4);
                for _ in 0..parts {
                    if rng.chance(1, 2) {
                        w.push_str(&quoted(rng));
                    } else {
                        w.push_str(&escape(rng));
                    }
                }
                ("text".into(), w)
            }
            5 => {
                let q = rng.pick_str(&["\'\'\'", "\'\'\'\'\'"]);
                let mut w = format!("{}\n", q);
                for _ in 0..rng.below(3) {
                    w.push_str(rng.pick_str(&["  a\n", "  'b'\n", "  }\n", "\n", "  ''\n", "  it's\n"]));
                }
                w.push_str("  ");
                w.push_str(q);
                ("text".into(), w)
            }
            6 => {
                let w = match rng.below(3) {
                    0 => format!("{{{}}}", rng.pick_str(&["", " c ", "(*", "*)", "'", "//", "{", " $x ", "\n", "a\nb", "é"])),
                    1 => format!("(*{}*)", rng.pick_str(&["", " c ", "{", "}", "'", "//", "(*", " $x ", "\n", "*", ")", "* )"])),
                    _ => {
                        prev_line_comment = true;
                        format!("//{}", rng.pick_str(&["", " c", "}", "{$endif}", "'", "(*", "/", "// x", " é"]))
                    }
                };
                ("comment".into(), w)
            }
            7 => {
                let name = rng.pick_str(&["R+", "define foo", "i inc.inc", "region 'x'", "WARN SYMBOL_PLATFORM OFF", "M 16384,1048576", "undef A", "POINTERMATH ON", "endregion"]);
                let w = if rng.chance(3, 4) { format!("{{${}}}", name) } else { format!("(*${}*)", name) };
                ("dir".into(), w)
            }
            8 => {
                let (name, kind) = *rng.pick(&[("ifdef X", "Ifdef"), ("IFNDEF y", "Ifndef"), ("ifopt R+", "Ifopt"), ("else", "Else"), ("ELSE", "Else"), ("endif", "Endif"), ("ifend", "Ifend"), ("EndIf", "Endif"), ("else comment", "Else"), ("endif X", "Endif")]);
                let w = if rng.chance(3, 4) { format!("{{${}}}", name) } else { format!("(*${}*)", name) };
                (format!("cdir:{}", kind), w)
            }
            9 | 10 => {
                let (name, kind) = *rng.pick(&[("if", "If"), ("IF", "If"), ("elseif", "Elseif"), ("ELSEIF", "Elseif"), ("ElseIf", "Elseif")]);
                let e = expr(rng, 0);
                let w = if rng.chance(3, 4) { format!("{{${} {}}}", name, e) } else { format!("(*${} {}*)", name, e) };
                (format!("cdir:{}", kind), w)
            }
            _ => ("op".into(), rng.pick_str(&[":=", "<=", ">=", "<>", "..", "(.", ".)", "+", "-", "*", "/", "=", "<", ">", "[", "]", "(", ")", ",", ";", ":", "^", "@"]).to_string()),
        };
        text.push_str(&tok);
        exp.push(format!("{}\u{1}{}", class, tok));
    }
    if prev_line_comment || rng.chance(1, 2) {
        text.push('\n');
    }
    (text, exp)
}

pub fn lex_family(rng: &mut Rng, n: usize, exhaustive: bool) -> Vec<String> {
    let mut v = vec![];
    if exhaustive {
        for len in 1..=200usize {
            for off in 0..=64usize {
                for f in 0..FOLLOWERS.len() {
                    let class = (len + off + f) % 6;
                    v.push(lex_family_case(class, len, off, f, rng));
                }
            }
        }
    } else {
        for _ in 0..n {
            let len = if rng.chance(1, 2) { rng.range(1, 40) } else { rng.range(1, 200) };
            let off = rng.range(0, 64);
            let f = rng.below(FOLLOWERS.len());
            let class = rng.below(6);
            v.push(lex_family_case(class, len, off, f, rng));
        }
    }
    v
}


/// C07 family: toggle comments (3 comment forms x letter case x on/off/other words) between arbitrary tokens
pub fn with_regions(p: &Program, rng: &mut Rng) -> Program {
    let mut out = Program::default();
    let n = p.toks.len();
    let k = rng.range(1, 4);
    let mut positions: Vec<usize> = (0..k).map(|_| rng.below(n + 1)).collect();
    positions.sort();
    let mut pi = 0;
    for (i, t) in p.toks.iter().enumerate() {
        while pi < positions.len() && positions[pi] == i {
            out.toks.push(GTok { text: toggle_comment(rng), mark: Mark::None });
            pi += 1;
        }
        out.toks.push(t.clone());
    }
    while pi < positions.len() {
        out.toks.push(GTok { text: toggle_comment(rng), mark: Mark::None });
        pi += 1;
    }
    out
}

pub fn toggle_comment(rng: &mut Rng) -> String {
    let word = *rng.pick(&["off", "off", "off", "on", "on", "OFF", "On", "oFf", "offf", "o", "of", "onn", "off2", "off,", "on!"]);
    let name = *rng.pick(&["pasfmt", "pasfmt", "PASFMT", "PasFmt", "pasfmtx", "pas fmt"]);
    let sp1 = *rng.pick(&["", " ", "  ", "\t"]);
    let sp2 = *rng.pick(&[" ", " ", "  ", "\t", ""]);
    let tail = *rng.pick(&["", " ", " trailing words", "-"]);
    match rng.below(3) {
        0 => format!("//{}{}{}{}{}", sp1, name, sp2, word, tail),
        1 => format!("{{{}{}{}{}{}}}", sp1, name, sp2, word, tail),
        _ => format!("(*{}{}{}{}{}*)", sp1, name, sp2, word, tail),
    }
}


/// targeted family: multi-line strings with arbitrary (over/under) indentation in various expression
/// positions, inside child lines, followed by further tokens
pub fn mls_family_case(rng: &mut Rng) -> String {
    let q = match rng.below(8) {
        0 => "\'\'\'\'\'",
        1 => "\'\'\'\'\'\'\'",
        _ => "\'\'\'",
    };
    let unit = match rng.below(10) {
        0 => "\t",
        1 => "\u{3000}",
        2 => "\u{1}",
        3 => " \t",
        _ => " ",
    };
    let ind = unit.repeat(*rng.pick(&[0usize, 2, 4, 6, 10, 20, 40, 60]));
    let nl = *rng.pick(&["\n", "\n", "\n", "\r\n", "\r\n", "\r"]);
    // one literal in four mixes its terminators (LF, CRLF, CR line by line: "\r\n" directly followed by "\n" etc.)
    let mixed = rng.chance(1, 4);
    macro_rules! term {
        () => {
            if mixed { *rng.pick(&["\n", "\r\n", "\r", "\n"]) } else { nl }
        };
    }
    let mut lit = String::new();
    lit.push_str(q);
    { let t = term!(); lit.push_str(t) };
    for i in 0..rng.range(1, 3) {
        match rng.below(9) {
            0 => { let t = term!(); lit.push_str(t) },
            6 => {
                // blank-only line that is NOT a prefix of the indentation (other blank characters, or longer)
                lit.push_str(*rng.pick(&["\t", " \t ", "\u{3000}", "\u{1}\u{2}", "                                                                  "]));
                { let t = term!(); lit.push_str(t) };
            }
            7 => {
                // characters that Unicode calls spaces but Delphi does not treat as blank
                let h = ind.len() / 2;
                let mut hh = h;
                while !ind.is_char_boundary(hh) {
                    hh -= 1;
                }
                if rng.chance(1, 2) {
                    lit.push_str(&ind[..hh]);
                }
                lit.push_str(*rng.pick(&["\u{a0}", "\u{2003}", "\u{85}", "\u{2028}", "\u{202f}\u{a0}", "\u{1680}"]));
                { let t = term!(); lit.push_str(t) };
            }
            8 => {
                // wrong indentation followed by text
                lit.push_str(*rng.pick(&["\t", " ", ""]));
                lit.push_str("misindented");
                { let t = term!(); lit.push_str(t) };
            }
            1 => {
                lit.push_str(&ind);
                lit.push_str("  deeper  ");
                { let t = term!(); lit.push_str(t) };
            }
            2 => {
                // short line: prefix of the indentation
                let mut h = ind.len() / 2;
                while !ind.is_char_boundary(h) {
                    h -= 1;
                }
                lit.push_str(&ind[..h]);
                { let t = term!(); lit.push_str(t) };
            }
            _ if q.len() >= 5 && rng.chance(1, 3) => {
                // an interior line of a 5- or 7-quote literal that consists of a SHORTER run of quotes (odd or even), alone or
                // followed by text: part of the value, not the end of the literal
                lit.push_str(&ind);
                lit.push_str(&"'".repeat(rng.range(1, q.len() - 1)));
                if rng.chance(1, 3) {
                    lit.push_str(" tail");
                }
                { let t = term!(); lit.push_str(t) };
            }
            _ => {
                lit.push_str(&ind);
                lit.push_str(&format!("text{}", i));
                if rng.chance(1, 4) {
                    lit.push_str(*rng.pick(&["  ", "\t", " \u{3000}"]));
                }
                { let t = term!(); lit.push_str(t) };
            }
        }
    }
    lit.push_str(&ind);
    lit.push_str(q);
    let tail = *rng.pick(&["", ".Trim", ".Trim(aaaaaaa, bbbbbbb)", " + Foo(Bar, Baz)", " + 'x'", ".Replace('a', 'b').ToUpper"]);
    let pre_gap = *rng.pick(&[" ", "\n", "\n      ", "\n                                        "]);
    let stmt = match rng.below(5) {
        0 => format!("x :={}{}{};", pre_gap, lit, tail),
        1 => format!("Foo({}{}{}, 123);", pre_gap.trim_start_matches(' '), lit, tail),
        2 => format!("x := Bar(1,{}{}{}) + Baz;", pre_gap, lit, tail),
        3 => format!("Result := [{}{}{}];", pre_gap.trim_start_matches(' '), lit, tail),
        _ => format!("const S ={}{}{};", pre_gap, lit, tail),
    };
    match rng.below(9) {
        7 | 8 => {
            // the statement is shared by the branches of a conditional directive that leave different nesting depths
            let head = *rng.pick(&[
                "procedure P;\n{$ifdef A}\n{$else}\nprocedure Q;\n{$endif}",
                "{$ifdef A}\nprocedure P;\n{$else}\nprocedure P;\nprocedure Q;\n{$endif}",
                "procedure P;\n{$ifdef A}\nprocedure Q;\n{$endif}",
                "{$ifndef A}\nprocedure P;\nprocedure Q;\n{$else}\nprocedure P;\n{$endif}",
                "procedure P;\n(*$ifdef A*)\nvar x: Integer;\n{$else}\nprocedure Q;\nvar x: Integer;\n{$endif}",
            ]);
            format!("unit U;\nimplementation\n{}\nbegin\n  {}\nend;\nend.\n", head, stmt)
        }
        0 => format!("{}\n", stmt),
        1 => format!("begin\n  {}\nend;\n", stmt),
        2 => format!("begin\n  if a then\n    {}\nend;\n", stmt),
        3 => format!("begin\n  while a do {}\nend;\n", stmt),
        4 => format!("begin\n  case a of\n    1: {}\n  end;\nend;\n", stmt),
        5 => format!("begin\n  Foo(procedure\n    begin\n      {}\n    end);\nend;\n", stmt),
        _ => format!("begin\n  if a then begin\n    {}\n  end else\n    {}\nend;\n", stmt, stmt),
    }
}


/// conditional-directive-heavy inputs: `k` sequential blocks, each nested `d` deep, with else/elseif branches
pub fn directive_heavy(rng: &mut Rng) -> String {
    let k = rng.range(1, 24);
    let d = rng.range(1, 6);
    let mut s = String::from("begin\n");
    for i in 0..k {
        for j in 0..d {
            s.push_str(&format!("{{$ifdef A{}_{}}}\n", i, j));
            s.push_str(&format!("  x{} := {};\n", j, i));
            if rng.chance(1, 2) {
                s.push_str(if rng.chance(1, 3) { "{$elseif B}\n" } else { "{$else}\n" });
                s.push_str(&format!("  y{} := {} +\n", j, i));
                if rng.chance(1, 4) {
                    s.push_str("  begin\n");
                }
            }
        }
        for _ in 0..d {
            s.push_str("  z;\n{$endif}\n");
        }
    }
    s.push_str("end;\n");
    s
}

/// `dirsoup` family: short token sequences dense in conditional directives, compiler directives and comments,
/// mostly balanced (`{$ifdef}` .. `{$else}` .. `{$endif}` nested up to depth 3), with code tokens, comments and line
/// breaks at every position: a compiler directive directly between two conditional directives, a comment right after
/// a directive, a conditional directive between a directive and its trailing comment, branches holding only
/// directives or only comments, directives inside expressions and parameter lists.
pub fn directive_soup(rng: &mut Rng) -> String {
    const CODE: [&str; 22] = [
        "x", "Foo", ";", ":=", "(", ")", ",", "1", "'s'", "begin", "end", "if", "then", "else", "var", "procedure", "A: Integer;", "x := 1;",
        "Foo(1, 2);", "uses", "type", ".",
    ];
    const CDIR: [&str; 8] = ["{$define X}", "{$R+}", "{$mode delphi}", "(*$I a.inc*)", "{$undef Y}", "{$WARN OFF}", "{$region 'r'}", "{$H+}"];
    const COMM: [&str; 5] = ["// c", "{c}", "(* c *)", "{ a\n b }", "/// d"];
    fn sep(rng: &mut Rng, s: &mut String) {
        match rng.range(0, 6) {
            0 | 1 | 2 => s.push(' '),
            3 | 4 => s.push('\n'),
            _ => {}
        }
    }
    fn item(rng: &mut Rng, s: &mut String, depth: usize, budget: &mut usize) {
        if *budget == 0 {
            return;
        }
        *budget -= 1;
        match rng.range(0, 12) {
            0 | 1 | 2 | 3 => s.push_str(rng.pick_str(&CODE)),
            4 | 5 => s.push_str(rng.pick_str(&CDIR)),
            6 | 7 => {
                let c = rng.pick_str(&COMM);
                s.push_str(c);
                if c.starts_with("//") {
                    s.push('\n');
                }
            }
            8 | 9 | 10 if depth < 3 => {
                s.push_str(rng.pick_str(&["{$ifdef A}", "{$ifndef B}", "{$if X}", "{$ifopt R+}"]));
                let n = rng.range(0, 4);
                for _ in 0..n {
                    sep(rng, s);
                    item(rng, s, depth + 1, budget);
                }
                let branches = rng.range(0, 3);
                for _ in 0..branches {
                    sep(rng, s);
                    s.push_str(rng.pick_str(&["{$else}", "{$elseif Y}"]));
                    let n = rng.range(0, 4);
                    for _ in 0..n {
                        sep(rng, s);
                        item(rng, s, depth + 1, budget);
                    }
                }
                sep(rng, s);
                if !rng.chance(1, 12) {
                    s.push_str(rng.pick_str(&["{$endif}", "{$endif}", "{$ifend}"]));
                }
            }
            _ => s.push_str(rng.pick_str(&["{$endif}", "{$else}", "x", ";", "{$define Z}"])),
        }
    }
    let mut s = String::new();
    if rng.chance(1, 2) {
        s.push_str(rng.pick_str(&["unit U;\ninterface\n", "begin\n", "procedure P;\nbegin\n", "package P;\n", "type T = class\n"]));
    }
    let mut budget = *rng.pick(&[4usize, 8, 16, 40]);
    let n = rng.range(1, 10);
    for _ in 0..n {
        item(rng, &mut s, 0, &mut budget);
        sep(rng, &mut s);
    }
    if rng.chance(1, 2) {
        s.push_str(rng.pick_str(&["\nend.", "\nend;", "\n", ""]));
    }
    s
}

/// `asmreg` family (C07): a routine whose body is an asm block, with irregularly spaced instruction lines and comments at
/// the start, in the middle and at the end of instruction lines - among them formatting toggles (`{pasfmt on}`,
/// `// pasfmt off`, stray `(* PASFMT ON *)`) - so that an instruction line can start with a token the toggler has marked.
pub fn asm_regions(rng: &mut Rng) -> String {
    fn sp(rng: &mut Rng) -> String {
        " ".repeat(rng.range(1, 4))
    }
    fn block_comment(rng: &mut Rng) -> &'static str {
        rng.pick_str(&["{pasfmt on}", "{pasfmt off}", "(* PASFMT ON *)", "{ note }", "(* x *)", "{PASFMT OFF}", "{pasfmt on }"])
    }
    let mut s = String::new();
    if rng.chance(1, 3) {
        s.push_str("x  :=  1 ;\n");
    }
    s.push_str(rng.pick_str(&["procedure Foo;\nasm\n", "function Bar: Integer;\nasm\n", "procedure P;\nbegin\n  asm\n"]));
    let begin_wrapped = s.ends_with("  asm\n");
    let n = rng.range(1, 6);
    for _ in 0..n {
        s.push_str(&sp(rng));
        if rng.chance(1, 4) {
            s.push_str(block_comment(rng));
            s.push_str(&sp(rng));
        }
        match rng.range(0, 5) {
            0 => s.push_str(&format!("MOV{}EAX,{}{}", sp(rng), sp(rng), rng.range(1, 9))),
            1 => s.push_str(&format!("XOR{}EAX ,{}EAX", sp(rng), sp(rng))),
            2 => s.push_str(&format!("@@loop:{}dec{}ecx", sp(rng), sp(rng))),
            3 => s.push_str(&format!("push{}ebx{};{}pop{}ebx", sp(rng), sp(rng), sp(rng), sp(rng))),
            4 => s.push_str(&format!("mov{}[eax+4] ,{}ebx", sp(rng), sp(rng))),
            _ => s.push_str(&format!("db{}0FFh ,{}'a'", sp(rng), sp(rng))),
        }
        if rng.chance(1, 5) {
            s.push_str(&sp(rng));
            s.push_str(block_comment(rng));
            if rng.chance(1, 2) {
                s.push_str(&format!("{}NOP", sp(rng)));
            }
        }
        if rng.chance(1, 5) {
            s.push_str(&sp(rng));
            s.push_str(rng.pick_str(&["// pasfmt off", "// note", "// pasfmt on", ";  comment"]));
        }
        s.push('\n');
        if rng.chance(1, 6) {
            s.push_str(&sp(rng));
            s.push_str(rng.pick_str(&["// pasfmt off", "// pasfmt on", "{pasfmt off}", "{pasfmt on}", "// n"]));
            s.push('\n');
        }
    }
    s.push_str(if begin_wrapped { "  end;\nend;\n" } else { "end;\n" });
    if rng.chance(1, 2) {
        s.push_str("y  :=  2 ;\n");
    }
    s
}

/// `c11mini` family: one small statement or declaration inside a minimal frame, with comments at the places where a
/// line's width is decided by something that cannot move (after `begin`/`then`/`do`/`else`/`of`, after a separator, at
/// the end of the statement).  Small enough that every wrap column can be tried (full sweep of C11's three clauses).
pub fn c11_mini(rng: &mut Rng) -> String {
    fn com(rng: &mut Rng, line_ok: bool) -> String {
        match rng.range(0, 5) {
            0 | 1 if line_ok => format!(" // {}\n", rng.pick_str(&["note", "note this", "a much longer remark here", "x"])),
            2 => format!(" {{{}}} ", rng.pick_str(&["n", "note", "some words"])),
            _ => " ".to_string(),
        }
    }
    fn name(rng: &mut Rng) -> &'static str {
        rng.pick_str(&["A", "Foo", "Alpha", "SomeLongerName", "Value1", "B"])
    }
    fn cond(rng: &mut Rng) -> String {
        match rng.range(0, 3) {
            0 => name(rng).to_string(),
            1 => format!("{} and {}", name(rng), name(rng)),
            2 => format!("({} > {}) or {}", name(rng), name(rng), name(rng)),
            _ => format!("{}({}, {})", name(rng), name(rng), name(rng)),
        }
    }
    fn simple(rng: &mut Rng) -> String {
        match rng.range(0, 3) {
            0 => format!("{}", name(rng)),
            1 => format!("{} := {} + {}", name(rng), name(rng), name(rng)),
            2 => format!("{}({}, {}, {})", name(rng), name(rng), name(rng), name(rng)),
            _ => format!("{} := {}({})", name(rng), name(rng), name(rng)),
        }
    }
    fn block(rng: &mut Rng) -> String {
        let c1 = com(rng, true);
        let c2 = com(rng, true);
        format!("begin{}{};{}end", c1, simple(rng), c2)
    }
    fn body(rng: &mut Rng) -> String {
        if rng.chance(2, 3) {
            block(rng)
        } else {
            simple(rng)
        }
    }
    let stmt = match rng.range(0, 11) {
        0 | 1 => format!("if {} then{}{}", cond(rng), com(rng, true), body(rng)),
        2 => format!("if {} then{}{}{}else{}{}", cond(rng), com(rng, true), body(rng), com(rng, false), com(rng, true), body(rng)),
        3 => format!("while {} do{}{}", cond(rng), com(rng, true), body(rng)),
        4 => format!("for I := {} to {} do{}{}", name(rng), name(rng), com(rng, true), body(rng)),
        5 => format!("with {} do{}{}", name(rng), com(rng, true), body(rng)),
        6 => format!("case {} of{}1:{}{};{}2: {};{}end", name(rng), com(rng, true), com(rng, true), body(rng), com(rng, true), simple(rng), com(rng, true)),
        7 => format!("try{}{};{}except{}on E: Exception do{}{};{}end", com(rng, true), simple(rng), com(rng, true), com(rng, true), com(rng, true), body(rng), com(rng, true)),
        8 => format!("{}(procedure{}{})", name(rng), com(rng, true), block(rng)),
        9 => format!("repeat{}{};{}until {}", com(rng, true), simple(rng), com(rng, true), cond(rng)),
        10 => format!("{} :={}{}", name(rng), com(rng, true), simple(rng)),
        _ => simple(rng),
    };
    let tail = com(rng, true);
    match rng.range(0, 3) {
        0 => format!("begin\n{};{}end;\n", stmt, tail),
        1 => format!("procedure P;\nbegin\n{};{}end;\n", stmt, tail),
        2 => format!("procedure P({}: Integer;{}{}: string);{}begin\n{};\nend;\n", name(rng), com(rng, true), name(rng), com(rng, true), stmt),
        _ => format!("begin\n  begin\n{};{}  end;\nend;\n", stmt, tail),
    }
}

/// the `i`-th token sequence in the enumeration of all sequences over SOUP (length 1, then 2, then 3, ...)
pub fn soup_enum(mut i: usize) -> String {
    let n = SOUP.len();
    let mut len = 1;
    let mut block = n;
    while i >= block {
        i -= block;
        len += 1;
        block *= n;
    }
    let mut parts = vec![];
    for _ in 0..len {
        parts.push(SOUP[i % n]);
        i /= n;
    }
    parts.join(" ")
}


/// C06 family: two renderings of the same program that differ only in horizontal whitespace, indentation and in
/// whether a gap between two non-comment tokens is spaces or a single line break.  Blank-line groups and every
/// gap that touches a comment/directive are decided by `shared` (identical in both renderings).
pub fn render_relayout(p: &Program, shared_seed: u64, private: &mut Rng, with_comments: bool) -> String {
    let mut shared = Rng(shared_seed);
    let mut s = String::new();
    let mut prev: Option<String> = None;
    for t in p.toks.iter() {
        if let Some(pv) = &prev {
            // shared decisions first (always consume the same amount of shared randomness)
            let blank = shared.chance(1, 12);
            let comment = if with_comments && shared.chance(1, 16) { Some(shared.below(6)) } else { None };
            let c_text: String = match comment {
                Some(0) | Some(1) => format!(" {} ", shared.pick_str(COMMENTS_INLINE)),
                Some(2) | Some(3) => format!(" {}\n  ", shared.pick_str(COMMENTS_LINE)),
                Some(4) => format!("\n{}\n", shared.pick_str(COMMENTS_MULTI)),
                Some(_) => format!(" {} ", shared.pick_str(DIRECTIVES)),
                None => String::new(),
            };
            if comment.is_some() {
                s.push_str(&c_text);
            } else if blank {
                let k = private.range(2, 3);
                s.push_str(&"\n".repeat(k));
                s.push_str(&" ".repeat(private.below(6)));
            } else {
                let c = private.below(100);
                let mut gap = String::new();
                if c < 15 && !needs_sep(pv, &t.text) {
                } else if c < 55 {
                    gap.push(' ');
                } else if c < 65 {
                    gap.push_str(&" ".repeat(private.range(2, 7)));
                } else if c < 70 {
                    gap.push('\t');
                } else {
                    // a continuation line is flush left about as often as it is indented (the spaces before a token that
                    // gets unwrapped then come from nowhere)
                    gap.push('\n');
                    gap.push_str(&" ".repeat(if private.chance(1, 3) { 0 } else { private.below(9) }));
                }
                if gap.is_empty() && needs_sep(pv, &t.text) {
                    gap.push(' ');
                }
                s.push_str(&gap);
            }
        }
        s.push_str(&t.text);
        prev = Some(t.text.clone());
    }
    s.push_str(if private.chance(1, 2) { "\n" } else { "" });
    s
}
