mod gen;
mod oracles;
mod proto;
mod rng;
mod stages;

use gen::*;
use rng::Rng;
use std::collections::{BTreeMap, HashSet};
use std::io::Write;
use std::sync::atomic::{AtomicUsize, Ordering};
use std::sync::{Arc, Mutex};
use std::time::{Duration, Instant};

#[derive(Clone, Debug)]
pub struct Case {
    pub stream: String,
    pub family: String,
    pub input: String,
    pub cfg: Cfg,
    pub cursors: Vec<u32>,
    pub oracles: Vec<String>,
    pub well_formed: bool,
    pub w2: u32,
    pub input2: Option<String>,
    pub marks: Vec<Mark>,
    pub texts: Vec<String>,
}

#[derive(Clone, Debug)]
pub struct CaseOut {
    /// model input line (without stream prefix handled by caller)
    pub in_line: String,
    /// expected model output
    pub exp_line: String,
    /// implementation-level failures of direct oracles (reported separately from model differences)
    pub oracle_failures: Vec<String>,
    pub stats: BTreeMap<String, usize>,
}

fn bump(m: &mut BTreeMap<String, usize>, k: &str, n: usize) {
    *m.entry(k.to_string()).or_insert(0) += n;
}

fn run_case(c: &Case) -> CaseOut {
    let mut stats = BTreeMap::new();
    let mut oracle_failures = vec![];
    match c.stream.as_str() {
        "lex" => {
            use pasfmt_core::prelude::*;
            let toks = DelphiLexer {}.lex(&c.input);
            let mut parts = vec![];
            let mut total = 0usize;
            for t in &toks {
                let k = format!("{:?}", t.get_token_type());
                bump(&mut stats, &format!("kind:{}", k.split('(').next().unwrap()), 1);
                parts.push(format!("{}:{}:{}", t.get_leading_whitespace().len(), t.get_content().len(), k));
                total += t.get_leading_whitespace().len() + t.get_content().len();
            }
            if total != c.input.len() {
                oracle_failures.push("lex: token lengths do not sum to the input length".to_string());
            }
            let is_blank = |ch: char| ch <= ' ' || ch == '\u{3000}';
            for (i, t) in toks.iter().enumerate() {
                let last = i + 1 == toks.len();
                let is_eof = matches!(t.get_token_type(), RawTokenType::Eof);
                if is_eof != last {
                    oracle_failures.push("lex: end-of-file token is not exactly the last token".to_string());
                }
                if !t.get_leading_whitespace().chars().all(is_blank) {
                    oracle_failures.push("lex: leading whitespace contains a non-blank character".to_string());
                }
                if !is_eof && t.get_content().chars().next().map_or(true, is_blank) {
                    oracle_failures.push("lex: token content is empty or starts with a blank".to_string());
                }
                if is_eof && !t.get_content().is_empty() {
                    oracle_failures.push("lex: end-of-file token has content".to_string());
                }
            }
            // tokens built from the lexical rules (`tokfam`): the scan must give exactly these tokens with these classes
            if c.family == "tokfam" && !c.texts.is_empty() {
                let real: Vec<&RawToken> = toks.iter().filter(|t| !matches!(t.get_token_type(), RawTokenType::Eof)).collect();
                if real.len() != c.texts.len() {
                    oracle_failures.push(format!("lex: {} tokens built from the lexical rules scan as {} tokens", c.texts.len(), real.len()));
                } else {
                    for (t, e) in real.iter().zip(c.texts.iter()) {
                        let (class, text) = e.split_once('\u{1}').unwrap();
                        let k = t.get_token_type();
                        let class_ok = match class {
                            "ident" => matches!(k, RawTokenType::Identifier | RawTokenType::IdentifierOrKeyword(_)),
                            "plainident" => matches!(k, RawTokenType::Identifier),
                            "kw" => matches!(k, RawTokenType::Keyword(_) | RawTokenType::IdentifierOrKeyword(_)),
                            "num" => matches!(k, RawTokenType::NumberLiteral(_)),
                            "text" => matches!(k, RawTokenType::TextLiteral(x) if x != TextLiteralKind::Unterminated),
                            "comment" => matches!(k, RawTokenType::Comment(_)),
                            "dir" => matches!(k, RawTokenType::CompilerDirective),
                            "op" => matches!(k, RawTokenType::Op(_)),
                            c if c.starts_with("cdir:") => format!("{:?}", k) == format!("ConditionalDirective({})", &c[5..]),
                            _ => true,
                        };
                        if t.get_content() != text {
                            oracle_failures.push(format!("lex: the {} token {:?} is scanned as {:?}", class, text, t.get_content()));
                            break;
                        }
                        if !class_ok {
                            oracle_failures.push(format!("lex: the {} token {:?} is scanned with kind {:?}", class, text, k));
                            break;
                        }
                    }
                }
            }
            // independent oracles for the boundary clauses: (a) both identifier routines agree at every
            // identifier start (hook), (b) position/length independence: an identifier, keyword or number
            // scanned on its own (followed by a blank) is one token of the same length, and contains no blank
            {
                let mut off = 0usize;
                let mut prev_dot = false;
                let mut in_asm = false;
                for t in toks.iter() {
                    let ws = t.get_leading_whitespace().len();
                    let content = t.get_content();
                    let start = off + ws;
                    let kind = t.get_token_type();
                    let wordlike = matches!(kind, RawTokenType::Identifier | RawTokenType::Keyword(_) | RawTokenType::IdentifierOrKeyword(_) | RawTokenType::NumberLiteral(_));
                    if wordlike && !in_asm {
                        if matches!(kind, RawTokenType::Identifier | RawTokenType::Keyword(_) | RawTokenType::IdentifierOrKeyword(_)) && !content.starts_with('&') {
                            if content.chars().any(is_blank) {
                                oracle_failures.push("lex: an identifier/keyword token contains a blank character".to_string());
                            }
                            let first_len = content.chars().next().map_or(1, |ch| ch.len_utf8());
                            let a = pasfmt_core::prelude::verif_find_identifier_end(0, &c.input, start + first_len);
                            let b = pasfmt_core::prelude::verif_find_identifier_end(1, &c.input, start + first_len);
                            if let (Some(a), Some(b)) = (a, b) {
                                bump(&mut stats, "ident_routines_compared", 1);
                                if a != b {
                                    oracle_failures.push(format!("lex: the generic and the AVX2 identifier routine disagree ({} vs {})", a, b));
                                }
                            }
                        }
                        if !prev_dot {
                            let iso = format!("{} ", content);
                            let t2 = DelphiLexer {}.lex(&iso);
                            let same_kind = format!("{:?}", t2[0].get_token_type()) == format!("{:?}", kind);
                            if t2[0].get_content() != content || !same_kind {
                                oracle_failures.push("lex: a word/number token scanned on its own has a different boundary or kind".to_string());
                            }
                        }
                    }
                    if matches!(kind, RawTokenType::Keyword(KeywordKind::Asm)) {
                        in_asm = true;
                    }
                    if in_asm && matches!(kind, RawTokenType::Keyword(KeywordKind::End)) {
                        in_asm = false;
                    }
                    if !matches!(kind, RawTokenType::Comment(_) | RawTokenType::CompilerDirective | RawTokenType::ConditionalDirective(_)) {
                        prev_dot = matches!(kind, RawTokenType::Op(OperatorKind::Dot));
                    }
                    off = start + content.len();
                }
            }
            bump(&mut stats, "tokens", toks.len());
            CaseOut { in_line: format!("lex\t{}", proto::hex(c.input.as_bytes())), exp_line: parts.join(" "), oracle_failures, stats }
        }
        "fmt" => {
            // cursors that make the implementation panic are isolated one by one and reported;
            // the rest of the case continues without them
            let mut cursors = c.cursors.clone();
            if !cursors.is_empty() {
                let all = cursors.clone();
                let ok_all = std::panic::catch_unwind(std::panic::AssertUnwindSafe(|| stages::run_real(&c.input, &c.cfg, &all))).is_ok();
                if !ok_all {
                    let mut good = vec![];
                    for cu in &all {
                        let one = vec![*cu];
                        if std::panic::catch_unwind(std::panic::AssertUnwindSafe(|| stages::run_real(&c.input, &c.cfg, &one))).is_ok() {
                            good.push(*cu);
                        } else {
                            // classify: is the cursor in the same-line gap before a token that spans lines?
                            let toks = oracles::lex_offsets(&c.input);
                            let mut class = "other position";
                            for (ti, t) in toks.iter().enumerate() {
                                let cu = *cu as usize;
                                // inside the literal, at its end, or at its first character: the cursor belongs to the literal
                                if cu >= t.start + t.ws_len && cu <= t.end && matches!(t.kind, pasfmt_core::prelude::RawTokenType::TextLiteral(pasfmt_core::prelude::TextLiteralKind::MultiLine)) {
                                    class = "inside a multi-line string literal";
                                    break;
                                }
                                if cu >= t.start && cu < t.start + t.ws_len.max(1) && cu <= t.start + t.ws_len {
                                    // the token itself or a later token on the same output line spans lines
                                    let spans = toks[ti..].iter().take(12).any(|x| c.input[x.start + x.ws_len..x.end].contains('\n'));
                                    if spans {
                                        class = "whitespace before a line-spanning token or a token followed by one";
                                    }
                                    break;
                                }
                            }
                            oracle_failures.push(format!("c15: PANIC while relocating cursor {} ({})", cu, class));
                        }
                    }
                    cursors = good;
                }
            }
            let c = &Case { cursors: cursors.clone(), ..c.clone() };
            let snap = stages::run_stages(&c.input, &c.cfg, &c.cursors);
            let (real_out, _real_cur) = stages::run_real(&c.input, &c.cfg, &c.cursors);
            if real_out != snap.output {
                oracle_failures.push("glue: stage-by-stage output differs from make_formatter().format()".to_string());
            }
            // direct C01 oracle on the real entry point's output
            {
                let strip = |b: &[u8]| -> Vec<u8> {
                    let s = String::from_utf8_lossy(b);
                    s.chars().filter(|c| !(*c <= ' ' || *c == '\u{3000}')).map(|c| c.to_ascii_lowercase()).collect::<String>().into_bytes()
                };
                if strip(&real_out) != strip(c.input.as_bytes()) {
                    oracle_failures.push("c01: non-blank characters of the output differ from the input's".to_string());
                } else if let Ok(o) = std::str::from_utf8(&real_out) {
                    oracle_failures.extend(oracles::c01_case_positions(&c.input, o));
                }
            }
            for o in &c.oracles {
                let ns0 = stages::LOG_NO_SOLUTION.load(std::sync::atomic::Ordering::Relaxed);
                let f = match o.as_str() {
                    "c04" => oracles::c04_work(&c.input, &c.cfg),
                    "c02" if c.well_formed => oracles::c02_rescan(&c.input, &c.cfg),
                    "c03" if c.well_formed => oracles::c03_idempotent(&c.input, &c.cfg),
                    "c07" => oracles::c07_regions(&c.input, &c.cfg, c.well_formed),
                    "c08" => oracles::c08_canonical(&c.input, &c.cfg, c.well_formed),
                    "c09" => oracles::c09_line_endings(&c.input, &c.cfg),
                    "c10" if c.well_formed => oracles::c10_indentation(&c.input, &c.cfg),
                    "c11" if c.well_formed && c.family == "c11mini" => oracles::c11_full_sweep(&c.input, &c.cfg),
                    "c11" if c.well_formed && c.family == "boundary" => {
                        let mut v = oracles::c11_wrap_column(&c.input, &c.cfg, c.cfg.wrap_column, c.w2);
                        v.extend(oracles::c11_sweep(&c.input, &c.cfg));
                        v.dedup();
                        v
                    }
                    "c11" if c.well_formed => oracles::c11_wrap_column(&c.input, &c.cfg, c.cfg.wrap_column, c.w2),
                    "c12" => oracles::c12_multiline_strings(&c.input, &c.cfg),
                    "c14" => oracles::c14_lines(&c.input, c.well_formed),
                    "c15" => oracles::c15_cursors(&c.input, &c.cfg, &c.cursors),
                    "c06" => match &c.input2 {
                        Some(b) => oracles::c06_relayout(&c.input, b, &c.cfg),
                        None => vec![],
                    },
                    "c05" if !c.marks.is_empty() => oracles::c05_structure(&c.input, &c.cfg, &c.marks, &c.texts),
                    _ => vec![],
                };
                bump(&mut stats, &format!("oracle_runs:{}", o), 1);
                // a layout failure on a case in which the wrapper gave up on a line ("No solution found": the line keeps
                // the whitespace it had) is tagged, so that the finding about such lines can be told from others
                let ns1 = stages::LOG_NO_SOLUTION.load(std::sync::atomic::Ordering::Relaxed);
                let f: Vec<String> = if ns1 > ns0 { f.into_iter().map(|x| format!("{x} [wrapper found no solution for a line]")).collect() } else { f };
                oracle_failures.extend(f);
            }
            bump(&mut stats, "tokens", snap.raw.len());
            bump(&mut stats, "lines", snap.lines.len());
            bump(&mut stats, "ignored_tokens", snap.marks.len());
            bump(&mut stats, "log_missing_break", snap.log_missing_break);
            bump(&mut stats, "log_no_solution", snap.log_no_solution);
            bump(&mut stats, "log_iter_limit", snap.log_iter_limit);
            bump(&mut stats, "content_changed_by_rules", snap.raw.iter().zip(snap.contents_pre.iter()).filter(|(a, b)| &a.1 != *b).count());
            bump(&mut stats, "content_changed_by_wrapper", snap.contents_pre.iter().zip(snap.contents_post.iter()).filter(|(a, b)| a != b).count());
            let raw_contents: Vec<Vec<u8>> = snap.raw.iter().map(|r| r.1.clone()).collect();
            // non-ASCII first characters of line comments that `char::is_alphanumeric` accepts
            let mut alnum: Vec<String> = vec![];
            for (_, content, kind) in &snap.raw {
                if kind.starts_with("Comment(") {
                    if let Ok(s) = std::str::from_utf8(content) {
                        if let Some(rest) = s.strip_prefix("//") {
                            let rest = rest.strip_prefix('/').unwrap_or(rest);
                            if let Some(ch) = rest.chars().next() {
                                if !ch.is_ascii() && ch.is_alphanumeric() {
                                    let h = proto::hex(ch.to_string().as_bytes());
                                    if !alnum.contains(&h) {
                                        alnum.push(h);
                                    }
                                }
                            }
                        }
                    }
                }
            }
            let in_line = format!(
                "fmt\t{}\t{}\t{}\t{}\t{}\t{}\t{}\t{}\t{}\t{}\t{}\t{}",
                c.cfg.to_proto(),
                proto::hex(c.input.as_bytes()),
                proto::list(&snap.kinds),
                proto::lines(&snap.lines),
                proto::fmts(&snap.fmt_post),
                proto::changed(&snap.contents_pre, &snap.contents_post),
                proto::list(&alnum),
                proto::list(&c.cursors),
                if c.well_formed { "1" } else { "0" },
                proto::list(&snap.parser_kinds),
                proto::lines(&snap.parser_lines),
                proto::list(&snap.solutions.iter().map(|(p, l, s)| format!("{}:{}:{}", p, l, s)).collect::<Vec<_>>()),
            );
            // kinds changed by the consolidators (index:kind), relative to the parser's kinds
            let ck: Vec<String> = snap.parser_kinds.iter().zip(snap.kinds.iter()).enumerate().filter(|(_, (a, b))| a != b).map(|(i, (_, b))| format!("{}:{}", i, b)).collect();
            bump(&mut stats, "kinds_changed_by_consolidators", ck.len());
            bump(&mut stats, "lines_changed_by_consolidators", snap.parser_lines.iter().zip(snap.lines.iter()).filter(|(a, b)| a != b).count());
            let exp_line = format!(
                "ck={}\tcl={}\twp={}\twcn={}\tsx=1\tmarks={}\tlv={}\tpre={}\tprec={}\tkr=1\twc=1\tnd=1\trx=1\tcur={}\tout={}",
                proto::list(&ck),
                proto::lines(&snap.lines),
                proto::fmts(&snap.fmt_post),
                proto::changed(&snap.contents_pre, &snap.contents_post),
                proto::list(&snap.marks),
                proto::lines(&snap.lines_voided),
                proto::fmts(&snap.fmt_pre),
                proto::changed(&raw_contents, &snap.contents_pre),
                proto::list(&snap.cursors_out),
                proto::hex(&snap.output),
            );
            CaseOut { in_line, exp_line, oracle_failures, stats }
        }
        "parse" => {
            use pasfmt_core::prelude::*;
            use pasfmt_core::verif::ParserOp;
            let raw = DelphiLexer {}.lex(&c.input);
            let kinds: Vec<String> = raw.iter().map(|t| format!("{:?}", t.get_token_type())).collect();
            let n = raw.len();
            pasfmt_core::verif::start();
            let (lines, _tokens) = DelphiLogicalLineParser {}.parse(raw);
            let ops = pasfmt_core::verif::take();
            // group ops by pass
            let mut passes: Vec<(Vec<usize>, Vec<String>)> = vec![];
            let mut n_ops = 0usize;
            for op in &ops {
                match op {
                    ParserOp::PassStart(p) => passes.push((p.clone(), vec![])),
                    ParserOp::PassEnd => {}
                    other => {
                        n_ops += 1;
                        let enc = match other {
                            ParserOp::Next => "N".to_string(),
                            ParserOp::Skip => "S".to_string(),
                            ParserOp::FinishEmpty => "E".to_string(),
                            ParserOp::Finish(p, l) => format!("F{}:{}", p.map_or("-".to_string(), |(a, b)| format!("{}.{}", a, b)), l),
                            ParserOp::MarkUnfinished => "U".to_string(),
                            ParserOp::PushLine(a, b) => format!("P{}.{}", a, b),
                            ParserOp::PopLine => "p".to_string(),
                            ParserOp::PushLast => "L".to_string(),
                            ParserOp::PopLast => "l".to_string(),
                            ParserOp::SetType(t) => format!("T{}", t),
                            _ => unreachable!(),
                        };
                        if let Some(last) = passes.last_mut() {
                            last.1.push(enc);
                        }
                    }
                }
            }
            bump(&mut stats, "tokens", n);
            bump(&mut stats, "passes", passes.len());
            bump(&mut stats, "machine_ops", n_ops);
            bump(&mut stats, "lines", lines.len());
            // polynomial-work counters (C04): passes <= 1 + number of else-type directives; ops linear per pass
            let n_else = kinds.iter().filter(|k| k.starts_with("ConditionalDirective(Else")).count();
            let n_if = kinds.iter().filter(|k| k.starts_with("ConditionalDirective(If")).count();
            if passes.len() > 1 + n_else + n_if {
                oracle_failures.push(format!("c04: {} conditional-directive passes for {} else-type and {} if-type directives", passes.len(), n_else, n_if));
            }
            if n_ops > 40 * (n + 1) * passes.len().max(1) {
                oracle_failures.push(format!("c04: {} parser primitive operations for {} tokens and {} passes", n_ops, n, passes.len()));
            }
            oracle_failures.extend(oracles::c14_lines(&c.input, c.well_formed));
            let snap_lines: Vec<stages::LineSnap> = lines
                .iter()
                .map(|l| stages::LineSnap {
                    line_type: format!("{:?}", l.get_line_type()),
                    level: l.get_level(),
                    parent: l.get_parent().map(|p| (p.line_index, p.global_token_index)),
                    tokens: l.get_tokens().clone(),
                })
                .collect();
            let passes_in = if passes.is_empty() {
                "-".to_string()
            } else {
                passes.iter().map(|(p, o)| format!("{}|{}", if p.is_empty() { "-".to_string() } else { p.iter().map(|x| x.to_string()).collect::<Vec<_>>().join(",") }, proto::list(o))).collect::<Vec<_>>().join(";")
            };
            let passes_exp = if passes.is_empty() {
                "-".to_string()
            } else {
                passes.iter().map(|(p, _)| if p.is_empty() { "-".to_string() } else { p.iter().map(|x| x.to_string()).collect::<Vec<_>>().join(",") }).collect::<Vec<_>>().join(";")
            };
            CaseOut {
                in_line: format!("parse\t{}\t{}", proto::list(&kinds), passes_in),
                exp_line: format!("passes={}\tlines={}", passes_exp, proto::lines(&snap_lines)),
                oracle_failures,
                stats,
            }
        }
        "wsearch" => {
            // the whole wrapper stage against the Lean model with the model of the search inside: solutions applied (in
            // order), final counters and changed contents
            let snap = stages::run_stages(&c.input, &c.cfg, &[]);
            let mut alnum: Vec<String> = vec![];
            for (_, content, kind) in &snap.raw {
                if kind.starts_with("Comment(") {
                    if let Ok(s) = std::str::from_utf8(content) {
                        if let Some(rest) = s.strip_prefix("//") {
                            let rest = rest.strip_prefix('/').unwrap_or(rest);
                            if let Some(ch) = rest.chars().next() {
                                if !ch.is_ascii() && ch.is_alphanumeric() {
                                    let h = proto::hex(ch.to_string().as_bytes());
                                    if !alnum.contains(&h) {
                                        alnum.push(h);
                                    }
                                }
                            }
                        }
                    }
                }
            }
            bump(&mut stats, "tokens", snap.raw.len());
            bump(&mut stats, "lines", snap.lines.len());
            bump(&mut stats, "solutions", snap.solutions.len());
            bump(&mut stats, "log_no_solution", snap.log_no_solution);
            bump(&mut stats, "log_iter_limit", snap.log_iter_limit);
            let in_line = format!(
                "wsearch\t{}\t{}\t{}\t{}\t{}",
                c.cfg.to_proto(),
                proto::hex(c.input.as_bytes()),
                proto::list(&snap.kinds),
                proto::lines(&snap.lines),
                proto::list(&alnum),
            );
            let exp_line = format!(
                "ws={}\twp={}\twcn={}",
                proto::list(&snap.solutions.iter().map(|(p, l, s)| format!("{}:{}:{}", p, l, s)).collect::<Vec<_>>()),
                proto::fmts(&snap.fmt_post),
                proto::changed(&snap.contents_pre, &snap.contents_post),
            );
            CaseOut { in_line, exp_line, oracle_failures, stats }
        }
        "full" => {
            // the whole formatter against the closed Lean model: input bytes and configuration in, output bytes out
            let (real_out, _) = stages::run_real(&c.input, &c.cfg, &[]);
            let mut alnum: Vec<String> = vec![];
            let lexed = {
                use pasfmt_core::prelude::*;
                DelphiLexer {}.lex(&c.input)
            };
            for t in lexed {
                use pasfmt_core::prelude::*;
                if matches!(t.get_token_type(), RawTokenType::Comment(_)) {
                    if let Some(rest) = t.get_content().strip_prefix("//") {
                        let rest = rest.strip_prefix('/').unwrap_or(rest);
                        if let Some(ch) = rest.chars().next() {
                            if !ch.is_ascii() && ch.is_alphanumeric() {
                                let h = proto::hex(ch.to_string().as_bytes());
                                if !alnum.contains(&h) {
                                    alnum.push(h);
                                }
                            }
                        }
                    }
                }
            }
            bump(&mut stats, "input_bytes_full", c.input.len());
            if let Some(b) = &c.input2 {
                // a second layout of the same tokens: both through the closed model, and the premises of the layout
                // theorem evaluated on the pair by the driver
                let (real_out2, _) = stages::run_real(b, &c.cfg, &[]);
                let lexed2 = {
                    use pasfmt_core::prelude::*;
                    DelphiLexer {}.lex(b)
                };
                for t in lexed2 {
                    use pasfmt_core::prelude::*;
                    if matches!(t.get_token_type(), RawTokenType::Comment(_)) {
                        if let Some(rest) = t.get_content().strip_prefix("//") {
                            let rest = rest.strip_prefix('/').unwrap_or(rest);
                            if let Some(ch) = rest.chars().next() {
                                if !ch.is_ascii() && ch.is_alphanumeric() {
                                    let h = proto::hex(ch.to_string().as_bytes());
                                    if !alnum.contains(&h) {
                                        alnum.push(h);
                                    }
                                }
                            }
                        }
                    }
                }
                return CaseOut {
                    in_line: format!("full2\t{}\t{}\t{}\t{}", c.cfg.to_proto(), proto::hex(c.input.as_bytes()), proto::hex(b.as_bytes()), proto::list(&alnum)),
                    exp_line: format!("out={}\tout2={}", proto::hex(&real_out), proto::hex(&real_out2)),
                    oracle_failures,
                    stats,
                };
            }
            CaseOut {
                in_line: format!("full\t{}\t{}\t{}", c.cfg.to_proto(), proto::hex(c.input.as_bytes()), proto::list(&alnum)),
                exp_line: format!("out={}", proto::hex(&real_out)),
                oracle_failures,
                stats,
            }
        }
        "pfull" => {
            // the whole logical-line parser (control flow included) against the Lean model: raw kinds and, for the
            // assembler-instruction splitter, whether a token's leading whitespace holds a line break
            use pasfmt_core::prelude::*;
            let raw = DelphiLexer {}.lex(&c.input);
            let kinds: Vec<String> = raw.iter().map(|t| format!("{:?}", t.get_token_type())).collect();
            let nl: String = raw.iter().map(|t| if t.get_leading_whitespace().contains(['\r', '\n']) { '1' } else { '0' }).collect();
            let n = raw.len();
            let (lines, tokens) = DelphiLogicalLineParser {}.parse(raw);
            let pk: Vec<String> = tokens.iter().map(|t| format!("{:?}", t.get_token_type())).collect();
            let snap_lines: Vec<stages::LineSnap> = lines
                .iter()
                .map(|l| stages::LineSnap {
                    line_type: format!("{:?}", l.get_line_type()),
                    level: l.get_level(),
                    parent: l.get_parent().map(|p| (p.line_index, p.global_token_index)),
                    tokens: l.get_tokens().clone(),
                })
                .collect();
            bump(&mut stats, "tokens", n);
            bump(&mut stats, "lines", lines.len());
            CaseOut {
                in_line: format!("pfull\t{}\t{}", proto::list(&kinds), if nl.is_empty() { "-".to_string() } else { nl }),
                exp_line: format!("pk={}\tpl={}", proto::list(&pk), proto::lines(&snap_lines)),
                oracle_failures,
                stats,
            }
        }
        other => panic!("unknown stream {other}"),
    }
}

/// `boundary` family: a wrap column within two columns of the width of one of the lines the formatter produces
/// at a generous width (preferring lines that end in a line comment), so that exact-fit decisions are exercised.
fn boundary_width(input: &str, cfg: &Cfg, r: &mut Rng) -> u32 {
    let mut wide = cfg.clone();
    wide.wrap_column = 200;
    let (tx, rx) = std::sync::mpsc::channel();
    let inp = input.to_string();
    std::thread::spawn(move || {
        let res = std::panic::catch_unwind(|| stages::run_real(&inp, &wide, &[]).0);
        let _ = tx.send(res.ok());
    });
    let out = match rx.recv_timeout(Duration::from_secs(5)) {
        Ok(Some(o)) => String::from_utf8_lossy(&o).to_string(),
        _ => return *r.pick(&[20u32, 40, 60, 80]),
    };
    let lines: Vec<&str> = out.lines().filter(|l| l.chars().count() >= 8).collect();
    if lines.is_empty() {
        return *r.pick(&[20u32, 40, 60, 80]);
    }
    let commented: Vec<&&str> = lines.iter().filter(|l| l.contains("//")).collect();
    let line: &str = if !commented.is_empty() && r.chance(2, 3) { **r.pick(&commented) } else { *r.pick(&lines) };
    let l = line.chars().count() as i64;
    let d = *r.pick(&[-3i64, -2, -1, -1, 0, 0, 1, 1, 2]);
    (l + d).max(1) as u32
}

/// `condinline` family: a statement whose beginning is switched by an inline conditional directive, so that the two
/// conditional-directive passes lay out logical lines that share most of their tokens but start at different columns;
/// the wrap column lies around the two widths, so one pass breaks where the other continues.
fn cond_inline_case(r: &mut Rng) -> (String, Cfg) {
    let mut cfg = Cfg::random(r);
    if cfg.tab_width == 0 || cfg.tab_width > 8 {
        cfg.tab_width = 2;
    }
    if cfg.cont > 8 {
        cfg.cont = 2;
    }
    let word = |r: &mut Rng, c: char| -> String { std::iter::repeat(c).take(r.range(3, 60)).collect() };
    let call = match r.below(4) {
        0 => format!("Call({}, {})", word(r, 'a'), word(r, 'b')),
        1 => format!("Obj.Method({} + {}, {})", word(r, 'a'), word(r, 'b'), word(r, 'c')),
        2 => format!("{} + {} * {}", word(r, 'a'), word(r, 'b'), word(r, 'c')),
        _ => format!("Call({}).Next({}, {})", word(r, 'a'), word(r, 'b'), word(r, 'c')),
    };
    let (p1, p2) = *r.pick(&[
        ("Target := ", ""),
        ("Result := ", "Other := "),
        ("if Condition then ", ""),
        ("", "TargetVariable := "),
        ("X := Y + ", "X := "),
    ]);
    let depth = r.range(1, 3);
    let mut s = String::from("procedure P;\nbegin\n");
    for d in 1..depth {
        s.push_str(&"  ".repeat(d));
        s.push_str("begin\n");
    }
    let ind = "  ".repeat(depth);
    let stmt = if p2.is_empty() {
        format!("{ind}{{$IFDEF A}} {p1}{{$ENDIF}} {call};\n")
    } else {
        format!("{ind}{{$IFDEF A}} {p1}{{$ELSE}} {p2}{{$ENDIF}} {call};\n")
    };
    if r.chance(1, 3) {
        s.push_str(&format!("{ind}Before := 1;\n"));
    }
    s.push_str(&stmt);
    if r.chance(1, 3) {
        s.push_str(&format!("{ind}After := 2;\n"));
    }
    for d in (1..depth).rev() {
        s.push_str(&"  ".repeat(d));
        s.push_str("end;\n");
    }
    s.push_str("end;\n");
    // widths of the two variants of the statement line under this configuration
    let unit = if cfg.use_tabs { 1 } else { cfg.tab_width as usize };
    let base = unit * depth + call.len() + 1;
    let (l1, l2) = (base + p1.len(), base + p2.len());
    let (lo, hi) = (l1.min(l2), l1.max(l2));
    cfg.wrap_column = (lo as i64 - 2 + r.below(hi - lo + 5) as i64).max(1) as u32;
    (s, cfg)
}

/// `mlscancel` family: a multi-line string followed by a tail on the closing-quote line, laid out so that the
/// re-indentation keeps the literal's total byte length while moving the closing quotes (an emptied blank-only line or a
/// dropped CR cancels the added indentation), with a wrap column between the old and the new width of that line.
/// The final indentation is read off a first formatting run.
fn mls_cancel_case(r: &mut Rng) -> (String, Cfg) {
    let mut cfg = Cfg::random(r);
    cfg.use_tabs = false;
    cfg.fmt_mls = true;
    if cfg.tab_width == 0 || cfg.tab_width > 8 {
        cfg.tab_width = 2;
    }
    if cfg.cont > 8 {
        cfg.cont = 2;
    }
    let k = r.range(1, 3);
    let tail_len = r.range(40, 100);
    let mut tail = String::from(r.pick_str(&[".Format([", " + Concat(", ".Replace("]));
    let mut i = 0;
    while tail.len() < tail_len {
        if i > 0 {
            tail.push_str(", ");
        }
        tail.push_str(r.pick_str(&["SomeOtherFunction(Argument1, Argument2)", "Another", "BBBBBBBBBBBBBBB", "YetAnotherArgument", "AndMore", "More", "X"]));
        i += 1;
    }
    tail.push_str(if tail.starts_with(".Format") { "]);" } else { ");" });
    let build = |ind: usize, blank: Option<usize>, nl: &str| -> String {
        let pad = " ".repeat(ind);
        let mut s = format!("procedure Foo;{nl}begin{nl}  A :={nl}{pad}'''{nl}");
        for j in 0..k {
            s.push_str(&format!("{pad}line{j}{nl}"));
            if j == 0 {
                if let Some(b) = blank {
                    s.push_str(&" ".repeat(b));
                    s.push_str(nl);
                }
            }
        }
        s.push_str(&format!("{pad}'''{tail}{nl}end;{nl}"));
        s
    };
    // final indentation of the closing quotes at a generous width
    let mut wide = cfg.clone();
    wide.wrap_column = 400;
    wide.crlf = false;
    let probe = build(4, None, "\n");
    let out = std::panic::catch_unwind(|| stages::run_real(&probe, &wide, &[]).0).ok().map(|o| String::from_utf8_lossy(&o).to_string()).unwrap_or_default();
    let f = out.lines().find(|l| l.trim_start().starts_with("'''") && l.contains(&tail[..6])).map(|l| l.len() - l.trim_start().len());
    let f = match f {
        Some(f) if f >= 2 => f,
        _ => return (probe, cfg),
    };
    let lines_moved = k + 1;
    let (input, d) = if r.chance(1, 2) {
        // CRLF input written with LF: every line loses one byte, so a literal one column short keeps its length
        cfg.crlf = false;
        (build(f - 1, None, "\r\n"), 1usize)
    } else {
        // a blank-only line (a prefix of the indentation) is emptied: it must hold lines_moved * d blanks
        let d = r.range(1, 2);
        if f < d || lines_moved * d > f - d {
            cfg.crlf = false;
            (build(f - 1, None, "\r\n"), 1usize)
        } else {
            (build(f - d, Some(lines_moved * d), "\n"), d)
        }
    };
    let new_width = f + 3 + tail.len();
    // a wrap column that the old closing-quote line fits and the new one does not (and its neighbours)
    let w = (new_width as i64 - r.range(0, d + 1) as i64).max(1) as u32;
    cfg.wrap_column = w;
    (input, cfg)
}

/// `mlsshift` family (C03/C08, finding F33): a statement whose multi-line string is over- or under-indented in the input and is
/// followed by a tail with commas, with a wrap column next to the width of the closing-quote line before or after the
/// re-indentation: the first wrapping and the re-wrap after the re-indentation then disagree on where the tail breaks
/// (tokens that started a line are joined back, or the other way round).
/// Two multi-line literals in one logical line, the first misplaced, the second exactly where the formatter puts it
/// (an edited, previously formatted file): whether the line is re-wrapped after the string pass must not depend on
/// which of its literals was rewritten last.  The wrap column lies between the widths of the first literal's
/// closing-quote line before and after its re-indentation.
fn mls_two_case(r: &mut Rng) -> (String, Cfg) {
    let mut cfg = Cfg::random(r);
    cfg.fmt_mls = true;
    cfg.tab_width = *r.pick(&[2u8, 2, 4]);
    cfg.cont = *r.pick(&[1u8, 2, 2]);
    cfg.use_tabs = false;
    let tail_len = r.range(12, 70);
    let mut tail = String::from(r.pick_str(&[".Replace(", ".Trim(", " + Concat(", ".Format(["]));
    let closer = if tail.starts_with(".Format") { "])" } else { ")" };
    let mut i = 0;
    while tail.len() < tail_len {
        if i > 0 {
            tail.push_str(", ");
        }
        tail.push_str(r.pick_str(&["aaaaaaaa", "bbbbbbbb", "cccc", "Another", "F(Argument1, Argument2)", "X", "1"]));
        i += 1;
    }
    tail.push_str(closer);
    let n_more = r.range(1, 2);
    let mut more = String::new();
    for k in 0..n_more {
        more.push_str(&format!(" + '''\n    more{k}\n    '''"));
        if r.chance(1, 2) {
            more.push_str(r.pick_str(&[".Trim", ".ToUpper()", ""]));
        }
    }
    let (pre, post) = match r.range(0, 2) {
        0 => ("begin\n  X :=", "end;\n"),
        1 => ("procedure Foo;\nbegin\n  if A then\n  begin\n    Query.SQL.Text :=", "  end;\nend;\n"),
        _ => ("begin\n  Foo(procedure begin\n  X :=", "end);\nend;\n"),
    };
    let src = format!("{pre} '''\n    abc\n      def\n    '''{tail}{more};\n{post}");
    let mut wide = cfg.clone();
    wide.wrap_column = 400;
    let out = std::panic::catch_unwind(|| stages::run_real(&src, &wide, &[]).0).ok().map(|o| String::from_utf8_lossy(&o).to_string()).unwrap_or_default();
    // the first literal: from the line after the first line ending in ''' to the first line starting with '''
    let lines: Vec<&str> = out.split('\n').collect();
    let open = match lines.iter().position(|l| l.trim_end().ends_with("'''")) {
        Some(p) => p,
        None => return (src, cfg),
    };
    let close = match lines.iter().enumerate().position(|(i, l)| i > open && l.trim_start().starts_with("'''")) {
        Some(p) => p,
        None => return (src, cfg),
    };
    let new_width = lines[close].len();
    let delta = r.range(1, 40);
    let shift_left = r.chance(1, 4);
    let cur_ind = lines[close].len() - lines[close].trim_start().len();
    let mut res = String::new();
    for (i, l) in lines.iter().enumerate() {
        if i > open && i <= close {
            if shift_left {
                let cut = delta.min(cur_ind);
                res.push_str(&l[cut.min(l.len() - l.trim_start().len())..]);
            } else {
                res.push_str(&" ".repeat(delta));
                res.push_str(l);
            }
        } else {
            res.push_str(l);
        }
        if i + 1 < lines.len() {
            res.push('\n');
        }
    }
    let old_width = if shift_left { new_width.saturating_sub(delta.min(cur_ind)) } else { new_width + delta };
    let (lo, hi) = if old_width > new_width { (new_width, old_width - 1) } else { (old_width, new_width.saturating_sub(1).max(old_width)) };
    cfg.wrap_column = if r.chance(3, 4) { r.range(lo, hi.max(lo)) as u32 } else { (lo as i64 + r.range(0, 6) as i64 - 3).max(1) as u32 };
    (res, cfg)
}

/// A logical line for which the wrapper has no solution (a call that lost its closing parenthesis swallows the rest of
/// the routine, line comments included) with non-ASCII text of any length behind it, shifted byte by byte: whatever the
/// give-up path does with the text of the line (log it, measure it, cut it) happens at every byte offset of a
/// multi-byte character.
fn nosol_case(r: &mut Rng) -> (String, Cfg) {
    let cfg = Cfg::random(r);
    let ch = *r.pick(&["é", "ß", "こ", "設", "定", "\u{3000}", "😀", "𝔘", "ж"]);
    let pad = " ".repeat(r.range(0, 4));
    let n_comments = r.range(0, 6);
    let mut comments = String::new();
    for _ in 0..n_comments {
        let len = r.range(1, 120);
        let mut c = String::new();
        for _ in 0..len {
            c.push_str(if r.chance(4, 5) { ch } else { r.pick_str(&["a", " ", "é", "語"]) });
        }
        comments.push_str(&format!("  {} {}\n", r.pick_str(&["//", "///", "  //"]), c));
    }
    let ident = if r.chance(1, 3) { format!("Nam{}", ch.repeat(r.range(1, 200))) } else { "AFileName".to_string() };
    let lit = if r.chance(1, 3) { format!("'{}'", ch.repeat(r.range(1, 300))) } else { "'missing: '".to_string() };
    let shape = r.range(0, 3);
    let input = match shape {
        0 => format!("procedure Load;\nbegin\n  if not FileExists({ident}) then\n    Log({pad}{lit} + {ident}\n  else\n    Exit;\n{comments}  case FMode of\n    0: ;\n    1: Reload;\n  end;\nend;\n"),
        1 => format!("begin\n  x := ^ {{ {lit}\n b }}\n{pad}T{ident};\n{comments}end;\n"),
        2 => format!("type\n  X: {{$m 1}} ^T{ident} /// {lit}\n;\n{comments}"),
        _ => format!("begin\n  Foo[{pad}{lit}, {ident} // c\n{comments}  Bar;\nend.\n"),
    };
    (input, cfg)
}

fn mls_shift_case(r: &mut Rng) -> (String, Cfg) {
    let mut cfg = Cfg::random(r);
    cfg.fmt_mls = true;
    if cfg.tab_width == 0 || cfg.tab_width > 8 {
        cfg.tab_width = 2;
    }
    if cfg.cont > 8 {
        cfg.cont = 2;
    }
    if r.chance(2, 3) {
        // ordinary units, so that a tail that fits is joined rather than exploded
        cfg.tab_width = *r.pick(&[2u8, 2, 4]);
        cfg.cont = *r.pick(&[1u8, 2, 2]);
        cfg.use_tabs = false;
    }
    let tail_len = r.range(12, 60);
    let mut tail = String::from(r.pick_str(&[".Format([", " + Concat(", ".Replace(", ".Trim("]));
    let mut i = 0;
    while tail.len() < tail_len {
        if i > 0 {
            tail.push_str(", ");
        }
        tail.push_str(r.pick_str(&["aaaaaaaa", "bbbbbbbb", "cccc", "Another", "F(Argument1, Argument2)", "X", "1"]));
        i += 1;
    }
    tail.push_str(if tail.starts_with(".Format") { "]);" } else { ");" });
    // the tail may hold an anonymous routine whose body has a multi-line string of its own (a child line with a literal
    // that moves when the parent line is re-wrapped)
    if r.chance(1, 3) {
        let q = " ".repeat(r.range(0, 10));
        let call = r.pick_str(&[".ForEach(", ".Apply(A, ", " + Run("]);
        tail = format!("{call}procedure(S: string) begin Y := '''\n{q}inner\n{q}'''; end);");
    }
    let ctx = r.range(0, 3);
    let build = |pad: usize| -> String {
        let pad = " ".repeat(pad);
        let (pre, post) = match ctx {
            0 => ("begin\n  X :=".to_string(), "end;\n".to_string()),
            1 => ("procedure Foo;\nbegin\n  if A then\n  begin\n    X :=".to_string(), "  end;\nend;\n".to_string()),
            2 => ("begin\n  Foo(procedure begin\n  X :=".to_string(), "end);\nend;\n".to_string()),
            _ => ("begin\n  if A then X :=".to_string(), "end;\n".to_string()),
        };
        format!("{pre} '''\n{pad}abc\n{pad}'''{tail}\n{post}")
    };
    let mut wide = cfg.clone();
    wide.wrap_column = 400;
    let probe = build(8);
    let out = std::panic::catch_unwind(|| stages::run_real(&probe, &wide, &[]).0).ok().map(|o| String::from_utf8_lossy(&o).to_string()).unwrap_or_default();
    let unit = if cfg.use_tabs { 1 } else { 1 };
    let f = out.lines().find(|l| l.trim_start().starts_with("'''") && l.contains(&tail[..5])).map(|l| (l.len() - l.trim_start().len()) * unit);
    let f = match f {
        Some(f) => f,
        None => return (probe, cfg),
    };
    // final width of the closing-quote line in columns (tabs count one byte each in the wrapper's measure)
    let tail_first = tail.split('\n').next().unwrap_or("").len();
    let new_width = f + 3 + tail_first;
    // sometimes so far to the right that not even the first call of the tail fits behind the closing quotes before
    // the re-indentation (the whole tail moves to the next line in the first wrapping and comes back in the re-wrap)
    let far = r.chance(1, 3);
    let delta = if far { r.range(tail_first.saturating_sub(6).max(1), tail_first + 30) } else { r.range(1, 40) };
    let over = far || r.chance(2, 3) || f < delta;
    let pad = if over { f + delta } else { f - delta };
    let old_width = pad + 3 + tail_first;
    let base = if r.chance(1, 2) { new_width } else { old_width };
    let mut w = (base as i64 + r.range(0, 4) as i64 - 2).max(1) as u32;
    if over && old_width > new_width && r.chance(1, 2) {
        // any column the closing-quote line fits after the re-indentation but not before
        w = r.range(new_width, old_width - 1) as u32;
    }
    if far && pad + 3 + 8 >= new_width {
        w = r.range(new_width.max(pad + 3), pad + 3 + 8) as u32;
    }
    cfg.wrap_column = w;
    (build(pad), cfg)
}

fn gen_inputs(family: &str, rng: &mut Rng, n: usize, seeds: &[String]) -> Vec<String> {
    let mut v = Vec::with_capacity(n);
    match family {
        "seeds" => {
            for i in 0..n.min(seeds.len()) {
                v.push(seeds[i].clone());
            }
        }
        "seeds_sample" => {
            for _ in 0..n {
                if !seeds.is_empty() {
                    v.push(rng.pick(seeds).clone());
                }
            }
        }
        "grammar" => {
            for _ in 0..n {
                let budget = *rng.pick(&[5, 15, 40, 40, 100, 250]);
                let p = gen_program(rng, budget);
                v.push(render_plain(&p));
            }
        }
        "layout" => {
            for _ in 0..n {
                let budget = *rng.pick(&[5, 15, 40, 40, 100, 250]);
                let p = gen_program(rng, budget);
                let o = LayoutOpts {
                    comments: rng.chance(1, 2),
                    directives: rng.chance(1, 3),
                    blank_lines: rng.chance(1, 2),
                    crlf: rng.chance(1, 4),
                    tabs: rng.chance(1, 3),
                    tight: rng.chance(1, 3),
                    line_comments_only: false,
                };
                v.push(render_layout(&p, rng, o));
            }
        }
        "deepnest" => {
            for _ in 0..n {
                v.push(deep_nest(rng));
            }
        }
        "boundary" => {
            // small commented programs; the wrap column is chosen afterwards next to an actual line width
            for _ in 0..n {
                let budget = *rng.pick(&[5, 15, 15, 40]);
                let p = gen_program(rng, budget);
                let o = LayoutOpts { comments: true, directives: false, blank_lines: rng.chance(1, 3), crlf: false, tabs: false, tight: rng.chance(1, 4), line_comments_only: false };
                v.push(render_layout(&p, rng, o));
            }
        }
        "soup" => {
            for _ in 0..n {
                let m = *rng.pick(&[3, 8, 20, 60]);
                v.push(token_soup(rng, m));
            }
        }
        "bytes" => {
            for _ in 0..n {
                let m = *rng.pick(&[4, 12, 40, 120]);
                v.push(byte_soup(rng, m));
            }
        }
        "regions" => {
            for _ in 0..n {
                let budget = *rng.pick(&[5, 15, 40, 100]);
                let p = gen_program(rng, budget);
                let p = with_regions(&p, rng);
                let o = LayoutOpts { comments: rng.chance(1, 3), directives: false, blank_lines: rng.chance(1, 2), crlf: rng.chance(1, 4), tabs: rng.chance(1, 3), tight: rng.chance(1, 4), line_comments_only: false };
                let mut s = render_layout(&p, rng, o);
                if rng.chance(1, 25) {
                    s = s.replace("\r\n", "\n").replace('\n', "\r");
                }
                v.push(s);
            }
        }
        "mlsfam" => {
            for _ in 0..n {
                v.push(mls_family_case(rng));
            }
        }
        "directives" => {
            for _ in 0..n {
                v.push(directive_heavy(rng));
            }
        }
        "dirsoup" => {
            for _ in 0..n {
                v.push(directive_soup(rng));
            }
        }
        "c11mini" => {
            for _ in 0..n {
                v.push(c11_mini(rng));
            }
        }
        "asmreg" => {
            for _ in 0..n {
                v.push(asm_regions(rng));
            }
        }
        "pairs" => {
            for _ in 0..n {
                v.push(token_pairs(rng));
            }
        }
        "opgap" => {
            for _ in 0..n {
                v.push(op_gap(rng));
            }
        }
        "unclosed" => {
            for _ in 0..n {
                v.push(unclosed_conditional(rng));
            }
        }
        "pairs_enum" => {
            for i in 0..n {
                v.push(token_pairs_enum(i));
            }
        }
        "soup_enum" => {
            for i in 0..n {
                v.push(soup_enum(i));
            }
        }
        "lexfam" => {
            v = lex_family(rng, n, false);
        }
        "lexfam_all" => {
            v = lex_family(rng, n, true);
        }
        "mutate" => {
            for _ in 0..n {
                let a = if seeds.is_empty() || rng.chance(1, 2) {
                    let p = gen_program(rng, 40);
                    render_plain(&p)
                } else {
                    rng.pick(seeds).clone()
                };
                let b = if seeds.is_empty() { token_soup(rng, 20) } else { rng.pick(seeds).clone() };
                v.push(mutate(rng, &a, &b));
            }
        }
        other => panic!("unknown family {other}"),
    }
    v
}

fn corpus_inputs(stream: &str, only: &str) -> Vec<(String, Cfg, bool)> {
    // minimised past failures, run first: corpus/<stream>.txt, lines "cfg<TAB>hex"; `only` = a replay file in the same format
    let p = if only.is_empty() {
        std::env::var("VERIF_ROOT").unwrap_or_else(|_| "/verif".to_string()) + "/corpus/" + stream + ".txt"
    } else {
        only.to_string()
    };
    let mut v = vec![];
    if let Ok(s) = std::fs::read_to_string(p) {
        for l in s.lines() {
            if l.starts_with('#') || l.trim().is_empty() {
                continue;
            }
            let mut it = l.split('\t');
            if let (Some(c), Some(h)) = (it.next(), it.next()) {
                if let (Some(cfg), Some(b)) = (Cfg::from_proto(c), proto::unhex(h)) {
                    if let Ok(s) = String::from_utf8(b) {
                        // optional third column: `wf` = a well-formed program (the oracles restricted to those run too)
                        v.push((s, cfg, it.next().map_or(false, |x| x.trim() == "wf")));
                    }
                }
            }
        }
    }
    v
}

struct Args {
    m: BTreeMap<String, String>,
}
impl Args {
    fn get(&self, k: &str, d: &str) -> String {
        self.m.get(k).cloned().unwrap_or_else(|| d.to_string())
    }
    fn num(&self, k: &str, d: usize) -> usize {
        self.m.get(k).and_then(|x| x.parse().ok()).unwrap_or(d)
    }
}

fn parse_args(v: &[String]) -> Args {
    let mut m = BTreeMap::new();
    let mut i = 0;
    while i < v.len() {
        if let Some(k) = v[i].strip_prefix("--") {
            if i + 1 < v.len() {
                m.insert(k.to_string(), v[i + 1].clone());
                i += 2;
                continue;
            }
        }
        i += 1;
    }
    Args { m }
}

/// run all cases on worker threads with catch_unwind and a per-case hang detector
fn run_all(cases: Vec<Case>, timeout: Duration) -> Vec<Result<CaseOut, String>> {
    let n = cases.len();
    let cases = Arc::new(cases);
    let results: Arc<Vec<Mutex<Option<Result<CaseOut, String>>>>> = Arc::new((0..n).map(|_| Mutex::new(None)).collect());
    let next = Arc::new(AtomicUsize::new(0));
    let nthreads = std::thread::available_parallelism().map(|x| x.get()).unwrap_or(4).min(16);
    type Slot = Arc<Mutex<Option<(usize, Instant)>>>;
    let mut slots: Vec<Slot> = vec![];
    let spawn = |slot: Slot, cases: Arc<Vec<Case>>, results: Arc<Vec<Mutex<Option<Result<CaseOut, String>>>>>, next: Arc<AtomicUsize>| {
        std::thread::Builder::new()
            .stack_size(64 << 20)
            .spawn(move || loop {
                let i = next.fetch_add(1, Ordering::SeqCst);
                if i >= cases.len() {
                    *slot.lock().unwrap() = None;
                    break;
                }
                *slot.lock().unwrap() = Some((i, Instant::now()));
                let c = cases[i].clone();
                let r = std::panic::catch_unwind(move || run_case(&c));
                let r = match r {
                    Ok(o) => Ok(o),
                    Err(e) => {
                        let msg = if let Some(s) = e.downcast_ref::<String>() {
                            s.clone()
                        } else if let Some(s) = e.downcast_ref::<&str>() {
                            s.to_string()
                        } else {
                            "panic".to_string()
                        };
                        Err(format!("PANIC: {}", msg))
                    }
                };
                let mut g = results[i].lock().unwrap();
                if g.is_none() {
                    *g = Some(r);
                }
                // a worker whose case was declared hung stops here
                let mine = matches!(*slot.lock().unwrap(), Some((j, _)) if j == i);
                if !mine {
                    break;
                }
            })
            .unwrap()
    };
    for _ in 0..nthreads {
        let slot: Slot = Arc::new(Mutex::new(None));
        slots.push(slot.clone());
        spawn(slot, cases.clone(), results.clone(), next.clone());
    }
    loop {
        std::thread::sleep(Duration::from_millis(50));
        let mut all_idle = true;
        for si in 0..slots.len() {
            let cur = *slots[si].lock().unwrap();
            if let Some((i, t0)) = cur {
                all_idle = false;
                if t0.elapsed() > timeout {
                    let mut g = results[i].lock().unwrap();
                    if g.is_none() {
                        *g = Some(Err("HANG".to_string()));
                        drop(g);
                        // abandon the worker, start a replacement
                        let slot: Slot = Arc::new(Mutex::new(None));
                        slots[si] = slot.clone();
                        spawn(slot, cases.clone(), results.clone(), next.clone());
                    }
                }
            }
        }
        if all_idle && next.load(Ordering::SeqCst) >= n {
            // all workers finished
            let done = results.iter().all(|r| r.lock().unwrap().is_some());
            if done {
                break;
            }
        }
    }
    results.iter().map(|r| r.lock().unwrap().clone().unwrap()).collect()
}

fn json_str(s: &str) -> String {
    let mut o = String::from("\"");
    for c in s.chars() {
        match c {
            '"' => o.push_str("\\\""),
            '\\' => o.push_str("\\\\"),
            '\n' => o.push_str("\\n"),
            '\r' => o.push_str("\\r"),
            '\t' => o.push_str("\\t"),
            c if (c as u32) < 0x20 => o.push_str(&format!("\\u{:04x}", c as u32)),
            c => o.push(c),
        }
    }
    o.push('"');
    o
}

fn nontrivial(input: &str) -> bool {
    // stated rule: at least two line breaks or a quote/comment/non-ASCII byte, and at least 3 tokens worth of text
    let b = input.as_bytes();
    input.len() >= 8
        && (b.iter().filter(|&&x| x == b'\n').count() >= 2
            || b.iter().any(|&x| x == b'\'' || x == b'{' || x >= 0x80)
            || input.contains("//")
            || input.contains("(*"))
}

fn cmd_emit(a: &Args) {
    let seed = a.num("seed", 1) as u64;
    let count = a.num("count", 200);
    let stream = a.get("stream", "fmt");
    let out_dir = a.get("out", "/tmp/pv");
    let families: Vec<String> = a.get("families", "seeds_sample,grammar,layout,soup,bytes,mutate").split(',').map(|s| s.to_string()).collect();
    let timeout = Duration::from_millis(a.num("timeout_ms", 20000) as u64);
    std::fs::create_dir_all(&out_dir).unwrap();
    stages::init_log();
    let seeds = load_seeds();
    let oracle_list: Vec<String> = a.get("oracles", "").split(',').filter(|x| !x.is_empty()).map(|x| x.to_string()).collect();
    let mut rng = Rng::new(seed);
    let mut cases: Vec<Case> = vec![];
    let only = a.get("only_corpus", "");
    for (input, cfg, line_wf) in corpus_inputs(&stream, &only) {
        let mut cursors: Vec<u32> = a.get("replay_cursors", "").split(',').filter_map(|x| x.trim().parse().ok()).collect();
        if cursors.is_empty() && a.get("cursors_all", "0") == "1" && input.len() <= 160 {
            cursors = (0..=input.len() + 2).filter(|p| *p >= input.len() || input.is_char_boundary(*p)).map(|p| p as u32).collect();
        }
        let wf = line_wf || a.get("replay_well_formed", "0") == "1";
        cases.push(Case { stream: stream.clone(), family: a.get("replay_family", "corpus"), input, cfg, cursors, oracles: oracle_list.clone(), well_formed: wf, w2: a.num("replay_w2", 80) as u32, input2: None, marks: vec![], texts: vec![] });
    }
    let per = if only.is_empty() { (count + families.len() - 1) / families.len().max(1) } else { 0 };
    for fam in &families {
        if fam == "condinline" {
            let mut r = rng.fork();
            for _ in 0..per {
                let (input, cfg) = cond_inline_case(&mut r);
                cases.push(Case { stream: stream.clone(), family: fam.clone(), input, cfg, cursors: vec![], oracles: oracle_list.clone(), well_formed: true, w2: 200, input2: None, marks: vec![], texts: vec![] });
            }
            continue;
        }
        if fam == "mlscancel" {
            let mut r = rng.fork();
            for _ in 0..per {
                let (input, cfg) = mls_cancel_case(&mut r);
                cases.push(Case { stream: stream.clone(), family: fam.clone(), input, cfg, cursors: vec![], oracles: oracle_list.clone(), well_formed: true, w2: 200, input2: None, marks: vec![], texts: vec![] });
            }
            continue;
        }
        if fam == "mlstwo" || fam == "nosol" {
            let mut r = rng.fork();
            for _ in 0..per {
                let (input, cfg) = if fam == "mlstwo" { mls_two_case(&mut r) } else { nosol_case(&mut r) };
                cases.push(Case { stream: stream.clone(), family: fam.clone(), input, cfg, cursors: vec![], oracles: oracle_list.clone(), well_formed: fam == "mlstwo", w2: 200, input2: None, marks: vec![], texts: vec![] });
            }
            continue;
        }
        if fam == "mlsshift" {
            let mut r = rng.fork();
            for _ in 0..per {
                let (input, cfg) = mls_shift_case(&mut r);
                cases.push(Case { stream: stream.clone(), family: fam.clone(), input, cfg, cursors: vec![], oracles: oracle_list.clone(), well_formed: true, w2: 200, input2: None, marks: vec![], texts: vec![] });
            }
            continue;
        }
        if fam == "tokfam" {
            let mut r = rng.fork();
            for _ in 0..per {
                let (input, texts) = tok_family_case(&mut r);
                cases.push(Case { stream: stream.clone(), family: fam.clone(), input, cfg: Cfg::default(), cursors: vec![], oracles: oracle_list.clone(), well_formed: false, w2: 80, input2: None, marks: vec![], texts });
            }
            continue;
        }
        if fam == "crlfpair" {
            // the same text with LF and with CRLF line breaks: two "layouts" in the sense of the layout theorem
            let mut r = rng.fork();
            for _ in 0..per {
                let budget = *r.pick(&[5, 15, 40, 40, 100]);
                let mls = r.chance(1, 4);
                let mut g = Grammar::new(&mut r, budget);
                g.allow_asm = false;
                g.allow_mls = mls;
                g.unit();
                let p = Program { toks: g.out };
                let cfg = Cfg::random(&mut r);
                let o = LayoutOpts { comments: r.chance(1, 2), directives: r.chance(1, 3), blank_lines: r.chance(1, 2), crlf: false, tabs: r.chance(1, 3), tight: r.chance(1, 3), line_comments_only: r.chance(1, 2) };
                let a = if r.chance(1, 4) { render_plain(&p) } else { render_layout(&p, &mut r, o) };
                let a = a.replace("\r\n", "\n");
                let b = a.replace('\n', "\r\n");
                cases.push(Case { stream: stream.clone(), family: fam.clone(), input: a, cfg, cursors: vec![], oracles: oracle_list.clone(), well_formed: true, w2: 80, input2: Some(b), marks: vec![], texts: vec![] });
            }
            continue;
        }
        if fam == "relayout" || fam == "marked" {
            let mut r = rng.fork();
            for _ in 0..per {
                let budget = *r.pick(&[5, 15, 40, 40, 100, 250]);
                let mut g = Grammar::new(&mut r, budget);
                g.allow_asm = false;
                g.unit();
                let p = Program { toks: g.out };
                let cfg = Cfg::random(&mut r);
                if fam == "relayout" {
                    let shared = r.next();
                    let with_comments = r.chance(1, 2);
                    let a = render_relayout(&p, shared, &mut r, with_comments);
                    let b = render_relayout(&p, shared, &mut r, with_comments);
                    cases.push(Case { stream: stream.clone(), family: fam.clone(), input: a, cfg, cursors: vec![], oracles: oracle_list.clone(), well_formed: true, w2: 80, input2: Some(b), marks: vec![], texts: vec![] });
                } else {
                    let mut o = LayoutOpts { comments: r.chance(1, 3), directives: r.chance(1, 3), blank_lines: r.chance(1, 2), crlf: false, tabs: r.chance(1, 3), tight: r.chance(1, 3), line_comments_only: true };
                    // a declaration section nested in a class lasts until the next member that starts with a keyword; with
                    // members switched by conditional directives the passes see different member sequences and the
                    // generator's depths no longer describe every pass: no conditional wrappers for such programs
                    let nested_section = p.toks.iter().enumerate().any(|(i, t)| {
                        matches!(t.mark, Mark::Start(d) if d >= 2)
                            && (matches!(t.text.to_ascii_lowercase().as_str(), "const" | "var" | "type" | "threadvar")
                                || (t.text.eq_ignore_ascii_case("class") && p.toks.get(i + 1).map_or(false, |n| n.text.eq_ignore_ascii_case("var"))))
                    });
                    if nested_section {
                        o.directives = false;
                    }
                    let input = if r.chance(1, 3) { render_plain(&p) } else { render_layout(&p, &mut r, o) };
                    let marks: Vec<Mark> = p.toks.iter().map(|t| t.mark).collect();
                    let texts: Vec<String> = p.toks.iter().map(|t| t.text.clone()).collect();
                    cases.push(Case { stream: stream.clone(), family: fam.clone(), input, cfg, cursors: vec![], oracles: oracle_list.clone(), well_formed: true, w2: 80, input2: None, marks, texts });
                }
            }
            continue;
        }
        let mut r = rng.fork();
        let inputs = gen_inputs(fam, &mut r, per, &seeds);
        for input in inputs {
            let mut cfg = if stream == "lex" { Cfg::default() } else { Cfg::random(&mut r) };
            if fam == "boundary" {
                cfg.wrap_column = boundary_width(&input, &cfg, &mut r);
            }
            let well_formed = matches!(fam.as_str(), "grammar" | "layout" | "seeds" | "seeds_sample" | "regions" | "mlsfam" | "boundary" | "c11mini" | "asmreg" | "opgap")
                && !(fam.starts_with("seeds") && oracles::has_unterminated_token(&input));
            let mut cursors = vec![];
            if oracle_list.iter().any(|o| o == "c15") {
                let n = r.below(5);
                for _ in 0..n {
                    let mut p = match r.below(6) {
                        0 => 0,
                        1 => input.len(),
                        2 => input.len() + r.range(1, 10),
                        _ => r.below(input.len() + 1),
                    };
                    while p < input.len() && !input.is_char_boundary(p) {
                        p += 1;
                    }
                    cursors.push(p as u32);
                }
            }
            if a.get("cursors_all", "0") == "1" && input.len() <= 160 {
                cursors = (0..=input.len() + 2).filter(|p| *p >= input.len() || input.is_char_boundary(*p)).map(|p| p as u32).collect();
            }
            let mut w2 = *r.pick(&[10u32, 20, 30, 40, 60, 80, 100, 120, 160, 200]);
            if fam == "boundary" {
                // mostly compare with a width at which everything fits
                w2 = *r.pick(&[200u32, 200, 120, cfg.wrap_column + 1, cfg.wrap_column + 8, w2]);
            }
            cases.push(Case { stream: stream.clone(), family: fam.clone(), input, cfg, cursors, oracles: oracle_list.clone(), well_formed, w2, input2: None, marks: vec![], texts: vec![] });
        }
    }
    let t0 = Instant::now();
    let results = run_all(cases.clone(), timeout);
    let mut fin = std::io::BufWriter::new(std::fs::File::create(format!("{out_dir}/cases.in")).unwrap());
    let mut fexp = std::io::BufWriter::new(std::fs::File::create(format!("{out_dir}/cases.exp")).unwrap());
    let mut fmeta = std::io::BufWriter::new(std::fs::File::create(format!("{out_dir}/cases.meta")).unwrap());
    let mut stats: BTreeMap<String, usize> = BTreeMap::new();
    let mut distinct: HashSet<(String, String)> = HashSet::new();
    let mut distinct_nontrivial = 0usize;
    let mut failures: Vec<String> = vec![];
    let mut samples: Vec<String> = vec![];
    for (c, r) in cases.iter().zip(results.iter()) {
        bump(&mut stats, &format!("family:{}", c.family), 1);
        bump(&mut stats, "input_bytes", c.input.len());
        if distinct.insert((c.input.clone(), c.cfg.to_proto())) && nontrivial(&c.input) {
            distinct_nontrivial += 1;
        }
        match r {
            Ok(o) => {
                writeln!(fin, "{}", o.in_line).unwrap();
                writeln!(fexp, "{}", o.exp_line).unwrap();
                writeln!(fmeta, "{}\t{}\t{}", c.family, c.cfg.to_proto(), proto::hex(c.input.as_bytes())).unwrap();
                for (k, v) in &o.stats {
                    bump(&mut stats, k, *v);
                }
                for f in &o.oracle_failures {
                    let second = match &c.input2 {
                        Some(b) => format!(",\"input2_hex\":{}", json_str(&proto::hex(b.as_bytes()))),
                        None => String::new(),
                    };
                    failures.push(format!("{{\"kind\":\"oracle\",\"what\":{},\"cfg\":{},\"input_hex\":{},\"cursors\":{:?},\"family\":{}{}}}", json_str(f), json_str(&c.cfg.to_proto()), json_str(&proto::hex(c.input.as_bytes())), c.cursors, json_str(&c.family), second));
                }
                if samples.len() < 5 && nontrivial(&c.input) && c.input.len() < 300 {
                    samples.push(format!("{{\"family\":{},\"cfg\":{},\"input\":{}}}", json_str(&c.family), json_str(&c.cfg.to_proto()), json_str(&c.input)));
                }
            }
            Err(e) => {
                bump(&mut stats, "abnormal", 1);
                failures.push(format!("{{\"kind\":\"abnormal\",\"what\":{},\"cfg\":{},\"input_hex\":{},\"cursors\":{:?},\"family\":{}}}", json_str(e), json_str(&c.cfg.to_proto()), json_str(&proto::hex(c.input.as_bytes())), c.cursors, json_str(&c.family)));
            }
        }
    }
    fin.flush().unwrap();
    fexp.flush().unwrap();
    fmeta.flush().unwrap();
    let stats_json: Vec<String> = stats.iter().map(|(k, v)| format!("{}:{}", json_str(k), v)).collect();
    let summary = format!(
        "{{\"stream\":{},\"seed\":{},\"cases\":{},\"distinct_nontrivial\":{},\"wall_s\":{:.2},\"stats\":{{{}}},\"failures\":[{}],\"samples\":[{}]}}",
        json_str(&stream),
        seed,
        cases.len(),
        distinct_nontrivial,
        t0.elapsed().as_secs_f64(),
        stats_json.join(","),
        failures.join(","),
        samples.join(",")
    );
    std::fs::write(format!("{out_dir}/summary.json"), &summary).unwrap();
    println!("{}", summary.chars().take(400).collect::<String>());
    std::process::exit(0);
}

fn main() {
    if std::env::var("VERIF_PANIC_MSG").is_err() { std::panic::set_hook(Box::new(|_| {})); }
    let argv: Vec<String> = std::env::args().collect();
    if argv.len() < 2 {
        eprintln!("usage: pv-harness emit --stream S --seed N --count N --out DIR");
        std::process::exit(2);
    }
    let a = parse_args(&argv[2..]);
    match argv[1].as_str() {
        "emit" => cmd_emit(&a),
        "formatmany" => {
            // in-process formatter as an oracle for the binary-level checks: lines "cfg<TAB>hex(utf8 text)"
            use std::io::BufRead;
            let stdin = std::io::stdin();
            for line in stdin.lock().lines() {
                let line = line.unwrap();
                let mut it = line.split('\t');
                let cfg = Cfg::from_proto(it.next().unwrap_or("")).unwrap_or_default();
                let text = proto::unhex(it.next().unwrap_or("-")).and_then(|b| String::from_utf8(b).ok());
                match text {
                    Some(t) => {
                        let r = std::panic::catch_unwind(|| stages::run_real(&t, &cfg, &[]).0);
                        match r {
                            Ok(o) => println!("{}", proto::hex(&o)),
                            Err(_) => println!("panic"),
                        }
                    }
                    None => println!("bad"),
                }
            }
        }
        "deep" => {
            // known-finding demo (F2): unbounded recursion depth. Runs in this process; a stack overflow aborts it.
            let kind = argv.get(2).map(|s| s.as_str()).unwrap_or("paren");
            let depth: usize = argv.get(3).and_then(|s| s.parse().ok()).unwrap_or(200000);
            let input = match kind {
                "begin" => "begin ".repeat(depth),
                _ => "(".repeat(depth),
            };
            let out = stages::run_real(&input, &Cfg::default(), &[]).0;
            println!("deep-ok {}", out.len());
        }
        "widths" => {
            // known-finding demos for C11: `widths <hex input> <w> <w> …` prints, per wrap column, the number of output
            // lines, the longest line (in bytes) and a hash of the output
            let input = String::from_utf8(proto::unhex(argv.get(2).map(|s| s.as_str()).unwrap_or("")).unwrap_or_default()).unwrap_or_default();
            for w in argv.iter().skip(3).filter_map(|s| s.parse::<u32>().ok()) {
                let mut cfg = Cfg::default();
                cfg.wrap_column = w;
                let out = stages::run_real(&input, &cfg, &[]).0;
                let text = String::from_utf8_lossy(&out).to_string();
                let longest = text.split('\n').map(|l| l.trim_end_matches('\r').len()).max().unwrap_or(0);
                let mut h: u64 = 1469598103934665603;
                for b in &out {
                    h = (h ^ (*b as u64)).wrapping_mul(1099511628211);
                }
                println!("w={w} lines={} longest={longest} {} hash={h:016x}", text.matches('\n').count(), if longest as u32 <= w { "fits" } else { "OVERLONG" });
            }
        }
        other => {
            eprintln!("unknown command {other}");
            std::process::exit(2);
        }
    }
}
