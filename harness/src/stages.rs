//! Stage-by-stage execution of the real pipeline through its public API, mirroring
//! `pasfmt::make_formatter` + `Formatter::format_into_buf`.  The glue check (`run_glue`) makes sure
//! this re-implementation produces exactly what the real entry point produces.
use crate::gen::Cfg;
use pasfmt::FormattingConfig;
use pasfmt_core::prelude::*;
use std::sync::atomic::Ordering;

// per thread: a case runs on one worker thread, and the formatter logs on the thread that formats
pub struct Counter(std::thread::LocalKey<std::cell::Cell<usize>>);
impl Counter {
    pub fn load(&'static self, _o: Ordering) -> usize {
        self.0.with(|c| c.get())
    }
    pub fn fetch_add(&'static self, n: usize, _o: Ordering) {
        self.0.with(|c| c.set(c.get() + n))
    }
}
thread_local! {
    static TL_MISSING_BREAK: std::cell::Cell<usize> = const { std::cell::Cell::new(0) };
    static TL_NO_SOLUTION: std::cell::Cell<usize> = const { std::cell::Cell::new(0) };
    static TL_ITER_LIMIT: std::cell::Cell<usize> = const { std::cell::Cell::new(0) };
}
pub static LOG_MISSING_BREAK: Counter = Counter(TL_MISSING_BREAK);
pub static LOG_NO_SOLUTION: Counter = Counter(TL_NO_SOLUTION);
pub static LOG_ITER_LIMIT: Counter = Counter(TL_ITER_LIMIT);

pub struct CaptureLog;
impl log::Log for CaptureLog {
    fn enabled(&self, m: &log::Metadata) -> bool {
        m.level() <= log::Level::Warn
    }
    fn log(&self, r: &log::Record) {
        if r.level() > log::Level::Warn {
            return;
        }
        let s = format!("{}", r.args());
        if s.starts_with("Fixed missing line break") {
            LOG_MISSING_BREAK.fetch_add(1, Ordering::Relaxed);
        } else if s.starts_with("No solution found") {
            LOG_NO_SOLUTION.fetch_add(1, Ordering::Relaxed);
        } else if s.starts_with("Iteration limit reached") {
            LOG_ITER_LIMIT.fetch_add(1, Ordering::Relaxed);
        }
    }
    fn flush(&self) {}
}

pub fn init_log() {
    static L: CaptureLog = CaptureLog;
    let _ = log::set_logger(&L);
    log::set_max_level(log::LevelFilter::Warn);
}

pub fn formatting_config(cfg: &Cfg) -> FormattingConfig {
    toml::from_str(&cfg.to_toml()).expect("config must deserialize")
}

pub fn recon_settings(cfg: &Cfg) -> ReconstructionSettings {
    // mirrors `From<&FormattingConfig> for ReconstructionSettings` (checked by the glue check)
    let (iw, cw, tab) = if cfg.use_tabs {
        (1, cfg.cont, TabKind::Hard)
    } else {
        (cfg.tab_width, cfg.cont.saturating_mul(cfg.tab_width), TabKind::Soft)
    };
    ReconstructionSettings::new(if cfg.crlf { LineEnding::Crlf } else { LineEnding::Lf }, tab, iw, cw)
}

pub fn olf_settings(cfg: &Cfg) -> OptimisingLineFormatterSettings {
    OptimisingLineFormatterSettings {
        max_line_length: cfg.wrap_column,
        iteration_max: 20_000,
        break_before_begin: cfg.begin_always,
        format_multiline_strings: cfg.fmt_mls,
    }
}

#[derive(Clone, Debug, PartialEq, Eq)]
pub struct LineSnap {
    pub line_type: String,
    pub level: u16,
    pub parent: Option<(usize, usize)>,
    pub tokens: Vec<usize>,
}

#[derive(Clone, Debug, PartialEq, Eq)]
pub struct FmtSnap {
    pub ignored: bool,
    pub nl: u16,
    pub ind: u16,
    pub cont: u16,
    pub sp: u16,
}

#[derive(Clone, Debug, Default)]
pub struct Snap {
    /// (ws bytes, content bytes, RawTokenType debug)
    pub raw: Vec<(Vec<u8>, Vec<u8>, String)>,
    /// lines straight out of the parser
    pub parser_lines: Vec<LineSnap>,
    /// token kinds straight out of the parser
    pub parser_kinds: Vec<String>,
    /// after the three consolidators
    pub kinds: Vec<String>,
    pub lines: Vec<LineSnap>,
    pub marks: Vec<usize>,
    /// lines after the void step
    pub lines_voided: Vec<LineSnap>,
    pub fmt0: Vec<FmtSnap>,
    /// after TokenSpacing, LowercaseKeywords, CommentFormatter, EofNewline
    pub fmt_pre: Vec<FmtSnap>,
    pub contents_pre: Vec<Vec<u8>>,
    /// after the wrapper
    pub fmt_post: Vec<FmtSnap>,
    pub contents_post: Vec<Vec<u8>>,
    pub output: Vec<u8>,
    pub cursors_out: Vec<u32>,
    /// `(phase, line, solution)` records of the wrapper hook, in application order
    pub solutions: Vec<(u8, usize, String)>,
    pub log_missing_break: usize,
    pub log_no_solution: usize,
    pub log_iter_limit: usize,
}

fn snap_lines(lines: &[LogicalLine]) -> Vec<LineSnap> {
    lines
        .iter()
        .map(|l| LineSnap {
            line_type: format!("{:?}", l.get_line_type()),
            level: l.get_level(),
            parent: l.get_parent().map(|p| (p.line_index, p.global_token_index)),
            tokens: l.get_tokens().clone(),
        })
        .collect()
}

fn snap_fmt(ft: &FormattedTokens) -> (Vec<FmtSnap>, Vec<Vec<u8>>) {
    let mut f = vec![];
    let mut c = vec![];
    for (tok, d) in ft.tokens() {
        f.push(FmtSnap {
            ignored: d.is_ignored(),
            nl: d.newlines_before,
            ind: d.indentations_before,
            cont: d.continuations_before,
            sp: d.spaces_before,
        });
        c.push(tok.get_content().as_bytes().to_vec());
    }
    (f, c)
}

pub fn run_stages(input: &str, cfg: &Cfg, cursors: &[u32]) -> Snap {
    let mut snap = Snap::default();
    let mb0 = LOG_MISSING_BREAK.load(Ordering::Relaxed);
    let ns0 = LOG_NO_SOLUTION.load(Ordering::Relaxed);
    let il0 = LOG_ITER_LIMIT.load(Ordering::Relaxed);

    let lexer = DelphiLexer {};
    let raw = lexer.lex(input);
    for t in &raw {
        snap.raw.push((
            t.get_leading_whitespace().as_bytes().to_vec(),
            t.get_content().as_bytes().to_vec(),
            format!("{:?}", t.get_token_type()),
        ));
    }
    let rs = recon_settings(cfg);
    let reconstructor = DelphiLogicalLinesReconstructor::new(rs.clone());
    let mut cur: Vec<Cursor> = cursors.iter().map(|c| Cursor(*c)).collect();
    {
        let mut tracker = reconstructor.process_cursors(&mut cur, &raw);

        let (mut lines, mut tokens) = DelphiLogicalLineParser {}.parse(raw);
        snap.parser_lines = snap_lines(&lines);
        snap.parser_kinds = tokens.iter().map(|t| format!("{:?}", t.get_token_type())).collect();

        TokenConsolidator::consolidate(&DistinguishGenericTypeParamsConsolidator {}, &mut tokens);
        LogicalLinesConsolidator::consolidate(&ConditionalDirectiveConsolidator {}, (&mut tokens, &mut lines));
        LogicalLinesConsolidator::consolidate(&DeindentPackageDirectives {}, (&mut tokens, &mut lines));
        snap.kinds = tokens.iter().map(|t| format!("{:?}", t.get_token_type())).collect();
        snap.lines = snap_lines(&lines);

        let mut ignored = TokenMarker::default();
        FormattingToggler {}.ignore_tokens((&tokens, &lines), &mut ignored);
        IgnoreAsmIstructions {}.ignore_tokens((&tokens, &lines), &mut ignored);
        snap.marks = (0..tokens.len()).filter(|i| ignored.is_marked(i)).collect();

        if ignored.any_marked() {
            for line in &mut lines {
                if line.get_tokens().iter().all(|t| ignored.is_marked(t)) {
                    line.void_and_drain();
                }
            }
        }
        snap.lines_voided = snap_lines(&lines);

        let mut ft = FormattedTokens::new_from_tokens(&mut tokens, &ignored);
        snap.fmt0 = snap_fmt(&ft).0;

        LogicalLineFileFormatter::format(&TokenSpacing {}, &mut ft, &lines);
        LogicalLineFileFormatter::format(&LowercaseKeywords {}, &mut ft, &lines);
        LogicalLineFileFormatter::format(&CommentFormatter {}, &mut ft, &lines);
        let eof = EofNewline {};
        for l in lines.iter() {
            if l.get_line_type() == LogicalLineType::Eof {
                LogicalLineFormatter::format(&eof, &mut ft, l);
            }
        }
        let (f, c) = snap_fmt(&ft);
        snap.fmt_pre = f;
        snap.contents_pre = c;

        let olf = OptimisingLineFormatter::new(olf_settings(cfg), rs.clone());
        pasfmt_core::verif::start_solutions();
        LogicalLineFileFormatter::format(&olf, &mut ft, &lines);
        snap.solutions = pasfmt_core::verif::take_solutions();
        let (f, c) = snap_fmt(&ft);
        snap.fmt_post = f;
        snap.contents_post = c;

        tracker.relocate_cursors(&ft);
        let mut out = String::new();
        reconstructor.reconstruct(ft, &mut out);
        snap.output = out.into_bytes();
    }
    snap.cursors_out = cur.iter().map(|c| c.0).collect();
    snap.log_missing_break = LOG_MISSING_BREAK.load(Ordering::Relaxed) - mb0;
    snap.log_no_solution = LOG_NO_SOLUTION.load(Ordering::Relaxed) - ns0;
    snap.log_iter_limit = LOG_ITER_LIMIT.load(Ordering::Relaxed) - il0;
    snap
}

/// the real entry point
pub fn run_real(input: &str, cfg: &Cfg, cursors: &[u32]) -> (Vec<u8>, Vec<u32>) {
    let fc = formatting_config(cfg);
    let f = pasfmt::make_formatter(&fc);
    let mut cur: Vec<Cursor> = cursors.iter().map(|c| Cursor(*c)).collect();
    let out = f.format(input, FileOptions::new().with_cursors(&mut cur));
    (out.into_bytes(), cur.iter().map(|c| c.0).collect())
}
