//! Direct, independent property oracles on the real implementation.  A failure here is a failing
//! input for the property (reported separately from model/implementation differences).
use crate::gen::Cfg;
use crate::stages::run_real;
use pasfmt_core::prelude::*;

fn fmt(input: &str, cfg: &Cfg) -> String {
    String::from_utf8(run_real(input, cfg, &[]).0).unwrap()
}

/// C04 work bound: the number of line-wrapping searches (`find_optimal_solution` calls, counted by a guarded hook) stays
/// linear in the number of tokens.  Deterministic, unlike a time limit.  `VERIF_C04_K` overrides the factor (calibration).
pub fn c04_work(input: &str, cfg: &Cfg) -> Vec<String> {
    pasfmt_core::verif::reset_search_count();
    let _ = fmt(input, cfg);
    let n = pasfmt_core::verif::search_count();
    let toks = lex_offsets(input).len() as u64;
    let k: u64 = std::env::var("VERIF_C04_K").ok().and_then(|x| x.parse().ok()).unwrap_or(16);
    if n > k * (toks + 8) {
        vec![format!("c04: {} line-wrapping searches for {} tokens (more than {} per token)", n, toks, k)]
    } else {
        vec![]
    }
}

pub fn is_blank_char(c: char) -> bool {
    c <= ' ' || c == '\u{3000}'
}

/// independent recogniser of the `pasfmt on|off` toggle comment (written from the property text)
pub fn toggle_of(comment: &str) -> Option<bool> {
    let body = if let Some(r) = comment.strip_prefix("//") {
        r
    } else if let Some(r) = comment.strip_prefix("(*") {
        r
    } else if let Some(r) = comment.strip_prefix('{') {
        r
    } else {
        return None;
    };
    let body = body.trim_start_matches(|c: char| c == ' ' || c == '\t' || c == '\n' || c == '\r' || c == '\x0c');
    if body.len() < 6 || !body.is_char_boundary(6) || !body[..6].eq_ignore_ascii_case("pasfmt") {
        return None;
    }
    let rest = &body[6..];
    let rest2 = rest.trim_start_matches(|c: char| c == ' ' || c == '\t' || c == '\n' || c == '\r' || c == '\x0c');
    if rest2.len() == rest.len() {
        return None;
    }
    let word: String = rest2.chars().take_while(|c| c.is_ascii_alphanumeric()).collect();
    if word.eq_ignore_ascii_case("on") {
        Some(true)
    } else if word.eq_ignore_ascii_case("off") {
        Some(false)
    } else {
        None
    }
}

pub struct OTok {
    pub start: usize,
    pub ws_len: usize,
    pub end: usize,
    pub kind: RawTokenType,
}

pub fn lex_offsets(s: &str) -> Vec<OTok> {
    let toks = DelphiLexer {}.lex(s);
    let mut v = vec![];
    let mut off = 0;
    for t in toks {
        let ws = t.get_leading_whitespace().len();
        let c = t.get_content().len();
        v.push(OTok { start: off, ws_len: ws, end: off + ws + c, kind: t.get_token_type() });
        off += ws + c;
    }
    v
}

/// a block comment, directive or text literal that runs to the end of the file without its closer: such an input is not
/// a well-formed program whatever its provenance (it can swallow the `end` that closes a block)
pub fn has_unterminated_token(s: &str) -> bool {
    lex_offsets(s).iter().any(|t| {
        let c = &s[t.start + t.ws_len..t.end];
        match t.kind {
            RawTokenType::TextLiteral(TextLiteralKind::Unterminated) => true,
            RawTokenType::Comment(CommentKind::InlineBlock | CommentKind::IndividualBlock | CommentKind::MultilineBlock)
            | RawTokenType::CompilerDirective
            | RawTokenType::ConditionalDirective(_) => {
                if c.starts_with('{') {
                    !c.ends_with('}')
                } else {
                    !(c.ends_with("*)") && c.len() >= 4)
                }
            }
            _ => false,
        }
    })
}

/// byte ranges (start,end) of verbatim regions of `s`: from a `pasfmt off` comment (incl.) to the next
/// `pasfmt on` comment (incl.) or the end; plus lone `on` comments.
pub fn verbatim_regions(s: &str, toks: &[OTok]) -> Vec<(usize, usize)> {
    let mut regions = vec![];
    let mut open: Option<usize> = None;
    for t in toks {
        if let RawTokenType::Comment(_) = t.kind {
            let content = &s[t.start + t.ws_len..t.end];
            match toggle_of(content) {
                Some(false) => {
                    if open.is_none() {
                        open = Some(t.start + t.ws_len);
                    }
                }
                Some(true) => {
                    if let Some(o) = open.take() {
                        regions.push((o, t.end));
                    } else {
                        regions.push((t.start + t.ws_len, t.end));
                    }
                }
                None => {}
            }
        }
    }
    if let Some(o) = open {
        regions.push((o, s.len()));
    }
    regions
}

/// formatting is still disabled at the end of the file (an `off` toggle without a later `on`)
pub fn region_open_at_eof(s: &str, toks: &[OTok]) -> bool {
    let mut open = false;
    for t in toks {
        if let RawTokenType::Comment(_) = t.kind {
            match toggle_of(&s[t.start + t.ws_len..t.end]) {
                Some(false) => open = true,
                Some(true) => open = false,
                None => {}
            }
        }
    }
    open
}

pub fn c03_idempotent(input: &str, cfg: &Cfg) -> Vec<String> {
    let o1 = fmt(input, cfg);
    let o2 = fmt(&o1, cfg);
    if o1 != o2 {
        // classification: does the failure depend on the re-indentation of multi-line strings?
        let mut off = cfg.clone();
        off.fmt_mls = false;
        let p1 = fmt(input, &off);
        let p2 = fmt(&p1, &off);
        if cfg.fmt_mls && p1 == p2 && input.contains("\'\'\'") {
            // finer: is a multi-line string part of a child line (a line with a parent: the body of an anonymous
            // routine and the like)? The stale child-line cache of finding F10 needs that.
            let snap = crate::stages::run_stages(input, cfg, &[]);
            let in_child = snap.lines.iter().any(|l| {
                l.parent.is_some() && l.tokens.iter().any(|&t| snap.kinds.get(t).map_or(false, |k| k.contains("TextLiteral(MultiLine)")))
            });
            // a literal that the first run leaves out of line with its opening quotes is not the stale-cache finding:
            // there the first run's literals are aligned and only the wrapping of the tail differs
            let misaligned = c12_multiline_strings(input, cfg).iter().any(|f| f.contains("not indented like the opening quotes"));
            if misaligned {
                vec!["c03: formatting the output again changes it (only with format_multiline_strings=true; the first run leaves a literal out of line with its opening quotes)".to_string()]
            } else if in_child {
                vec!["c03: formatting the output again changes it (only with format_multiline_strings=true; multi-line string inside a child line)".to_string()]
            } else {
                vec!["c03: formatting the output again changes it (only with format_multiline_strings=true)".to_string()]
            }
        } else {
            vec!["c03: formatting the output again changes it".to_string()]
        }
    } else {
        vec![]
    }
}

pub fn c07_regions(input: &str, cfg: &Cfg, well_formed: bool) -> Vec<String> {
    let out = fmt(input, cfg);
    let toks = lex_offsets(input);
    let regions = verbatim_regions(input, &toks);
    let mut fails = vec![];
    // In token soup an `asm` keyword can sit where no block can start (inside a parameter list, in the middle of an
    // expression); there the lexer switches to assembler text but there is no `asm ... end` block. For such inputs the
    // blocks are the ones the parser recognises (lines typed AsmInstruction); for well-formed programs the purely
    // lexical criterion below is used, which does not depend on the parser.
    if !well_formed {
        let snap = crate::stages::run_stages(input, cfg, &[]);
        let mut offs = Vec::with_capacity(snap.raw.len());
        let mut o = 0usize;
        for (ws, c, _) in &snap.raw {
            offs.push((o + ws.len(), o + ws.len() + c.len()));
            o += ws.len() + c.len();
        }
        let mut from = 0usize;
        for l in snap.parser_lines.iter().filter(|l| l.line_type == "AsmInstruction") {
            // maximal runs of consecutive token indices (conditional directives inside the block are lines of their own)
            let mut k = 0;
            while k < l.tokens.len() {
                let mut e = k;
                while e + 1 < l.tokens.len() && l.tokens[e + 1] == l.tokens[e] + 1 {
                    e += 1;
                }
                let (a, b) = (l.tokens[k], l.tokens[e]);
                k = e + 1;
                if a >= offs.len() || b >= offs.len() {
                    continue;
                }
                let body = &input[offs[a].0..offs[b].1];
                // lines of different conditional-directive passes are not listed in output order: search from the start
                let _ = &mut from;
                if !out.contains(body) {
                    fails.push("c07: an instruction line of an asm block is not reproduced byte for byte".to_string());
                }
            }
        }
    } else {
        let mut i = 0;
        let mut from = 0usize;
        while i < toks.len() {
            if matches!(toks[i].kind, RawTokenType::Keyword(KeywordKind::Asm)) {
                let mut j = i + 1;
                while j < toks.len() && !matches!(toks[j].kind, RawTokenType::Keyword(KeywordKind::End) | RawTokenType::Eof) {
                    j += 1;
                }
                if j > i + 1 && j < toks.len() && matches!(toks[j].kind, RawTokenType::Keyword(KeywordKind::End)) {
                    // comments/directives directly before `end` are not part of an instruction line
                    let mut last = j - 1;
                    while last > i && matches!(toks[last].kind, RawTokenType::Comment(_) | RawTokenType::CompilerDirective | RawTokenType::ConditionalDirective(_)) {
                        last -= 1;
                    }
                    let has_directive = toks[i + 1..j].iter().any(|t| matches!(t.kind, RawTokenType::ConditionalDirective(_)));
                    // comments directly after `asm` are not part of an instruction line either
                    let mut first = i + 1;
                    while first < last && matches!(toks[first].kind, RawTokenType::Comment(_) | RawTokenType::CompilerDirective) {
                        first += 1;
                    }
                    if last > i && first <= last && !has_directive && !matches!(toks[first].kind, RawTokenType::Comment(_) | RawTokenType::CompilerDirective) {
                        let body = &input[toks[first].start + toks[first].ws_len..toks[last].end];
                        match out[from..].find(body) {
                            Some(p) => from += p + body.len(),
                            None => {
                                fails.push("c07: the instruction lines of an asm block are not reproduced byte for byte".to_string());
                            }
                        }
                    }
                    if has_directive && j > i + 1 {
                        // a block with conditional directives: instruction line by instruction line (a source line of
                        // the block that holds more than comments and directives)
                        let last = j - 1;
                        let mut k = i + 1;
                        while k <= last {
                            let mut e = k;
                            while e + 1 <= last && !input[toks[e + 1].start..toks[e + 1].start + toks[e + 1].ws_len].contains('\n') {
                                e += 1;
                            }
                            let group = &toks[k..=e];
                            let is_dir = |t: &OTok| matches!(t.kind, RawTokenType::ConditionalDirective(_));
                            let is_pass = |t: &OTok| matches!(t.kind, RawTokenType::ConditionalDirective(_) | RawTokenType::Comment(_) | RawTokenType::CompilerDirective);
                            if group.iter().any(|t| !is_pass(t)) {
                                let text = &input[group[0].start + group[0].ws_len..group[group.len() - 1].end];
                                if !out.contains(text) {
                                    if !group.iter().any(is_dir) {
                                        fails.push("c07: an instruction line of an asm block with conditional directives is not reproduced byte for byte".to_string());
                                    } else {
                                        // inline conditional directives: which shape?
                                        // (comments do not count as tokens of the instruction here)
                                        let code: Vec<&OTok> = group.iter().filter(|t| !matches!(t.kind, RawTokenType::Comment(_))).collect();
                                        let closes_line = code.last().map_or(false, |t| is_dir(t));
                                        let opens_line = code.first().map_or(false, |t| is_dir(t));
                                        let simple = |t: &OTok| {
                                            matches!(t.kind, RawTokenType::ConditionalDirective(_) | RawTokenType::Comment(_))
                                                || matches!(t.kind, RawTokenType::Identifier | RawTokenType::IdentifierOrKeyword(_) | RawTokenType::NumberLiteral(_) | RawTokenType::TextLiteral(_) | RawTokenType::Op(OperatorKind::Dot))
                                        };
                                        // tokens between the first and the last directive of the line
                                        let fd = group.iter().position(is_dir).unwrap();
                                        let ld = group.iter().rposition(is_dir).unwrap();
                                        let branches_simple = group[fd..=ld].iter().all(simple);
                                        // is the conditional block (its opening and closing directive) contained in this line?
                                        let mut depth = 0i32;
                                        let mut contained = true;
                                        for t in group.iter() {
                                            if let RawTokenType::ConditionalDirective(k) = t.kind {
                                                use ConditionalDirectiveKind as CDK;
                                                match k {
                                                    CDK::If | CDK::Ifdef | CDK::Ifndef | CDK::Ifopt => depth += 1,
                                                    CDK::Endif | CDK::Ifend => depth -= 1,
                                                    _ => {
                                                        if depth == 0 {
                                                            contained = false;
                                                        }
                                                    }
                                                }
                                                if depth < 0 {
                                                    contained = false;
                                                }
                                            }
                                        }
                                        if depth != 0 {
                                            contained = false;
                                        }
                                        let lone_cr = {
                                            let b = text.as_bytes();
                                            (0..b.len()).any(|q| b[q] == b'\r' && b.get(q + 1) != Some(&b'\n'))
                                        };
                                        let class = if lone_cr {
                                            "lone CR line breaks inside the line"
                                        } else if !contained {
                                            "the conditional block is not contained in the line"
                                        } else if closes_line || opens_line {
                                            "a directive is the first or last token of the line"
                                        } else if !branches_simple {
                                            "a branch holds brackets, operators or another directive"
                                        } else {
                                            "branches of identifiers, numbers and strings, inside the line"
                                        };
                                        if std::env::var("VERIF_DEBUG").is_ok() {
                                            eprintln!("DEBUG c07 group {:?} class {}", text, class);
                                        }
                                        fails.push(format!("c07: an asm instruction line with inline conditional directives is not reproduced byte for byte ({})", class));
                                    }
                                }
                            }
                            k = e + 1;
                        }
                    }
                }
                i = j;
            }
            i += 1;
        }
    }
    // every region must appear byte for byte, in order, in the output
    let mut from = 0usize;
    for (a, b) in regions {
        let r = &input[a..b];
        match out[from..].find(r) {
            Some(p) => from += p + r.len(),
            None => {
                fails.push("c07: a pasfmt off/on region is not reproduced byte for byte".to_string());
                break;
            }
        }
        // a region that runs to the end of the file is the end of the output: nothing may follow it
        if b == input.len() && a < b && region_open_at_eof(input, &toks) && !out.ends_with(r) {
            fails.push("c07: the output does not end with the region that runs to the end of the file".to_string());
        }
    }
    fails
}

/// protected byte ranges of an output: multi-line token contents, verbatim regions, asm bodies
fn protected_ranges(out: &str, toks: &[OTok]) -> Vec<(usize, usize)> {
    let mut pr = verbatim_regions(out, toks);
    let mut in_asm: Option<usize> = None;
    for t in toks {
        let content = &out[t.start + t.ws_len..t.end];
        if content.contains('\n') || content.contains('\r') {
            pr.push((t.start + t.ws_len, t.end));
        }
        match t.kind {
            RawTokenType::Keyword(KeywordKind::Asm) => {
                if in_asm.is_none() {
                    in_asm = Some(t.end);
                }
            }
            RawTokenType::Keyword(KeywordKind::End) => {
                if let Some(a) = in_asm.take() {
                    pr.push((a, t.start + t.ws_len));
                }
            }
            _ => {}
        }
    }
    if let Some(a) = in_asm {
        pr.push((a, out.len()));
    }
    pr
}

fn in_ranges(pr: &[(usize, usize)], a: usize, b: usize) -> bool {
    // does [a,b) intersect or touch a protected range
    pr.iter().any(|&(x, y)| a < y && x < b || (a >= x && a <= y) || (b >= x && b <= y))
}

pub fn c08_canonical(input: &str, cfg: &Cfg, well_formed: bool) -> Vec<String> {
    let out = fmt(input, cfg);
    let toks = lex_offsets(&out);
    let pr = protected_ranges(&out, &toks);
    let mut fails = vec![];
    let nl = if cfg.crlf { "\r\n" } else { "\n" };
    // gaps between tokens
    let mut blank_run_reported = false;
    for (i, t) in toks.iter().enumerate() {
        let gap = &out[t.start..t.start + t.ws_len];
        // the blanks directly before the first token of a verbatim region are that token's leading
        // whitespace and are kept verbatim by design; gaps inside protected ranges are not checked
        if !gap.is_empty() && in_ranges(&pr, t.start, t.start + t.ws_len) {
            continue;
        }
        let is_eof = matches!(t.kind, RawTokenType::Eof);
        let nls = gap.matches('\n').count();
        if nls == 0 {
            if i > 0 && !(gap.is_empty() || gap == " ") && !is_eof {
                fails.push(format!("c08: tokens on one line separated by {:?}", gap));
            }
            if is_eof && !gap.is_empty() && i > 0 {
                fails.push("c08: output ends in blanks without a line terminator".to_string());
            }
        } else {
            if i == 0 && !is_eof {
                fails.push("c08: blank line at the start of the output".to_string());
            }
            if nls > 2 && !blank_run_reported {
                blank_run_reported = true;
                fails.push("c08: two or more consecutive blank lines".to_string());
            }
            // shape: (nl)+ indentation ; nothing before the first nl (no trailing blanks)
            let first_nl = gap.find(nl).unwrap_or(usize::MAX);
            if first_nl != 0 {
                // trailing blanks after the previous token, unless it is protected
                let prev_protected = i > 0 && pr.iter().any(|&(x, y)| t.start > x && t.start <= y);
                if !prev_protected {
                    fails.push("c08: a line ends in blanks".to_string());
                }
            } else {
                let mut rest = gap;
                while let Some(r) = rest.strip_prefix(nl) {
                    rest = r;
                }
                if rest.contains('\n') || rest.contains('\r') {
                    fails.push("c08: blank line with blanks on it or wrong terminator".to_string());
                } else if !is_eof {
                    if cfg.use_tabs {
                        if !rest.chars().all(|c| c == '\t') {
                            fails.push(format!("c08: indentation {:?} is not made of tabs", rest));
                        }
                    } else if !rest.chars().all(|c| c == ' ') {
                        fails.push(format!("c08: indentation {:?} is not made of spaces", rest));
                    } else if (cfg.tab_width == 0 && !rest.is_empty()) || (cfg.tab_width > 0 && rest.len() % cfg.tab_width as usize != 0) {
                        fails.push(format!("c08: indentation of {} is not a multiple of tab_width={}", rest.len(), cfg.tab_width));
                    }
                } else if !rest.is_empty() {
                    fails.push("c08: blanks after the last line terminator".to_string());
                }
            }
        }
        // a token ending in a blank followed by a line break = trailing blank inside content
        if !is_eof {
            let content = &out[t.start + t.ws_len..t.end];
            let single_line = !content.contains('\n') && !content.contains('\r');
            let next_gap_has_nl = toks.get(i + 1).map_or(false, |n| out[n.start..n.start + n.ws_len].contains('\n'));
            if single_line && next_gap_has_nl && content.chars().last().map_or(false, is_blank_char) && !in_ranges(&pr, t.start + t.ws_len, t.end) {
                fails.push(format!("c08: a line ends in blanks (inside a token of kind {:?}, last character U+{:04X})", t.kind, content.chars().last().map_or(0, |c| c as u32)));
            }
        }
    }
    if well_formed && !out.is_empty() {
        let stripped = out.strip_suffix(nl);
        match stripped {
            None => fails.push("c08: output of well-formed input does not end with a line terminator".to_string()),
            Some(s) => {
                if s.ends_with('\n') || s.ends_with('\r') {
                    // allowed only if the tail is protected
                    if !pr.iter().any(|&(_, y)| y >= s.len()) {
                        fails.push("c08: output ends with more than one line terminator".to_string());
                    }
                }
            }
        }
    }
    fails.sort();
    fails.dedup();
    fails
}

/// The formatter's own acceptance condition for re-indenting a multi-line string (anything else is kept verbatim):
/// the last `str::lines` line is blank before the closing quotes, and every interior line starts with that blank prefix
/// or is itself a prefix of it.
fn mls_accepted_for_reindent(c: &str) -> bool {
    let Some(last_line) = c.lines().last() else { return false };
    let base = last_line.trim_end_matches('\'');
    if !base.chars().all(|ch| ch.is_whitespace()) {
        return false;
    }
    let mut lines: Vec<&str> = Vec::new();
    let mut rest = c;
    loop {
        match rest.find(['\r', '\n']) {
            None => {
                lines.push(rest);
                break;
            }
            Some(i) => {
                lines.push(&rest[..i]);
                let adv = if rest[i..].starts_with("\r\n") { 2 } else { 1 };
                rest = &rest[i + adv..];
            }
        }
    }
    lines.iter().skip(1).all(|l| l.starts_with(base) || base.starts_with(l))
}

fn has_line_spanning_verbatim(input: &str, fmt_mls: bool) -> bool {
    // multi-line comments, verbatim regions, untouched multi-line strings; a valid multi-line string that the
    // formatter re-indents is NOT verbatim: its interior terminators must be the configured ones
    let toks = lex_offsets(input);
    if !verbatim_regions(input, &toks).is_empty() {
        return true;
    }
    toks.iter().any(|t| {
        let c = &input[t.start + t.ws_len..t.end];
        let spans = c.contains('\n') || c.contains('\r');
        let rewritten_mls = fmt_mls
            && matches!(t.kind, RawTokenType::TextLiteral(TextLiteralKind::MultiLine))
            && mls_value(c).is_some()
            && mls_accepted_for_reindent(c);
        (spans && !rewritten_mls) || matches!(t.kind, RawTokenType::Keyword(KeywordKind::Asm))
    })
}

pub fn c09_line_endings(input: &str, cfg: &Cfg) -> Vec<String> {
    let mut fails = vec![];
    let mut lf = cfg.clone();
    lf.crlf = false;
    let mut crlf = cfg.clone();
    crlf.crlf = true;
    let spanning = has_line_spanning_verbatim(input, cfg.fmt_mls);
    let o_lf = fmt(input, &lf);
    let o_crlf = fmt(input, &crlf);
    if !spanning {
        // every break is the configured ending
        if o_lf.contains('\r') {
            fails.push("c09: lf output contains a carriage return".to_string());
        }
        if o_crlf.replace("\r\n", "").contains('\n') || o_crlf.replace("\r\n", "").contains('\r') {
            fails.push("c09: crlf output contains a lone \\n or \\r".to_string());
        }
        if o_lf.replace('\n', "\r\n") != o_crlf {
            fails.push("c09: crlf result is not the lf result with terminators substituted".to_string());
        }
        // input endings do not matter
        if !input.contains('\r') {
            let in_crlf = input.replace('\n', "\r\n");
            if fmt(&in_crlf, cfg) != fmt(input, cfg) {
                fails.push("c09: CRLF input gives a different result than the same input with LF".to_string());
            }
        }
    }
    fails
}

pub fn c10_indentation(input: &str, cfg: &Cfg) -> Vec<String> {
    let mut fails = vec![];
    let mut a = cfg.clone();
    a.wrap_column = u32::MAX;
    a.use_tabs = true;
    let mut b = a.clone();
    b.use_tabs = false;
    // u8 saturation of continuation width is a recorded finding; stay below it here
    if (b.cont as u32) * (b.tab_width as u32) > 255 {
        return fails;
    }
    let toks = lex_offsets(input);
    // multi-line strings whose own text starts a line with a tab are indistinguishable; skip inputs with tabs in tokens
    if toks.iter().any(|t| input[t.start + t.ws_len..t.end].contains('\t')) || !verbatim_regions(input, &toks).is_empty() {
        return fails;
    }
    if toks.iter().any(|t| matches!(t.kind, RawTokenType::Keyword(KeywordKind::Asm))) {
        return fails;
    }
    let ot = fmt(input, &a);
    let os = fmt(input, &b);
    // replace every leading tab by tab_width spaces
    let unit = " ".repeat(b.tab_width as usize);
    let mut conv = String::new();
    for (i, line) in ot.split('\n').enumerate() {
        if i > 0 {
            conv.push('\n');
        }
        let n = line.chars().take_while(|c| *c == '\t').count();
        for _ in 0..n {
            conv.push_str(&unit);
        }
        conv.push_str(&line[n..]);
    }
    if conv != os {
        fails.push("c10: use_tabs result with tabs expanded differs from the use_tabs=false result".to_string());
    }
    fails
}

pub fn c11_wrap_column(input: &str, cfg: &Cfg, w1: u32, w2: u32) -> Vec<String> {
    let mut fails = vec![];
    let (w1, w2) = (w1.min(w2), w1.max(w2));
    if w1 == w2 {
        return fails;
    }
    let mut a = cfg.clone();
    a.wrap_column = w1;
    let mut b = cfg.clone();
    b.wrap_column = w2;
    let o1 = fmt(input, &a);
    let o2 = fmt(input, &b);
    // the implementation measures bytes; a line "fits" here only if it fits in bytes (hence also in characters)
    let width = |s: &str| s.split('\n').map(|l| l.trim_end_matches('\r').len()).max().unwrap_or(0);
    let lines = |s: &str| s.matches('\n').count();
    if width(&o2) <= w1 as usize && o1 != o2 {
        fails.push(format!("c11: result for wrap_column={} fits in {} but the result for {} differs", w2, w1, w1));
    }
    if lines(&o2) > lines(&o1) {
        let overflow = if width(&o1) > w1 as usize { " (the narrower result has lines that do not fit)" } else { "" };
        fails.push(format!("c11: widening wrap_column from {} to {} increases the number of lines{}", w1, w2, overflow));
    }
    if width(&o1) <= w1 as usize && width(&o2) > w2 as usize {
        fails.push(format!("c11: every line fits at {} but not at {}", w1, w2));
    }
    fails
}

/// C11 at the exact-fit boundaries of one program: every (sampled) line width of the result at a generous width, and two
/// columns more, against that generous width
pub fn c11_sweep(input: &str, cfg: &Cfg) -> Vec<String> {
    let mut wide = cfg.clone();
    wide.wrap_column = 200;
    let o = fmt(input, &wide);
    let mut widths: Vec<usize> = o.split('\n').map(|l| l.trim_end_matches('\r').len()).filter(|w| *w >= 6 && *w < 198).collect();
    widths.sort();
    widths.dedup();
    let step = (widths.len() + 7) / 8;
    let mut fails = vec![];
    for (i, w) in widths.iter().enumerate() {
        if step > 1 && i % step != 0 {
            continue;
        }
        for w1 in [*w as u32, *w as u32 + 2] {
            for f in c11_wrap_column(input, cfg, w1, 200) {
                if !fails.contains(&f) {
                    fails.push(f);
                }
            }
        }
    }
    fails
}

/// C11 on a small program at EVERY wrap column from 4 to a few columns beyond its widest line at a generous width: the
/// three clauses over all pairs of widths (same messages as `c11_wrap_column`, first failing pair of each clause)
pub fn c11_full_sweep(input: &str, cfg: &Cfg) -> Vec<String> {
    let width = |s: &str| s.split('\n').map(|l| l.trim_end_matches('\r').len()).max().unwrap_or(0);
    let lines = |s: &str| s.matches('\n').count();
    let mut wide = cfg.clone();
    wide.wrap_column = 400;
    let top = (width(&fmt(input, &wide)) + 4).min(160) as u32;
    let ws: Vec<u32> = (4..=top).collect();
    let outs: Vec<String> = ws
        .iter()
        .map(|w| {
            let mut c = cfg.clone();
            c.wrap_column = *w;
            fmt(input, &c)
        })
        .collect();
    let mut fails = vec![];
    let (mut f1, mut f2, mut f3) = (false, false, false);
    for j in 0..ws.len() {
        let wj = width(&outs[j]);
        for i in 0..j {
            if !f1 && wj <= ws[i] as usize && outs[i] != outs[j] {
                f1 = true;
                fails.push(format!("c11: result for wrap_column={} fits in {} but the result for {} differs", ws[j], ws[i], ws[i]));
            }
            if !f2 && lines(&outs[j]) > lines(&outs[i]) {
                f2 = true;
                let overflow = if width(&outs[i]) > ws[i] as usize { " (the narrower result has lines that do not fit)" } else { "" };
                fails.push(format!("c11: widening wrap_column from {} to {} increases the number of lines{}", ws[i], ws[j], overflow));
            }
            if !f3 && width(&outs[i]) <= ws[i] as usize && wj > ws[j] as usize {
                f3 = true;
                fails.push(format!("c11: every line fits at {} but not at {}", ws[i], ws[j]));
            }
        }
    }
    fails
}

/// value of a multi-line literal per the property text; None if it violates the indentation rule
pub fn mls_value(lit: &str) -> Option<(Vec<String>, String)> {
    // split at \r\n, \n, \r
    let mut lines: Vec<&str> = vec![];
    let b = lit.as_bytes();
    let mut start = 0;
    let mut i = 0;
    while i < b.len() {
        if b[i] == b'\r' {
            lines.push(&lit[start..i]);
            if i + 1 < b.len() && b[i + 1] == b'\n' {
                i += 1;
            }
            start = i + 1;
        } else if b[i] == b'\n' {
            lines.push(&lit[start..i]);
            start = i + 1;
        }
        i += 1;
    }
    lines.push(&lit[start..]);
    if lines.len() < 2 {
        return None;
    }
    let last = lines[lines.len() - 1];
    let ind: String = last.chars().take_while(|c| is_blank_char(*c)).collect();
    if !last[ind.len()..].chars().all(|c| c == '\'') {
        return None;
    }
    let mut vals = vec![];
    for l in &lines[1..lines.len() - 1] {
        if let Some(r) = l.strip_prefix(ind.as_str()) {
            vals.push(r.to_string());
        } else if ind.starts_with(l) {
            vals.push(String::new());
        } else {
            return None;
        }
    }
    Some((vals, ind))
}

pub fn c12_multiline_strings(input: &str, cfg: &Cfg) -> Vec<String> {
    let mut fails = vec![];
    let out = fmt(input, cfg);
    let ti = lex_offsets(input);
    let to = lex_offsets(&out);
    let lits_in: Vec<&OTok> = ti.iter().filter(|t| matches!(t.kind, RawTokenType::TextLiteral(TextLiteralKind::MultiLine))).collect();
    let lits_out: Vec<&OTok> = to.iter().filter(|t| matches!(t.kind, RawTokenType::TextLiteral(TextLiteralKind::MultiLine))).collect();
    if lits_in.len() != lits_out.len() {
        fails.push("c12: number of multi-line literals changed".to_string());
        return fails;
    }
    let in_regions = verbatim_regions(input, &ti);
    for (a, b) in lits_in.iter().zip(lits_out.iter()) {
        let la = &input[a.start + a.ws_len..a.end];
        let lb = &out[b.start + b.ws_len..b.end];
        let verbatim = in_regions.iter().any(|&(x, y)| a.start >= x && a.end <= y);
        let va = mls_value(la);
        // lone-CR-terminated literals: the code's own notion of the last line differs; only LF/CRLF final break is rewritten
        if !cfg.fmt_mls || verbatim || va.is_none() {
            if la != lb {
                fails.push("c12: a literal that must be kept verbatim was changed".to_string());
            }
            continue;
        }
        let vb = mls_value(lb);
        match (va, vb) {
            (Some((x, _)), Some((y, ind_out))) => {
                if x != y {
                    fails.push("c12: value of a multi-line literal changed".to_string());
                }
                // alignment clause: closing quotes (hence all interior lines) indented like the opening quotes' line
                if mls_accepted_for_reindent(la) {
                    let tok_start = b.start + b.ws_len;
                    let line_start = out[..tok_start].rfind('\n').map(|p| p + 1).unwrap_or(0);
                    let line_ind: String = out[line_start..].chars().take_while(|c| is_blank_char(*c) && *c != '\n' && *c != '\r').collect();
                    if line_ind != ind_out {
                        fails.push(format!(
                            "c12: interior lines and closing quotes are not indented like the opening quotes' line ({} vs {} columns)",
                            ind_out.len(),
                            line_ind.len()
                        ));
                    }
                }
            }
            _ => fails.push("c12: rewritten literal violates the indentation rule".to_string()),
        }
    }
    fails
}

pub fn c15_cursors(input: &str, cfg: &Cfg, cursors: &[u32]) -> Vec<String> {
    let mut fails = vec![];
    let (o0, _) = run_real(input, cfg, &[]);
    let (o1, cur) = run_real(input, cfg, cursors);
    if o0 != o1 {
        fails.push("c15: requesting cursor tracking changes the formatted text".to_string());
    }
    let out = String::from_utf8(o1).unwrap();
    // same-offset-in-same-token clause: tokens of input and output are matched by position when the
    // two scans have the same number of tokens
    let ti = lex_offsets(input);
    let to = lex_offsets(&out);
    if ti.len() == to.len() {
        for (c_in, c_out) in cursors.iter().zip(cur.iter()) {
            let ci = *c_in as usize;
            // the token the cursor is inside of or at the end of (sticks to the earlier token)
            if let Some((k, t)) = ti.iter().enumerate().find(|(_, t)| ci > t.start + t.ws_len && ci <= t.end) {
                let a = &input[t.start + t.ws_len..t.end];
                let b = &out[to[k].start + to[k].ws_len..to[k].end];
                if a == b && !matches!(t.kind, RawTokenType::Eof) {
                    let expect = to[k].start + to[k].ws_len + (ci - (t.start + t.ws_len));
                    if *c_out as usize != expect {
                        fails.push(format!("c15: cursor at offset {} of an unchanged {:?} token is reported at offset {} of it", ci - (t.start + t.ws_len), t.kind, *c_out as i64 - (to[k].start + to[k].ws_len) as i64));
                    }
                }
            }
        }
    }
    for (c_in, c_out) in cursors.iter().zip(cur.iter()) {
        let co = *c_out as usize;
        if co > out.len() || !out.is_char_boundary(co) {
            let toks = lex_offsets(input);
            let ci = *c_in as usize;
            let mut place = "beyond the end".to_string();
            for t in &toks {
                if ci <= t.end {
                    place = if ci < t.start + t.ws_len { format!("whitespace before {:?}", t.kind) } else { format!("{:?}", t.kind) };
                    break;
                }
            }
            if co > out.len() {
                fails.push(format!("c15: reported cursor lies beyond the output (cursor was in {})", place));
            } else {
                fails.push(format!("c15: reported cursor is not on a character boundary (cursor was in {})", place));
            }
        }
        if *c_in as usize > input.len() && co != out.len() {
            fails.push("c15: a cursor beyond the end of the input does not map to the end of the output".to_string());
        }
    }
    fails
}

/// C14 predicate on the parser's output
pub fn c14_lines(input: &str, well_formed: bool) -> Vec<String> {
    let mut fails = vec![];
    let raw = DelphiLexer {}.lex(input);
    let n = raw.len();
    let has_cond = raw.iter().any(|t| matches!(t.get_token_type(), RawTokenType::ConditionalDirective(_)));
    let (lines, _tokens) = DelphiLogicalLineParser {}.parse(raw);
    // the lines line-based formatting actually sees: after the three post-parse consolidators
    {
        let (mut lines2, mut tokens) = DelphiLogicalLineParser {}.parse(DelphiLexer {}.lex(input));
        TokenConsolidator::consolidate(&DistinguishGenericTypeParamsConsolidator {}, &mut tokens);
        LogicalLinesConsolidator::consolidate(&ConditionalDirectiveConsolidator {}, (&mut tokens, &mut lines2));
        LogicalLinesConsolidator::consolidate(&DeindentPackageDirectives {}, (&mut tokens, &mut lines2));
        let mut count = vec![0usize; n];
        if lines2.len() != lines.len() {
            fails.push("c14: the consolidators changed the number of logical lines".to_string());
        }
        for l in &lines2 {
            let ts = l.get_tokens();
            if ts.is_empty() && l.get_line_type() != LogicalLineType::Voided {
                fails.push("c14: after the consolidators: empty logical line that is not voided".to_string());
            }
            for w in ts.windows(2) {
                if w[0] >= w[1] {
                    fails.push("c14: after the consolidators: token positions of a line are not strictly increasing".to_string());
                }
            }
            for &t in ts {
                if t >= n {
                    fails.push("c14: after the consolidators: token position out of range".to_string());
                } else {
                    count[t] += 1;
                }
            }
        }
        if count.iter().any(|&c| c == 0) {
            fails.push("c14: after the consolidators: a token belongs to no logical line".to_string());
        }
    }
    let mut count = vec![0usize; n];
    for l in &lines {
        let ts = l.get_tokens();
        if ts.is_empty() {
            fails.push("c14: empty logical line".to_string());
        }
        for w in ts.windows(2) {
            if w[0] >= w[1] {
                fails.push("c14: token positions of a line are not strictly increasing".to_string());
            }
        }
        for &t in ts {
            if t >= n {
                fails.push("c14: token position out of range".to_string());
            } else {
                count[t] += 1;
            }
        }
    }
    if count.iter().any(|&c| c == 0) {
        fails.push("c14: a token belongs to no logical line".to_string());
    }
    if !has_cond && count.iter().any(|&c| c > 1) {
        fails.push("c14: a token belongs to two lines although the file has no conditional directives".to_string());
    }
    if well_formed {
        for (i, l) in lines.iter().enumerate() {
            if let Some(p) = l.get_parent() {
                if p.line_index >= i {
                    fails.push("c14: parent line does not precede its child".to_string());
                } else if !lines[p.line_index].get_tokens().contains(&p.global_token_index) {
                    fails.push("c14: parent line does not contain the parent token".to_string());
                }
            }
        }
        let eofs: Vec<_> = lines.iter().filter(|l| l.get_line_type() == LogicalLineType::Eof).collect();
        if eofs.len() != 1 || eofs[0].get_tokens() != &vec![n - 1] {
            fails.push("c14: not exactly one end-of-file line holding only the end-of-file token".to_string());
        }
    }
    fails.sort();
    fails.dedup();
    fails
}

/// byte span of the name of a `{$...}` / `(*$...*)` directive: the run of letters, digits, `_` and - for switch lists
/// such as `{$r+,q-}` - `+`, `-`, `,` directly after the `$` (written from the property text)
pub fn directive_name_span(c: &str) -> (usize, usize) {
    let a = if c.starts_with("{$") {
        2
    } else if c.starts_with("(*$") {
        3
    } else {
        return (0, 0);
    };
    let n = c.as_bytes()[a..].iter().take_while(|b| b.is_ascii_alphanumeric() || matches!(**b, b'_' | b'+' | b'-' | b',')).count();
    (a, a + n)
}

/// C01, second clause: a case difference may occur only inside a word that can be a keyword or inside a directive name
pub fn c01_case_positions(input: &str, out: &str) -> Vec<String> {
    let toks = lex_offsets(input);
    // per non-blank character of the input: may its case change?
    let mut may = Vec::new();
    let mut chars = Vec::new();
    for t in &toks {
        let c0 = t.start + t.ws_len;
        let c = &input[c0..t.end];
        let span = match t.kind {
            RawTokenType::Keyword(_) | RawTokenType::IdentifierOrKeyword(_) => (0, c.len()),
            RawTokenType::CompilerDirective | RawTokenType::ConditionalDirective(_) => directive_name_span(c),
            _ => (0, 0),
        };
        for (i, ch) in c.char_indices() {
            if !is_blank_char(ch) {
                chars.push(ch);
                may.push(i >= span.0 && i < span.1);
            }
        }
        // blanks inside the leading whitespace never count
    }
    let outc: Vec<char> = out.chars().filter(|c| !is_blank_char(*c)).collect();
    if outc.len() != chars.len() {
        return vec![]; // the first clause reports this
    }
    for (k, (a, b)) in chars.iter().zip(outc.iter()).enumerate() {
        if a != b && !may[k] {
            return vec![format!("c01: character {:?} became {:?} outside keyword words and directive names", a, b)];
        }
    }
    vec![]
}

/// C02: re-scan the output and compare kinds/text with the input's tokens under the documented normalisations
pub fn c02_rescan(input: &str, cfg: &Cfg) -> Vec<String> {
    let mut fails = vec![];
    let out = fmt(input, cfg);
    let ti = DelphiLexer {}.lex(input);
    let to = DelphiLexer {}.lex(&out);
    if ti.len() != to.len() {
        fails.push(format!("c02: input scans to {} tokens, output to {}", ti.len(), to.len()));
        return fails;
    }
    for (a, b) in ti.iter().zip(to.iter()) {
        let ka = a.get_token_type();
        let kb = b.get_token_type();
        let same_kind = match (ka, kb) {
            // first-on-line status of comments may legitimately change
            (RawTokenType::Comment(x), RawTokenType::Comment(y)) => x.is_singleline() == y.is_singleline(),
            (x, y) => x == y,
        };
        if !same_kind {
            fails.push(format!("c02: token kind changed from {:?} to {:?}", ka, kb));
            break;
        }
        let ca = a.get_content();
        let cb = b.get_content();
        let ok = match ka {
            // lower-cased as a whole, or untouched (verbatim regions, words that are not keywords where they stand)
            RawTokenType::Keyword(_) | RawTokenType::IdentifierOrKeyword(_) => cb == ca || cb == ca.to_ascii_lowercase(),
            // only the directive name (for switch lists: the list) may change, and only to upper case
            RawTokenType::CompilerDirective | RawTokenType::ConditionalDirective(_) => {
                let (a, b) = directive_name_span(ca);
                cb == ca
                    || (cb.len() == ca.len()
                        && cb.is_char_boundary(a)
                        && cb.is_char_boundary(b)
                        && cb[..a] == ca[..a]
                        && cb[b..] == ca[b..]
                        && cb[a..b].bytes().zip(ca[a..b].bytes()).all(|(y, x)| y == x || y == x.to_ascii_uppercase()))
            }
            RawTokenType::Comment(k) if k.is_singleline() => {
                // trailing blanks trimmed; one space inserted after `//` or `///` when the text starts right there
                let pre = if ca.starts_with("///") { 3 } else { 2 };
                let spaced = format!("{} {}", &ca[..pre], &ca[pre..]);
                let trims: [&dyn Fn(&str) -> String; 2] =
                    [&|s: &str| s.trim_end_matches(|c: char| c.is_ascii_whitespace()).to_string(), &|s: &str| s.trim_end_matches(is_blank_char).to_string()];
                cb == ca || cb == spaced || trims.iter().any(|t| cb == t(ca) || cb == t(&spaced))
            }
            RawTokenType::TextLiteral(TextLiteralKind::MultiLine) => {
                ca == cb || (mls_value(ca).is_some() && mls_value(ca).map(|x| x.0) == mls_value(cb).map(|x| x.0))
            }
            _ => ca == cb,
        };
        if !ok {
            fails.push(format!("c02: token text changed from {:?} to {:?}", ca, cb));
            break;
        }
    }
    fails
}


pub fn c06_relayout(a: &str, b: &str, cfg: &Cfg) -> Vec<String> {
    let oa = fmt(a, cfg);
    let ob = fmt(b, cfg);
    if oa != ob {
        vec!["c06: two layouts of the same token sequence (same comments and blank-line groups) format differently".to_string()]
    } else {
        vec![]
    }
}

/// C05: block structure of a grammar-generated program (marks from the generator; one lexer token per generated token)
pub fn c05_structure(input: &str, cfg: &Cfg, marks: &[crate::gen::Mark], texts: &[String]) -> Vec<String> {
    use crate::gen::Mark;
    let mut fails = vec![];
    // comments (the layouts of this family only insert `//` comments at line ends) are not generated tokens: the marks
    // are matched against the non-comment tokens
    let is_comment = |t: &OTok| matches!(t.kind, RawTokenType::Comment(_) | RawTokenType::ConditionalDirective(_) | RawTokenType::CompilerDirective);
    let ti_all = lex_offsets(input);
    if ti_all.iter().filter(|t| !is_comment(t)).count() != marks.len() + 1 {
        return fails; // generated tokens do not map one-to-one to lexer tokens: not a case for this oracle
    }
    let out = fmt(input, cfg);
    let to_all = lex_offsets(&out);
    if to_all.len() != ti_all.len() {
        return fails; // C02's business
    }
    let unit: usize = if cfg.use_tabs { 1 } else { cfg.tab_width as usize };
    // first-on-line flag and indentation (in characters) of every output token (comments included), then restricted
    let mut first_all = vec![false; to_all.len()];
    let mut indent_all = vec![0usize; to_all.len()];
    let mut line_indent = 0usize;
    for (i, t) in to_all.iter().enumerate() {
        let gap = &out[t.start..t.start + t.ws_len];
        if i == 0 || gap.contains('\n') {
            first_all[i] = true;
            line_indent = gap.rsplit('\n').next().unwrap_or("").chars().count();
        }
        indent_all[i] = line_indent;
    }
    let keep: Vec<usize> = (0..to_all.len()).filter(|&i| !is_comment(&to_all[i])).collect();
    let first: Vec<bool> = keep.iter().map(|&i| first_all[i]).collect();
    let indent: Vec<usize> = keep.iter().map(|&i| indent_all[i]).collect();
    let openers = ["begin", "repeat", "try", "except", "finally", "else", "case", "const", "var", "type", "resourcestring", "private", "protected", "public", "published", "class"];
    for (i, m) in marks.iter().enumerate() {
        let d = match m {
            Mark::Start(d) | Mark::Closer(d) => *d,
            Mark::BodyBegin(d) if cfg.begin_always => *d,
            _ => continue,
        };
        // nearest preceding marked token of depth d-1 (opener) or depth d (sibling)
        let find_prev = |depth: u16| -> Option<usize> {
            (0..i).rev().find(|&j| match marks[j] {
                Mark::Start(x) | Mark::Closer(x) | Mark::BodyBegin(x) => x == depth,
                _ => false,
            })
        };
        // absolute clause for the outermost level: a statement/declaration the generator placed at depth 0 (unit
        // keywords, routine headers of the implementation part, statements of a bare statement list) starts its own
        // line without indentation — it has no enclosing block to drift with
        if let Mark::Start(0) = m {
            if !first[i] {
                fails.push(format!("c05: top-level {:?} does not start its own line", texts[i]));
            } else if indent[i] != 0 {
                fails.push(format!("c05: top-level {:?} is indented {}", texts[i], indent[i]));
            }
        }
        let opener = if d > 0 { find_prev(d - 1) } else { None };
        let opener_text = opener.map(|j| texts[j].to_lowercase());
        let in_listed_block = matches!(m, Mark::Start(_)) && opener_text.as_ref().map_or(false, |t| openers.contains(&t.as_str()))
            // nothing between the opener and this token may close the opener's block: the opener is the nearest one
            ;
        let is_closer = matches!(m, Mark::Closer(_)) && ["end", "until", "except", "finally"].contains(&texts[i].to_lowercase().as_str());
        let is_body_begin = matches!(m, Mark::BodyBegin(_));
        if !(in_listed_block || is_closer || is_body_begin) {
            continue;
        }
        if !first[i] {
            fails.push(format!("c05: {:?} token {:?} does not start its own line", m, texts[i]));
            continue;
        }
        if unit == 0 {
            continue;
        }
        if in_listed_block {
            let o = opener.unwrap();
            if indent[i] != indent[o] + unit {
                fails.push(format!("c05: statement/member {:?} is indented {} but the line of its opener {:?} is indented {}", texts[i], indent[i], texts[o], indent[o]));
            }
        } else if is_closer || is_body_begin {
            // same indentation as the line of the matching opener: nearest previous marked token of the same depth
            if let Some(o) = find_prev(d) {
                if indent[i] != indent[o] {
                    fails.push(format!("c05: {:?} is indented {} but its opener's line {:?} is indented {}", texts[i], indent[i], texts[o], indent[o]));
                }
            }
        }
    }
    fails.sort();
    fails.dedup();
    fails.truncate(3);
    fails
}
