/// SplitMix64: every random choice of the harness derives from one of these, seeded by VERIF_SEED.
#[derive(Clone)]
pub struct Rng(pub u64);

impl Rng {
    pub fn new(seed: u64) -> Self {
        Rng(seed.wrapping_mul(0x9E3779B97F4A7C15) ^ 0xD1B54A32D192ED03)
    }
    pub fn next(&mut self) -> u64 {
        self.0 = self.0.wrapping_add(0x9E3779B97F4A7C15);
        let mut z = self.0;
        z = (z ^ (z >> 30)).wrapping_mul(0xBF58476D1CE4E5B9);
        z = (z ^ (z >> 27)).wrapping_mul(0x94D049BB133111EB);
        z ^ (z >> 31)
    }
    pub fn below(&mut self, n: usize) -> usize {
        if n == 0 {
            0
        } else {
            (self.next() % n as u64) as usize
        }
    }
    pub fn range(&mut self, lo: usize, hi_incl: usize) -> usize {
        lo + self.below(hi_incl - lo + 1)
    }
    pub fn chance(&mut self, num: usize, den: usize) -> bool {
        self.below(den) < num
    }
    pub fn pick<'a, T>(&mut self, xs: &'a [T]) -> &'a T {
        &xs[self.below(xs.len())]
    }
    pub fn fork(&mut self) -> Rng {
        Rng(self.next())
    }
}

impl Rng {
    pub fn pick_str<'a>(&mut self, xs: &[&'a str]) -> &'a str {
        xs[self.below(xs.len())]
    }
}
