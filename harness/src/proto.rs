//! Line protocol helpers.  Bytes are lower-case hex, "-" for the empty string; lists are space separated.
use crate::stages::{FmtSnap, LineSnap};

pub fn hex(b: &[u8]) -> String {
    if b.is_empty() {
        return "-".to_string();
    }
    let mut s = String::with_capacity(b.len() * 2);
    for x in b {
        s.push(char::from_digit((x >> 4) as u32, 16).unwrap());
        s.push(char::from_digit((x & 15) as u32, 16).unwrap());
    }
    s
}

pub fn unhex(s: &str) -> Option<Vec<u8>> {
    if s == "-" {
        return Some(vec![]);
    }
    if s.len() % 2 != 0 {
        return None;
    }
    let b = s.as_bytes();
    let mut out = Vec::with_capacity(s.len() / 2);
    for i in (0..b.len()).step_by(2) {
        let h = (b[i] as char).to_digit(16)?;
        let l = (b[i + 1] as char).to_digit(16)?;
        out.push((h * 16 + l) as u8);
    }
    Some(out)
}

pub fn list<T: ToString>(xs: &[T]) -> String {
    if xs.is_empty() {
        "-".to_string()
    } else {
        xs.iter().map(|x| x.to_string()).collect::<Vec<_>>().join(" ")
    }
}

pub fn lines(ls: &[LineSnap]) -> String {
    if ls.is_empty() {
        return "-".to_string();
    }
    ls.iter()
        .map(|l| {
            format!(
                "{}:{}:{}:{}",
                l.line_type,
                l.level,
                match l.parent {
                    Some((a, b)) => format!("{}.{}", a, b),
                    None => "-".to_string(),
                },
                if l.tokens.is_empty() { "-".to_string() } else { l.tokens.iter().map(|t| t.to_string()).collect::<Vec<_>>().join(",") }
            )
        })
        .collect::<Vec<_>>()
        .join(";")
}

pub fn fmts(fs: &[FmtSnap]) -> String {
    if fs.is_empty() {
        return "-".to_string();
    }
    fs.iter()
        .map(|f| format!("{}.{}.{}.{}.{}", f.nl, f.ind, f.cont, f.sp, f.ignored as u8))
        .collect::<Vec<_>>()
        .join(" ")
}

pub fn changed(before: &[Vec<u8>], after: &[Vec<u8>]) -> String {
    let v: Vec<String> = before
        .iter()
        .zip(after.iter())
        .enumerate()
        .filter(|(_, (a, b))| a != b)
        .map(|(i, (_, b))| format!("{}:{}", i, hex(b)))
        .collect();
    if v.is_empty() {
        "-".to_string()
    } else {
        v.join(" ")
    }
}
